(* CacheProofs3.v — concrete histories: regression examples for the repaired classes (pre-epoch mtimes,
   --in-place, transform ids that used to coincide), the rounding residue, and non-vacuity examples.
   Everything here is closed: a toy injective hash and small transforms, evaluated by vm_compute. *)
From FV Require Import Base CacheModel CacheProofs CacheProofs2.
Open Scope N_scope.

Definition Hx (a : N) (d : bytes) : hashv := a :: d.                          (* injective "hash" *)
Definition Tid (c : tconf) (d : bytes) : option bytes := Some d.
Definition Tip (c : tconf) (d : bytes) : option bytes := if t_inplace c then Some d else Some [].
Definition Thead (c : tconf) (d : bytes) : option bytes := Some (ntake 1 d).

(* decidable NUL-freeness of the command strings of a list of configurations *)
Definition nul_free_b (cs : list (N * option tconf)) : bool :=
  forallb (fun x => match snd x with Some c => negb (existsb (N.eqb 0) (t_cmd c)) | None => true end) cs.
Lemma nul_free_b_sound cs : nul_free_b cs = true -> nul_free cs.
Proof.
  unfold nul_free_b, nul_free, nul_free_cmd. intros Hb a c Hin X. rewrite forallb_forall in Hb.
  specialize (Hb _ Hin). cbn [snd] in Hb. apply negb_true_iff in Hb.
  assert (Y : existsb (N.eqb 0) (t_cmd c) = true) by (apply existsb_exists; exists 0; split; [exact X|reflexivity]).
  congruence.
Qed.

Definition ask (p pos len : N) : prog unit := Call (mkC p pos len IoOk) (fun _ => Ret tt).
Definition probe (p pos len : N) : prog result := Call (mkC p pos len IoOk) (fun r => Ret r).
Definition id7 : fid := (1, 7).

(* what a check of the property observes: the answer of a cached run after history h vs the uncached one *)
Definition cached_answer H T h a tr (p : prog result) : result :=
  fst (run_cached H T a tr p (fst (exec H T ([], empty_world) h)) (snd (exec H T ([], empty_world) h))).
Definition plain_answer H T h a tr (p : prog result) : result :=
  run_plain H T a tr p (snd (exec H T ([], empty_world) h)).

(* ---- mtimes before the epoch (the former KC1, repaired): distinct ms values, so the rewrite is seen ---- *)
Definition hK1 : list event :=
  [EvEdit (ECreate 1 id7 [97] (-5000000000)%Z); EvRun 0 None (ask 1 0 1); EvEdit (EWrite 1 [98] (-9000000000)%Z)].

Lemma ex_preepoch :
  stamp_determines (moments Hx Tid ([], empty_world) hK1) /\
  lookup (tree_of 0 None) (id7, 0, 1) (fst (exec Hx Tid ([], empty_world) hK1)) = Some (mkE (-5000)%Z 1 1 (Hx 0 [97])) /\
  cached_answer Hx Tid hK1 0 None (probe 1 0 1) = RHash (Hx 0 [98]) /\
  plain_answer Hx Tid hK1 0 None (probe 1 0 1) = RHash (Hx 0 [98]).
Proof.
  split; [apply stamp_determines_b_sound; vm_compute; reflexivity|].
  split; [vm_compute; reflexivity|]. split; vm_compute; reflexivity.
Qed.

(* ---- --in-place (the former KC2, repaired): the same command with and without it gets two trees ---- *)
Definition sedc (inplace : bool) : tconf := mkT [115; 101; 100] inplace true.
Definition hK2 : list event :=
  [EvEdit (ECreate 1 id7 [97; 98] 5000000%Z); EvRun 0 (Some (sedc false)) (ask 1 0 2)].

Lemma ex_inplace_switch :
  tree_of 0 (Some (sedc true)) <> tree_of 0 (Some (sedc false)) /\
  nul_free ((0, Some (sedc true)) :: confs hK2) /\
  Tip (sedc true) [97; 98] <> Tip (sedc false) [97; 98] /\
  cached_answer Hx Tip hK2 0 (Some (sedc true)) (probe 1 0 2) = plain_answer Hx Tip hK2 0 (Some (sedc true)) (probe 1 0 2).
Proof.
  split; [vm_compute; intros E; discriminate E|].
  split; [apply nul_free_b_sound; vm_compute; reflexivity|].
  split; [vm_compute; intros E; discriminate E|].
  vm_compute. reflexivity.
Qed.

(* ---- the former KC3 (repaired, ea68843): the parts of the id are separated by NUL ---- *)
(* (a) a command that reads "<none>" no longer shares the tree of "no transform" *)
Definition nonec : tconf := mkT none_str false true.
Definition hK3 : list event :=
  [EvEdit (ECreate 1 id7 [97; 98] 5000000%Z); EvRun 0 None (ask 1 0 2)].

Lemma ex_none_named :
  tree_of 0 (Some nonec) <> tree_of 0 None /\
  nul_free ((0, Some nonec) :: confs hK3) /\
  cached_answer Hx Thead hK3 0 (Some nonec) (probe 1 0 2) = plain_answer Hx Thead hK3 0 (Some nonec) (probe 1 0 2).
Proof.
  split; [vm_compute; intros E; discriminate E|].
  split; [apply nul_free_b_sound; vm_compute; reflexivity|].
  vm_compute. reflexivity.
Qed.

(* (b) a command ending in the text " --in-place" vs the shorter command run with fclones' --in-place *)
Definition cmdx : list N := [115; 32; 36; 73; 78].                         (* "s $IN" *)
Definition cA : tconf := mkT (cmdx ++ 32 :: inplace_str) false true.      (* --transform 's $IN --in-place' *)
Definition cB : tconf := mkT cmdx true true.                              (* --transform 's $IN' --in-place *)
Definition hK3b : list event :=
  [EvEdit (ECreate 1 id7 [97; 98] 5000000%Z); EvRun 0 (Some cA) (ask 1 0 2)].

Lemma ex_flag_text :
  tree_of 0 (Some cA) <> tree_of 0 (Some cB) /\
  nul_free ((0, Some cB) :: confs hK3b) /\
  Tip cA [97; 98] <> Tip cB [97; 98] /\
  cached_answer Hx Tip hK3b 0 (Some cB) (probe 1 0 2) = plain_answer Hx Tip hK3b 0 (Some cB) (probe 1 0 2).
Proof.
  split; [vm_compute; intros E; discriminate E|].
  split; [apply nul_free_b_sound; vm_compute; reflexivity|].
  split; [vm_compute; intros E; discriminate E|].
  vm_compute. reflexivity.
Qed.

(* ---- the two roundings of a pre-epoch mtime: -0.7 ms and +0.7 ms are different milliseconds when rounded down
        (-1 and 0) but both are 0 for timestamp_ms; a same-size rewrite between them is served the old hash.
        Excluded by stamp_determines (and by preepoch_whole_ms in the down-rounded form) ---- *)
Definition hEpoch : list event :=
  [EvEdit (ECreate 1 id7 [97] (-700000)%Z); EvRun 0 None (ask 1 0 1); EvEdit (EWrite 1 [98] 700000%Z)].
Lemma epoch_bucket :
  mtime_determines_b (moments Hx Tid ([], empty_world) hEpoch) = true /\
  stamp_determines_b (moments Hx Tid ([], empty_world) hEpoch) = false /\
  preepoch_fraction_b (moments Hx Tid ([], empty_world) hEpoch) = true /\
  cached_answer Hx Tid hEpoch 0 None (probe 1 0 1) = RHash (Hx 0 [97]) /\
  plain_answer Hx Tid hEpoch 0 None (probe 1 0 1) = RHash (Hx 0 [98]).
Proof. vm_compute. auto 6. Qed.

(* ---- what the proviso itself excludes: a same-size rewrite that keeps the millisecond ---- *)
Definition hSame : list event :=
  [EvEdit (ECreate 1 id7 [97; 98; 99] 5000000%Z); EvRun 0 None (ask 1 0 3); EvEdit (EWrite 1 [97; 98; 100] 5999999%Z)].
Lemma excluded_same_ms :
  stamp_determines_b (moments Hx Tid ([], empty_world) hSame) = false /\
  cached_answer Hx Tid hSame 0 None (probe 1 0 3) = RHash (Hx 0 [97; 98; 99]) /\
  plain_answer Hx Tid hSame 0 None (probe 1 0 3) = RHash (Hx 0 [97; 98; 100]).
Proof. vm_compute. auto. Qed.

(* ---- non-vacuity: histories satisfying every hypothesis in which the cache matters ---- *)
Definition state_after h := exec Hx Tid ([], empty_world) h.
Definition meta_of (w : world) (p : N) : option meta := option_map fst (stat w p).

(* (1) same-size rewrite WITH an mtime change: the old entry is still in the map but is not served *)
Definition hRewrite : list event :=
  [EvEdit (ECreate 1 id7 [97; 98; 99] 5000000%Z); EvRun 0 None (ask 1 0 3); EvEdit (EWrite 1 [97; 98; 100] 6000000%Z)].
Lemma ex_rewrite_invalidated :
  stamp_determines (moments Hx Tid ([], empty_world) hRewrite) /\
  tree_faithful Tid ((0, None) :: confs hRewrite) /\
  lookup (tree_of 0 None) (id7, 0, 3) (fst (state_after hRewrite)) = Some (mkE 5%Z 3 3 (Hx 0 [97; 98; 99])) /\
  (exists m, meta_of (snd (state_after hRewrite)) 1 = Some m /\
             cache_get (tree_of 0 None) (id7, 0, 3) m (fst (state_after hRewrite)) = None) /\
  cached_answer Hx Tid hRewrite 0 None (probe 1 0 3) = RHash (Hx 0 [97; 98; 100]).
Proof.
  split; [apply stamp_determines_b_sound; vm_compute; reflexivity|].
  split; [apply tree_faithful_nul_free; apply nul_free_b_sound; vm_compute; reflexivity|].
  split; [vm_compute; reflexivity|].
  split; [eexists; split; vm_compute; reflexivity|].
  vm_compute. reflexivity.
Qed.

(* (2) rename: the entry is found under the new name and reused (the run adds nothing) *)
Definition hRename : list event :=
  [EvEdit (ECreate 1 id7 [97; 98; 99] 5000000%Z); EvRun 0 None (ask 1 0 3); EvEdit (ERename 1 2)].
Lemma ex_rename_reused :
  stamp_determines (moments Hx Tid ([], empty_world) hRename) /\
  (exists m, meta_of (snd (state_after hRename)) 2 = Some m /\
             cache_get (tree_of 0 None) (id7, 0, 3) m (fst (state_after hRename)) = Some (3, Hx 0 [97; 98; 99])) /\
  snd (run_cached Hx Tid 0 None (probe 2 0 3) (fst (state_after hRename)) (snd (state_after hRename))) = fst (state_after hRename) /\
  cached_answer Hx Tid hRename 0 None (probe 2 0 3) = plain_answer Hx Tid hRename 0 None (probe 2 0 3).
Proof.
  split; [apply stamp_determines_b_sound; vm_compute; reflexivity|].
  split; [eexists; split; vm_compute; reflexivity|].
  split; vm_compute; reflexivity.
Qed.

(* (3) inode reuse: the file is deleted and another one gets the same inode number (other mtime) *)
Definition hReuse : list event :=
  [EvEdit (ECreate 1 id7 [97; 98; 99] 5000000%Z); EvRun 0 None (ask 1 0 3); EvEdit (EUnlink 1);
   EvEdit (ECreate 2 id7 [120; 121; 122] 7000000%Z)].
Lemma ex_inode_reuse :
  stamp_determines (moments Hx Tid ([], empty_world) hReuse) /\
  lookup (tree_of 0 None) (id7, 0, 3) (fst (state_after hReuse)) = Some (mkE 5%Z 3 3 (Hx 0 [97; 98; 99])) /\
  cached_answer Hx Tid hReuse 0 None (probe 2 0 3) = RHash (Hx 0 [120; 121; 122]).
Proof.
  split; [apply stamp_determines_b_sound; vm_compute; reflexivity|].
  split; vm_compute; reflexivity.
Qed.

(* (4) switching algorithm, transform and chunk size between runs, an interrupted run and lost entries *)
Definition hSwitch : list event :=
  [EvEdit (ECreate 1 id7 [97; 98; 99; 100] 5000000%Z); EvEdit (ELink 1 3);
   EvRun 0 None (ask 1 0 2);                                   (* interrupted after the prefix *)
   EvLose (fun _ _ _ => false);                                (* ... and its entry never reached the disk *)
   EvRun 0 None (Call (mkC 1 0 2 IoOk) (fun _ => ask 3 0 4));
   EvRun 2 None (ask 1 0 4);
   EvRun 0 (Some (mkT [99; 97; 116] false false)) (ask 1 0 4);
   EvEdit (EAppend 1 [101] 6000000%Z); EvEdit (ETruncate 3 2 7000000%Z); EvEdit (ETouch 1 8000000%Z)].
Lemma ex_switches :
  stamp_determines (moments Hx Tid ([], empty_world) hSwitch) /\
  tree_faithful Tid ((2, None) :: confs hSwitch) /\
  length (fst (state_after hSwitch)) = 4%nat /\
  cached_answer Hx Tid hSwitch 2 None (probe 3 0 4) = RHash (Hx 2 [97; 98]).
Proof.
  split; [apply stamp_determines_b_sound; vm_compute; reflexivity|].
  split.
  - apply tree_faithful_nul_free. apply nul_free_b_sound. vm_compute. reflexivity.
  - split; vm_compute; reflexivity.
Qed.

(* ---- returning stamps: a touch, then a same-size rewrite that sets the mtime back to the value it had two states
        ago.  Every content change changes the stamp relative to the state before it (stepwise_b), but states 1 and 3
        have one stamp and different content (stamp_determines_b = false). ---- *)
(* (1) nothing hashed the file in the touched state: the entry of state 1 is still there and is served.  Witness of
       the limitation KC4; the hypothesis of same_result_hashed_moments fails (moment 1 is a hashed moment). *)
Definition hRet : list event :=
  [EvEdit (ECreate 1 id7 [97; 98; 99] 5000000%Z); EvRun 0 None (ask 1 0 3);
   EvEdit (ETouch 1 6000000%Z); EvEdit (EWrite 1 [97; 98; 100] 5000000%Z)].
Lemma returning_stamp_stale :
  stepwise_b (moments Hx Tid ([], empty_world) hRet) = true /\
  stamp_determines_b (moments Hx Tid ([], empty_world) hRet) = false /\
  nofail (probe 1 0 3) /\
  cached_answer Hx Tid hRet 0 None (probe 1 0 3) = RHash (Hx 0 [97; 98; 99]) /\
  plain_answer Hx Tid hRet 0 None (probe 1 0 3) = RHash (Hx 0 [97; 98; 100]).
Proof. split; [vm_compute; reflexivity|]. split; [vm_compute; reflexivity|]. split; [cbn [probe nofail c_io]; auto|]. split; vm_compute; reflexivity. Qed.

(* (2) a run re-hashed the same key in the touched state: put OVERWRITES the entry (new stamp), so state 3 is a miss.
       Safe, but only because of the overwrite: no theorem above covers it (its hypothesis would need to know which
       keys the middle run visits). *)
Definition hRetRefreshed : list event :=
  [EvEdit (ECreate 1 id7 [97; 98; 99] 5000000%Z); EvRun 0 None (ask 1 0 3);
   EvEdit (ETouch 1 6000000%Z); EvRun 0 None (ask 1 0 3); EvEdit (EWrite 1 [97; 98; 100] 5000000%Z)].
Lemma returning_stamp_refreshed :
  stepwise_b (moments Hx Tid ([], empty_world) hRetRefreshed) = true /\
  stamp_determines_b (moments Hx Tid ([], empty_world) hRetRefreshed) = false /\
  lookup (tree_of 0 None) (id7, 0, 3) (fst (state_after hRetRefreshed)) = Some (mkE 6%Z 3 3 (Hx 0 [97; 98; 99])) /\
  cached_answer Hx Tid hRetRefreshed 0 None (probe 1 0 3) = plain_answer Hx Tid hRetRefreshed 0 None (probe 1 0 3).
Proof. split; [vm_compute; reflexivity|]. split; [vm_compute; reflexivity|]. split; vm_compute; reflexivity. Qed.

(* (3) ... and not even then when the refreshing write is lost (crash before the flush) while the older one survived,
       or when the middle run used another algorithm / chunk size / was interrupted before the file *)
Definition hRetLost : list event :=
  [EvEdit (ECreate 1 id7 [97; 98; 99] 5000000%Z); EvRun 0 None (ask 1 0 3);
   EvEdit (ETouch 1 6000000%Z); EvRun 0 None (ask 1 0 3); EvLose (fun _ _ e => Z.eqb (e_mt e) 5);
   EvEdit (EWrite 1 [97; 98; 100] 5000000%Z)].
Definition hRetOtherAlgo : list event :=
  [EvEdit (ECreate 1 id7 [97; 98; 99] 5000000%Z); EvRun 0 None (ask 1 0 3);
   EvEdit (ETouch 1 6000000%Z); EvRun 1 None (ask 1 0 3); EvEdit (EWrite 1 [97; 98; 100] 5000000%Z)].
Lemma returning_stamp_not_refreshed :
  cached_answer Hx Tid hRetLost 0 None (probe 1 0 3) = RHash (Hx 0 [97; 98; 99]) /\
  plain_answer Hx Tid hRetLost 0 None (probe 1 0 3) = RHash (Hx 0 [97; 98; 100]) /\
  stepwise_b (moments Hx Tid ([], empty_world) hRetOtherAlgo) = true /\
  cached_answer Hx Tid hRetOtherAlgo 0 None (probe 1 0 3) = RHash (Hx 0 [97; 98; 99]) /\
  plain_answer Hx Tid hRetOtherAlgo 0 None (probe 1 0 3) = RHash (Hx 0 [97; 98; 100]).
Proof. repeat split; vm_compute; reflexivity. Qed.

(* a returning stamp onto a state that no run ever hashed is covered by same_result_hashed_moments *)
Definition hRetUnhashed : list event :=
  [EvEdit (ECreate 1 id7 [97; 98; 99] 5000000%Z); EvEdit (ETouch 1 6000000%Z); EvRun 0 None (ask 1 0 3);
   EvEdit (EWrite 1 [97; 98; 100] 5000000%Z)].
Lemma returning_stamp_unhashed :
  stamp_determines_b (moments Hx Tid ([], empty_world) hRetUnhashed) = false /\
  stamp_det2 (run_moments Hx Tid ([], empty_world) hRetUnhashed) [snd (state_after hRetUnhashed)] /\
  cached_answer Hx Tid hRetUnhashed 0 None (probe 1 0 3) = plain_answer Hx Tid hRetUnhashed 0 None (probe 1 0 3).
Proof.
  split; [vm_compute; reflexivity|]. split; [|vm_compute; reflexivity].
  intros w1 w2 id i1 i2 I1 I2 E1 E2 Em El. destruct I2 as [<-|[]].
  vm_compute in I1. destruct I1 as [<-|[]].
  unfold inode_of in E1, E2. vm_compute in E1, E2.
  destruct id as [d n]. destruct d as [|[p|p|]]; try discriminate E1.
  destruct n as [|[[[p|p|]|[p|p|]|]|[[p|p|]|[p|p|]|]|]]; try discriminate E1.
  injection E1 as <-. injection E2 as <-. vm_compute in Em. discriminate Em.
Qed.
