(* FsModel.v — a small executable model of the part of a POSIX file system that the dedupe commands
   of fclones touch (engines A and D; properties C05, C18, C20, later C02 / C11).  NO proofs here.

   State  [fs]:  names  : path -> option node      (directory tree, keyed by NORMALISED absolute paths)
                 inodes : N -> option inode        (bytes + mtime of every regular file; hard links share)
                 locks  : N -> bool                (inode write-locked by ANOTHER process: fcntl locks are per inode)
                 next   : N                        (next unused inode number)
   Paths are component lists (each component a byte list); the first component of an absolute path
   is "/" exactly as in fclones' path.rs.  The kernel-side lexical normalisation ("." dropped, ".."
   pops) is [norm]; every primitive call normalises its operands first ([ncall]), so programs pass
   the paths exactly as the code passes them to libc (e.g. DIR/./a/b produced by move_target).

   Primitive calls [call] = the libc calls the commands issue.  [nat_call] is the natural (fault
   free) semantics: result + new state, computed from the state alone.  An injected fault
   ([fault], chosen by the oracle of AtomicModel.v) makes a call of the mutating class return an
   error and leave the state unchanged (stated assumption: POSIX atomicity of rename / link /
   symlink / unlink / mkdir, FICLONE all-or-nothing) — EXCEPT CopyTo (std::fs::copy: open
   O_CREAT|O_TRUNC, fchmod, copy_file_range...), which may leave a partial TARGET and never writes
   the source.

   Not modelled (assumptions of every theorem that uses this file, checked by the correspondence
   generators): symbolic links in the *directory* part of a path (only the final component is
   followed, by [resolve]); relative symlink targets; directories as operands of rename / unlink;
   permissions, owners, xattrs; link counts (an inode that lost its last name simply stays in the
   table, unreachable). *)
From FV Require Import Base.
Open Scope N_scope.

(* ---------------------------------------------------------------- paths *)
Definition comp := list N.
Definition path := list comp.

Fixpoint comp_eqb (a b : comp) : bool :=
  match a, b with
  | [], [] => true
  | x :: a', y :: b' => N.eqb x y && comp_eqb a' b'
  | _, _ => false
  end.
Fixpoint path_eqb (p q : path) : bool :=
  match p, q with
  | [], [] => true
  | x :: p', y :: q' => comp_eqb x y && path_eqb p' q'
  | _, _ => false
  end.

Definition root_c : comp := [47].        (* "/" *)
Definition dot_c : comp := [46].         (* "." *)
Definition dotdot_c : comp := [46; 46].  (* ".." *)

(* lexical normalisation as done by path resolution when no directory symlinks are involved *)
Definition norm_step (acc : path) (c : comp) : path :=   (* acc is reversed *)
  if comp_eqb c dot_c then acc
  else if comp_eqb c dotdot_c then
         match acc with
         | [] => []
         | [r] => if comp_eqb r root_c then [r] else []
         | _ :: acc' => acc'
         end
  else c :: acc.
Definition norm (p : path) : path := rev (fold_left norm_step p []).

Definition parent (p : path) : path := removelast p.

(* PartitionedFileGroup::move_target + Path::{root, strip_root, join} on Unix.
   root() = the prefix ending at a component "/" (for a well-formed path: the head);
   its lossy string with '/', '\\', ':' removed is "", and Path::from("") is the one-component
   path "."; strip_root of the bare root is Path::make([]) = ".". *)
Definition mv_target (dir p : path) : path :=
  match p with
  | c :: rest => if comp_eqb c root_c
                 then dir ++ dot_c :: (match rest with [] => [dot_c] | _ => rest end)
                 else dir ++ p
  | [] => dir
  end.

(* FsCommand::temp_file: sibling  <name>.<24 random alphanumerics>  (the suffix is a parameter) *)
Definition temp_of (p : path) (sfx : comp) : path :=
  match rev p with
  | [] => [sfx]
  | name :: rdir => rev rdir ++ [name ++ 46 :: sfx]
  end.

(* ---------------------------------------------------------------- state *)
Inductive node := NFile (i : N) | NDir | NLink (t : path).
Record inode := mkInode { ibytes : list N; imtime : Z }.
Record fs := mkFs { names : path -> option node; inodes : N -> option inode; locks : N -> bool; next : N }.

Definition upd_names (f : path -> option node) (p : path) (v : option node) : path -> option node :=
  fun q => if path_eqb p q then v else f q.
Definition upd_inodes (f : N -> option inode) (i : N) (v : option inode) : N -> option inode :=
  fun j => if N.eqb i j then v else f j.

Definition set_name (s : fs) (p : path) (v : option node) : fs :=
  mkFs (upd_names (names s) p v) (inodes s) (locks s) (next s).
Definition set_inode (s : fs) (i : N) (v : inode) : fs :=
  mkFs (names s) (upd_inodes (inodes s) i (Some v)) (locks s) (next s).
Definition set_locks (s : fs) (l : N -> bool) : fs := mkFs (names s) (inodes s) l (next s).
(* a new regular file at p *)
Definition create_at (s : fs) (p : path) (d : inode) : fs :=
  mkFs (upd_names (names s) p (Some (NFile (next s)))) (upd_inodes (inodes s) (next s) (Some d)) (locks s) (next s + 1).

Definition is_dir (s : fs) (p : path) : bool := match names s p with Some NDir => true | _ => false end.

(* following the FINAL component's symbolic links (open, stat, exists, utimensat without NOFOLLOW) *)
Inductive rres := RFound (q : path) (n : node) | RDangling (q : path) | RLoop.
Fixpoint resolve (fuel : nat) (s : fs) (p : path) : rres :=
  match names s p with
  | None => RDangling p
  | Some (NLink t) => match fuel with O => RLoop | S f => resolve f s t end
  | Some n => RFound p n
  end.
Definition LINK_FUEL : nat := 40.
Definition follow (s : fs) (p : path) : rres := resolve LINK_FUEL s p.

Definition exists_follow (s : fs) (p : path) : bool :=    (* std::path::Path::exists / metadata().is_ok() *)
  match follow s p with RFound _ _ => true | _ => false end.
(* fs::symlink_metadata(p).is_ok(): anything at all is present at p, the final component is NOT followed *)
Definition lexists (s : fs) (p : path) : bool := match names s p with Some _ => true | None => false end.

(* bytes seen by a reader that opens p (following links) *)
Definition file_bytes (s : fs) (p : path) : option (list N) :=
  match follow s p with
  | RFound _ (NFile i) => option_map ibytes (inodes s i)
  | _ => None
  end.

(* ---------------------------------------------------------------- calls *)
Inductive err := ENOENT | EEXIST | ENOTDIR | EISDIR | ELOOP | EAGAIN | EINVAL | EIO | ENOSPC | EXDEV | EPERM
               | EOPNOTSUPP | EOTHER.
Inductive res := ROk | RErr (e : err).

Inductive call :=
| Rename (a b : path) | Link (a b : path) | Symlink (t l : path) | Unlink (a : path) | Mkdir (d : path)
| OpenW (a : path)                 (* open(O_WRONLY) of lock.rs; no state change *)
| LockW (a : path)                 (* fcntl(F_SETLK, F_WRLCK) on that descriptor *)
| UnlockW (a : path)               (* fcntl(F_SETLK, F_UNLCK) when the guard is dropped *)
| Create (a : path) (now : Z)      (* open(O_WRONLY|O_CREAT), no truncation (reflink_overwrite) *)
| CloneTo (a b : path) (now : Z)   (* ioctl(FICLONE) b <- a; both already open *)
| CopyTo (a b : path) (now : Z)    (* std::fs::copy *)
| Utimes (a : path) (mt : Z)       (* utimensat (follows links) *)
(* queries: not in the fault class, never change the state *)
| Exists (a : path) | IsDir (a : path) | OpenR (a : path)
| LExists (a : path).             (* lstat: used by check_can_rename since the K6 fix (041ee27) *)

Definition is_query (c : call) : bool :=
  match c with Exists _ | IsDir _ | OpenR _ | LExists _ => true | _ => false end.

Definition ncall (c : call) : call :=
  match c with
  | Rename a b => Rename (norm a) (norm b)
  | Link a b => Link (norm a) (norm b)
  | Symlink t l => Symlink (norm t) (norm l)
  | Unlink a => Unlink (norm a)
  | Mkdir d => Mkdir (norm d)
  | OpenW a => OpenW (norm a)
  | LockW a => LockW (norm a)
  | UnlockW a => UnlockW (norm a)
  | Create a now => Create (norm a) now
  | CloneTo a b now => CloneTo (norm a) (norm b) now
  | CopyTo a b now => CopyTo (norm a) (norm b) now
  | Utimes a mt => Utimes (norm a) mt
  | Exists a => Exists (norm a)
  | IsDir a => IsDir (norm a)
  | OpenR a => OpenR (norm a)
  | LExists a => LExists (norm a)
  end.

Definition node_is_file_same (n n' : node) : bool :=
  match n, n' with NFile i, NFile j => N.eqb i j | _, _ => false end.

(* where a write through path b lands: an existing regular file, or a new file at the end of a
   (possibly empty) chain of dangling links whose parent directory exists *)
Inductive wtarget := WInode (i : N) | WNew (q : path) | WErr (e : err).
Definition write_target (s : fs) (b : path) : wtarget :=
  match follow s b with
  | RFound _ (NFile i) => WInode i
  | RFound _ NDir => WErr EISDIR
  | RFound _ (NLink _) => WErr ELOOP
  | RDangling q => if is_dir s (parent q) then WNew q else WErr ENOENT
  | RLoop => WErr ELOOP
  end.

Definition src_bytes (s : fs) (a : path) : option (list N) := file_bytes s a.

(* the bytes [d] are written through b (open O_CREAT [|O_TRUNC] + write) *)
Definition write_through (s : fs) (b : path) (d : inode) : res * fs :=
  match write_target s b with
  | WInode i => (ROk, set_inode s i d)
  | WNew q => (ROk, create_at s q d)
  | WErr e => (RErr e, s)
  end.

(* natural semantics on NORMALISED operands *)
Definition nat_ncall (c : call) (s : fs) : res * fs :=
  match c with
  | Rename a b =>
      match names s a with
      | None => (RErr ENOENT, s)
      | Some NDir => (RErr EOTHER, s)                       (* directories are never renamed by the commands *)
      | Some n =>
          if negb (is_dir s (parent b)) then (RErr ENOENT, s)
          else match names s b with
               | Some NDir => (RErr EISDIR, s)
               | Some n' => if node_is_file_same n n' then (ROk, s)       (* POSIX: same file => no-op *)
                            else (ROk, set_name (set_name s a None) b (Some n))
               | None => (ROk, set_name (set_name s a None) b (Some n))
               end
      end
  | Link a b =>
      match names s a with
      | None => (RErr ENOENT, s)
      | Some NDir => (RErr EPERM, s)
      | Some n =>                                           (* linkat without AT_SYMLINK_FOLLOW: links a symlink itself (K7) *)
          match names s b with
          | Some _ => (RErr EEXIST, s)
          | None => if is_dir s (parent b) then (ROk, set_name s b (Some n)) else (RErr ENOENT, s)
          end
      end
  | Symlink t l =>
      match names s l with
      | Some _ => (RErr EEXIST, s)
      | None => if is_dir s (parent l) then (ROk, set_name s l (Some (NLink t))) else (RErr ENOENT, s)
      end
  | Unlink a =>
      match names s a with
      | None => (RErr ENOENT, s)
      | Some NDir => (RErr EISDIR, s)
      | Some _ => (ROk, set_name s a None)
      end
  | Mkdir d =>
      match names s d with
      | Some _ => (RErr EEXIST, s)
      | None => match names s (parent d) with
                | Some NDir => (ROk, set_name s d (Some NDir))
                | Some _ => (RErr ENOTDIR, s)
                | None => (RErr ENOENT, s)
                end
      end
  | OpenW a =>
      match follow s a with
      | RFound _ (NFile _) => (ROk, s)
      | RFound _ NDir => (RErr EISDIR, s)
      | RFound _ (NLink _) => (RErr ELOOP, s)
      | RDangling _ => (RErr ENOENT, s)
      | RLoop => (RErr ELOOP, s)
      end
  | LockW a =>
      match follow s a with
      | RFound _ (NFile i) => if locks s i then (RErr EAGAIN, s) else (ROk, s)
      | _ => (RErr EOTHER, s)
      end
  | UnlockW _ => (ROk, s)
  | Create a now =>
      match write_target s a with
      | WInode _ => (ROk, s)
      | WNew q => (ROk, create_at s q (mkInode [] now))
      | WErr e => (RErr e, s)
      end
  | CloneTo a b now =>
      match src_bytes s a, follow s b with
      | Some d, RFound _ (NFile j) => (ROk, set_inode s j (mkInode d now))
      | _, _ => (RErr EOTHER, s)
      end
  | CopyTo a b now =>
      match follow s a with
      | RFound _ (NFile i) =>
          match inodes s i, write_target s b with
          | Some src, WInode j =>
              (* O_TRUNC on the source itself destroys it before anything is read *)
              if N.eqb i j then (ROk, set_inode s j (mkInode [] now))
              else (ROk, set_inode s j (mkInode (ibytes src) now))
          | Some src, WNew q => (ROk, create_at s q (mkInode (ibytes src) now))
          | Some _, WErr e => (RErr e, s)
          | None, _ => (RErr EOTHER, s)
          end
      | RFound _ _ => (RErr EINVAL, s)
      | RDangling _ => (RErr ENOENT, s)
      | RLoop => (RErr ELOOP, s)
      end
  | Utimes a mt =>
      match follow s a with
      | RFound _ (NFile i) =>
          match inodes s i with
          | Some d => (ROk, set_inode s i (mkInode (ibytes d) mt))
          | None => (RErr EOTHER, s)
          end
      | RFound _ NDir => (ROk, s)                            (* directory timestamps are not modelled *)
      | RFound _ (NLink _) => (RErr ELOOP, s)
      | RDangling _ => (RErr ENOENT, s)
      | RLoop => (RErr ELOOP, s)
      end
  | Exists a => (if exists_follow s a then ROk else RErr ENOENT, s)
  | IsDir a => (match follow s a with RFound _ NDir => ROk | _ => RErr ENOTDIR end, s)
  | OpenR a => (match follow s a with RFound _ _ => ROk | RLoop => RErr ELOOP | RDangling _ => RErr ENOENT end, s)
  | LExists a => (if lexists s a then ROk else RErr ENOENT, s)
  end.

Definition nat_call (c : call) (s : fs) : res * fs := nat_ncall (ncall c) s.

(* ---------------------------------------------------------------- injected faults *)
(* [fpartial]: only read by CopyTo.  None = the target was not even opened; Some n = the target was
   created / truncated and received the first n bytes of the source before the copy failed. *)
Record fault := mkFault { ferr : err; fpartial : option N }.

Definition take (n : N) (l : list N) : list N := firstn (N.to_nat n) l.

(* state in which a CopyTo a b stopped after writing n bytes (crash in the middle, or failure) *)
Definition partial_copy (s : fs) (a b : path) (now : Z) (n : N) : fs :=
  match follow s a with
  | RFound _ (NFile i) =>
      match inodes s i, write_target s b with
      | Some src, WInode j => if N.eqb i j then set_inode s j (mkInode [] now)
                              else set_inode s j (mkInode (take n (ibytes src)) now)
      | Some src, WNew q => create_at s q (mkInode (take n (ibytes src)) now)
      | _, _ => s
      end
  | _ => s
  end.

Definition fail_nstate (c : call) (f : fault) (s : fs) : fs :=
  match c, fpartial f with
  | CopyTo a b now, Some n => partial_copy s a b now n
  | _, _ => s
  end.

(* one call under an optional injected fault (queries cannot be faulted) *)
Definition do_call (f : option fault) (c : call) (s : fs) : res * fs :=
  match f with
  | Some ft => if is_query c then nat_call c s else (RErr (ferr ft), fail_nstate (ncall c) ft s)
  | None => nat_call c s
  end.

(* states a crash can expose strictly inside a call: every prefix length of a CopyTo *)
Definition src_len (s : fs) (a : path) : nat :=
  match src_bytes s a with Some d => length d | None => O end.
Definition mids (c : call) (s : fs) : list fs :=
  match ncall c with
  | CopyTo a b now => map (fun n => partial_copy s a b now (N.of_nat n)) (seq 0 (S (src_len s a)))
  | _ => []
  end.

(* ---------------------------------------------------------------- observations *)
(* what a path looks like to an observer: used to state "restored" up to inode renumbering *)
Inductive view := VNone | VDir | VLink (t : path) | VFile (bytes : list N) | VBroken.
Definition view_of (s : fs) (p : path) : view :=
  match names s p with
  | None => VNone
  | Some NDir => VDir
  | Some (NLink t) => VLink t
  | Some (NFile i) => match inodes s i with Some d => VFile (ibytes d) | None => VBroken end
  end.

(* extensional equality of states (the function fields make Leibniz equality too fine) *)
Definition fs_eq (s s' : fs) : Prop :=
  (forall p, names s p = names s' p) /\ (forall i, inodes s i = inodes s' i) /\
  (forall i, locks s i = locks s' i) /\ next s = next s'.

(* well-formedness: the inode allocator is ahead of every inode in use *)
Definition wf (s : fs) : Prop :=
  (forall p i, names s p = Some (NFile i) -> i < next s) /\ (forall i, next s <= i -> inodes s i = None).

Definition empty_fs : fs := mkFs (fun _ => None) (fun _ => None) (fun _ => false) 1.
