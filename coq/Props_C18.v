(* Props_C18.v — property C18: `move` maps sources injectively and never overwrites.
   Statements only; proofs are `exact <lemma of AtomicProofs4>`.

   mv_target (FsModel.v) = PartitionedFileGroup::move_target with Path::{root, strip_root, join}.
   wf_abs p = p is an absolute path as Path::from builds it ("/" first, no "." component after it).
   K6 (a DANGLING symbolic link at the target was replaced, because check_can_rename used Path::exists(), which
   follows links) is FIXED in the code (041ee27: fs::symlink_metadata(target).is_ok()); the model's Move now asks
   LExists (lstat, no link following) and C18_no_overwrite has no exception.  The dangling-link state that used to be
   the K6 witness is kept below as a regression Example. *)
From FV Require Import Base FsModel AtomicModel AtomicProofs AtomicProofs2 AtomicProofs3 AtomicProofs4 AtomicProofs5.
Open Scope N_scope.

Theorem C18_injective : forall (d p p' : path), wf_abs p -> wf_abs p' -> mv_target d p = mv_target d p' -> p = p'.
Proof. exact c18_injective. Qed.
Print Assumptions C18_injective.

(* DIR / "." / <path without the root>; the "." component comes from Path::from("") and disappears in
   the kernel's path resolution ([norm]) *)
Theorem C18_shape : forall (d rest : path),
  mv_target d (root_c :: rest) = d ++ dot_c :: (match rest with [] => [dot_c] | _ => rest end).
Proof. exact c18_shape. Qed.
Print Assumptions C18_shape.

(* If ANYTHING exists at the target — a file, a directory, a symbolic link whether it resolves or dangles — Move
   (both branches, with or without the lock prelude, under EVERY fault oracle) returns Err and logs only the error itself;
   it is not counted (C05_counted_iff_ok).  Since 730c76a the parent directories of the target are created BEFORE the
   target is looked up, so the file system may have GAINED directories (dirs_added: every name that existed and every inode
   is unchanged, names that did not exist are still absent or are now directories) — in the final state and in every
   state a crash can expose.  (When the target exists its parent directories exist, so on a real tree nothing is created
   unless DIR is spelled through a missing directory, e.g. newdir/../out: then newdir is created and the move refused.) *)
Theorem C18_no_overwrite : forall (sl : bool) (src tgt : path) (rn : bool) (now : Z) (s : fs),
  names s (norm tgt) <> None ->
  forall (o : oracle) (i : nat),
    (forall st, In st (states o i (prog_of sl (FMove src tgt rn now)) s) -> dirs_added s st) /\
    let r := run o i (prog_of sl (FMove src tgt rn now)) s in dirs_added s (ofs r) /\ ores r = IErr /\ owarn r = 0%nat.
Proof. exact c18_no_overwrite. Qed.
Print Assumptions C18_no_overwrite.

(* In every state a crash can expose (every fault oracle), the source is intact at its path, or the target
   already holds a complete copy of its bytes: the source is unlinked only after CopyTo succeeded. *)
Theorem C18_copy_then_delete : forall (sl : bool) (src tgt : path) (rn : bool) (now : Z) (s : fs) (o : oracle) (i : nat) (st : fs),
  pre (FMove src tgt rn now) s ->
  In st (states o i (prog_of sl (FMove src tgt rn now)) s) ->
  same_file s st src src \/ (file_bytes s src <> None /\ file_bytes st (norm tgt) = file_bytes s src).
Proof. exact c18_copy_then_delete. Qed.
Print Assumptions C18_copy_then_delete.

(* Distinctness survives the kernel's path resolution.  wf_clean p = "/" first and no "." / ".." component after it
   (what `group` writes into a report); DIR is arbitrary (relative, with "." and ".." components, anything).  The
   resolved target is the resolved DIR followed by the source path without its root, so any number of distinct
   sources get pairwise distinct resolved targets. *)
Theorem C18_resolved_shape : forall (d rest : path), clean rest ->
  norm (mv_target d (root_c :: rest)) = norm d ++ rest.
Proof. exact c18_resolved_shape. Qed.
Print Assumptions C18_resolved_shape.

Theorem C18_injective_resolved : forall (d p p' : path), wf_clean p -> wf_clean p' ->
  norm (mv_target d p) = norm (mv_target d p') -> p = p'.
Proof. exact c18_injective_resolved. Qed.
Print Assumptions C18_injective_resolved.

Theorem C18_targets_nodup : forall (d : path) (srcs : list path), Forall wf_clean srcs -> NoDup srcs ->
  NoDup (map (fun p => norm (mv_target d p)) srcs).
Proof. exact c18_targets_nodup. Qed.
Print Assumptions C18_targets_nodup.

(* ---------------------------------------------------------------- the former K6 state: a dangling link at the target *)
Definition k6_src : path := [root_c; [119]; [102; 50]].                   (* /w/f2 *)
Definition k6_dir : path := [root_c; [111]].                              (* /o *)
Definition k6_tgt : path := mv_target k6_dir k6_src.                      (* /o/./w/f2 *)
Definition k6_s : fs :=
  set_name
    (create_at (set_name (set_name (set_name (set_name empty_fs [root_c] (Some NDir)) [root_c; [119]] (Some NDir))
                                   k6_dir (Some NDir)) [root_c; [111]; [119]] (Some NDir))
               k6_src (mkInode [104; 105] 100))
    (norm k6_tgt) (Some (NLink [root_c; [110; 111; 119; 104; 101; 114; 101]])).       (* /o/w/f2 -> /nowhere *)

Example C18_dangling_link_refused :
  dangling_link k6_s (norm k6_tgt) /\
  (let r := run nofault 0 (prog_of true (FMove k6_src k6_tgt true 0)) k6_s in
   ores r = IErr /\ names (ofs r) (norm k6_tgt) = names k6_s (norm k6_tgt) /\ names (ofs r) k6_src = Some (NFile 1)) /\
  (let r := run nofault 0 (prog_of true (FMove k6_src k6_tgt false 0)) k6_s in
   ores r = IErr /\ names (ofs r) (norm k6_tgt) = names k6_s (norm k6_tgt) /\
   names (ofs r) [root_c; [110; 111; 119; 104; 101; 114; 101]] = None).
Proof.
  split; [split; [eexists; vm_compute; reflexivity|vm_compute; reflexivity]|].
  vm_compute. repeat split; reflexivity.
Qed.

(* non-vacuity: a colliding regular file at the target satisfies the hypothesis of C18_no_overwrite,
   and two distinct absolute sources map to distinct targets *)
Definition coll_s : fs := set_name k6_s (norm k6_tgt) (Some (NFile 1)).
Example C18_hyp_inhabited : names coll_s (norm k6_tgt) <> None /\ names k6_s (norm k6_tgt) <> None.
Proof. split; vm_compute; congruence. Qed.
Example C18_wf_abs_inhabited : wf_abs k6_src /\ wf_abs [root_c] /\ mv_target k6_dir [root_c] = k6_dir ++ [dot_c; dot_c].
Proof.
  split; [exists [[119]; [102; 50]]; split; [reflexivity|]|split; [exists []; split; [reflexivity|intros []]|reflexivity]].
  cbn. intros [H|[H|[]]]; discriminate.
Qed.

(* non-vacuity of wf_clean, and a DIR spelled through "." and "..": /o/./x/.. resolves to /o *)
Example C18_wf_clean_inhabited :
  wf_clean k6_src /\ norm (mv_target (k6_dir ++ [dot_c; [120]; dotdot_c]) k6_src) = [root_c; [111]; [119]; [102; 50]].
Proof.
  split; [|vm_compute; reflexivity].
  exists [[119]; [102; 50]]. split; [reflexivity|]. repeat constructor; discriminate.
Qed.
