(* AtomicProofs2.v — engine A, part 2: Remove, SoftLink, HardLink (lock prelude + safe_remove). *)
From FV Require Import Base FsModel AtomicModel AtomicProofs.
Open Scope N_scope.

(* ---------------------------------------------------------------- state simplification *)
Lemma names_set_same s p v : names (set_name s p v) p = v.
Proof. cbn [names set_name]. apply upd_names_same. Qed.
Lemma names_set_other s p v q : p <> q -> names (set_name s p v) q = names s q.
Proof. intros H. cbn [names set_name]. now apply upd_names_other. Qed.
Lemma inodes_set_name s p v : inodes (set_name s p v) = inodes s.
Proof. reflexivity. Qed.
Lemma names_set_inode s i d : names (set_inode s i d) = names s.
Proof. reflexivity. Qed.
Lemma inodes_set_inode_same s i d : inodes (set_inode s i d) i = Some d.
Proof. cbn [inodes set_inode]. apply upd_inodes_same. Qed.
Lemma inodes_set_inode_other s i d j : i <> j -> inodes (set_inode s i d) j = inodes s j.
Proof. intros H. cbn [inodes set_inode]. now apply upd_inodes_other. Qed.
Lemma is_dir_set_other s p v q : p <> q -> is_dir (set_name s p v) q = is_dir s q.
Proof. intros H. unfold is_dir. now rewrite names_set_other. Qed.

Ltac nsimp :=
  repeat first
    [ rewrite names_set_same
    | rewrite names_set_other by (auto; congruence)
    | rewrite is_dir_set_other by (auto; congruence)
    | rewrite inodes_set_name
    | rewrite names_set_inode ].
Tactic Notation "nsimp" "in" hyp(H) :=
  repeat first
    [ rewrite names_set_same in H
    | rewrite names_set_other in H by (auto; congruence)
    | rewrite is_dir_set_other in H by (auto; congruence)
    | rewrite inodes_set_name in H
    | rewrite names_set_inode in H ].

(* ---------------------------------------------------------------- deterministic natural successes *)
Lemma rename_ok a b s n : clean a -> clean b -> names s a = Some n -> n <> NDir -> names s b = None ->
  is_dir s (parent b) = true -> do_call None (Rename a b) s = (ROk, set_name (set_name s a None) b (Some n)).
Proof.
  intros Ha Hb Ea Hn Eb Hd. cbn [do_call]. unfold nat_call. cbn [ncall]. rewrite !norm_of_clean by auto. cbn [nat_ncall].
  rewrite Ea, Eb, Hd. destruct n; try congruence; reflexivity.
Qed.
Lemma link_ok a b s n : clean a -> clean b -> names s a = Some n -> n <> NDir -> names s b = None ->
  is_dir s (parent b) = true -> do_call None (Link a b) s = (ROk, set_name s b (Some n)).
Proof.
  intros Ha Hb Ea Hn Eb Hd. cbn [do_call]. unfold nat_call. cbn [ncall]. rewrite !norm_of_clean by auto. cbn [nat_ncall].
  rewrite Ea, Eb, Hd. destruct n; try congruence; reflexivity.
Qed.
Lemma symlink_ok t l s : clean t -> clean l -> names s l = None -> is_dir s (parent l) = true ->
  do_call None (Symlink t l) s = (ROk, set_name s l (Some (NLink t))).
Proof.
  intros Ht Hl El Hd. cbn [do_call]. unfold nat_call. cbn [ncall]. rewrite !norm_of_clean by auto. cbn [nat_ncall].
  now rewrite El, Hd.
Qed.
Lemma unlink_ok a s n : clean a -> names s a = Some n -> n <> NDir -> do_call None (Unlink a) s = (ROk, set_name s a None).
Proof.
  intros Ha Ea Hn. cbn [do_call]. unfold nat_call. cbn [ncall]. rewrite !norm_of_clean by auto. cbn [nat_ncall].
  rewrite Ea. destruct n; try congruence; reflexivity.
Qed.
Lemma openw_ok a s i : clean a -> names s a = Some (NFile i) -> do_call None (OpenW a) s = (ROk, s).
Proof.
  intros Ha Ea. cbn [do_call]. unfold nat_call. cbn [ncall]. rewrite !norm_of_clean by auto. cbn [nat_ncall].
  now rewrite (follow_file _ _ _ Ea).
Qed.
Lemma lockw_file a s i : clean a -> names s a = Some (NFile i) ->
  do_call None (LockW a) s = (if locks s i then RErr EAGAIN else ROk, s).
Proof.
  intros Ha Ea. cbn [do_call]. unfold nat_call. cbn [ncall]. rewrite !norm_of_clean by auto. cbn [nat_ncall].
  rewrite (follow_file _ _ _ Ea). destruct (locks s i); reflexivity.
Qed.
Lemma unlockw_ok a s : do_call None (UnlockW a) s = (ROk, s).
Proof. reflexivity. Qed.

Lemma mids_nocopy c s : (forall a b now, c <> CopyTo a b now) -> mids c s = [].
Proof. intros H. unfold mids. destruct c; cbn [ncall]; try reflexivity. exfalso; eapply H; reflexivity. Qed.

(* one step of a call that is not a copy: the obligations of [safe] with the state change made explicit *)
Lemma safe_Do_nocopy {R} (P : fs -> Prop) (Q : fs -> R -> nat -> nat -> Prop) c k s w nf :
  (forall a b now, c <> CopyTo a b now) -> is_query c = false ->
  P s ->
  (forall ft, safe P Q (k (RErr (ferr ft))) s w (S nf)) ->
  safe P Q (k (fst (do_call None c s))) (snd (do_call None c s)) w nf ->
  safe P Q (Do c k) s w nf.
Proof.
  intros Hc Hq HP Hf Hn. cbn [safe]. split; [exact HP|]. split.
  - rewrite mids_nocopy by exact Hc. intros m [].
  - intros [ft|] _.
    + rewrite do_call_fault by exact Hq. cbn [fst snd].
      rewrite fail_nstate_not_copy. * apply Hf. * intros a b now. destruct c; cbn [ncall]; congruence.
    + exact Hn.
Qed.
Lemma safe_Do_query {R} (P : fs -> Prop) (Q : fs -> R -> nat -> nat -> Prop) c k s w nf :
  is_query c = true -> P s ->
  (forall r, safe P Q (k r) s w nf) ->
  safe P Q (Do c k) s w nf.
Proof.
  intros Hq HP Hn. cbn [safe]. split; [exact HP|]. split.
  - rewrite mids_nocopy. + intros m []. + intros a b now. destruct c; cbn [is_query] in Hq; congruence.
  - intros f Hf. rewrite (Hf Hq). cbn [do_call]. unfold nat_call.
    assert (E : snd (nat_ncall (ncall c) s) = s).
    { destruct c; cbn [is_query] in Hq; try discriminate; cbn [ncall nat_ncall]; reflexivity. }
    rewrite E. apply Hn.
Qed.

(* ---------------------------------------------------------------- maybe_lock *)
(* the prelude never changes the state; it either runs k (any number of faults so far) or aborts *)
Lemma safe_prelude (P : fs -> Prop) (Q : fs -> io -> nat -> nat -> Prop) sl a k s w nf i :
  clean a -> names s a = Some (NFile i) -> P s ->
  (forall nf', Q s IErr w nf') ->
  (forall nf', (locks s i = false \/ sl = false \/ 1 <= nf')%nat -> safe P Q k s w nf') ->
  safe P Q (lock_prelude sl a k) s w nf.
Proof.
  intros Ha Ea HP HQ Hk. unfold lock_prelude. destruct sl; [|apply Hk; auto].
  apply safe_Do_nocopy; try (intros; discriminate); try reflexivity; auto.
  - intros ft. destruct (unsupported (ferr ft)); [apply Hk; right; right; lia|cbn [safe]; auto].
  - rewrite (openw_ok _ _ _ Ha Ea). cbn [fst snd].
    apply safe_Do_nocopy; try (intros; discriminate); try reflexivity; auto.
    + intros ft. destruct (unsupported (ferr ft)); [apply Hk; right; right; lia|cbn [safe]; auto].
    + rewrite (lockw_file _ _ _ Ha Ea). destruct (locks s i) eqn:L; cbn [fst snd unsupported].
      * cbn [safe]; auto.
      * apply safe_Do_nocopy; try (intros; discriminate); try reflexivity; auto.
Qed.

(* ---------------------------------------------------------------- the C05 obligations as P / Q *)
Definition Pc (c : fcmd) (s0 : fs) : fs -> Prop := fun st => crash_inv c s0 st /\ retained_untouched c s0 st.
Definition Qc (c : fcmd) (s0 : fs) : fs -> io -> nat -> nat -> Prop := fun st r w nf =>
  (r = IOk -> replaced c s0 st /\ match cmd_tmp c with Some tmp => names st tmp = None \/ (1 <= w)%nat | None => True end) /\
  (r = IErr -> restored c s0 st \/ ((2 <= nf)%nat /\ (1 <= w)%nat /\ err_double c s0 st)).

Lemma same_file_refl s p : same_file s s p p.
Proof. split; auto. Qed.

Lemma clean_norm p : norm p = p -> clean p.
Proof. apply clean_iff. Qed.

(* ---------------------------------------------------------------- Remove *)
Lemma remove_safe sl a s : pre (FRemove a) s -> safe (Pc (FRemove a) s) (Qc (FRemove a) s) (prog_of sl (FRemove a)) s 0 0.
Proof.
  intros (i0 & d0 & Ea & Ed & Hn & _). cbn [victim] in *. pose proof (clean_norm _ Hn) as Ca.
  assert (P0 : Pc (FRemove a) s s).
  { split; [left; apply same_file_refl|exact I]. }
  assert (Q0 : forall w nf', Qc (FRemove a) s s IErr w nf').
  { intros w nf'. split; [discriminate|]. intros _. left. apply same_file_refl. }
  cbn [prog_of]. eapply safe_prelude; eauto.
  intros nf' _. apply safe_Do_nocopy; try (intros; discriminate); try reflexivity; auto.
  - intros ft. cbn [ok_of safe]. auto.
  - rewrite (unlink_ok _ _ _ Ca Ea) by discriminate. cbn [fst snd ok_of safe].
    assert (R : replaced (FRemove a) s (set_name s a None)).
    { exists (ibytes d0). split; [eapply file_bytes_file; eauto|]. now nsimp. }
    split.
    + split; [right; right; exact R|exact I].
    + split; [intros _; split; [exact R|exact I]|discriminate].
Qed.

(* ---------------------------------------------------------------- SoftLink / HardLink *)
Section SafeRemove.
  Variables (s : fs) (t a tmp : path) (i0 : N) (d0 : inode).
  Hypothesis Ea : names s a = Some (NFile i0).
  Hypothesis Ed : inodes s i0 = Some d0.
  Hypothesis Hna : norm a = a.
  Hypothesis Hl : link_pre s t a tmp d0.

  Let Ca : clean a := clean_norm _ Hna.
  Lemma sr_facts : clean t /\ clean tmp /\ names s tmp = None /\ t <> a /\ t <> tmp /\ a <> tmp /\
                   parent a <> a /\ parent a <> tmp /\ parent tmp = parent a /\ is_dir s (parent a) = true.
  Proof. destruct Hl as (H1 & H2 & H3 & H4 & H5 & H6 & H7 & H8 & H9 & H10 & _). repeat split; auto using clean_norm. Qed.

  (* the four states *)
  Let s1 := set_name (set_name s a None) tmp (Some (NFile i0)).           (* original parked at the temp *)
  Let s2 := set_name (set_name s1 tmp None) a (Some (NFile i0)).          (* rolled back *)

  Lemma s1_names_t : names s1 t = names s t.
  Proof. destruct sr_facts as (_ & _ & _ & ? & ? & _). unfold s1. now nsimp. Qed.
  Lemma s1_dir : is_dir s1 (parent a) = true.
  Proof. destruct sr_facts as (_ & _ & _ & _ & _ & _ & ? & ? & _ & ?). unfold s1. now nsimp. Qed.
  Lemma s1_a : names s1 a = None.
  Proof. destruct sr_facts as (_ & _ & _ & _ & _ & ? & _). unfold s1. now nsimp. Qed.
  Lemma s1_tmp : names s1 tmp = Some (NFile i0).
  Proof. unfold s1. now nsimp. Qed.

  Lemma same_file_t st : names st t = names s t -> inodes st = inodes s -> same_file s st t t.
  Proof. intros H1 H2. split; auto. intros. now rewrite H2. Qed.

  Section ForCmd.
    Variable c : fcmd.
    Variable fcall : call.
    Hypothesis Hv : victim c = a.
    Hypothesis Htmp : cmd_tmp c = Some tmp.
    Hypothesis Hret : cmd_retained c = Some t.
    Hypothesis Hrestored : forall st, restored c s st <-> (same_file s st a a /\ names st tmp = None).
    Hypothesis Hdouble : forall st, err_double c s st <-> same_file s st a tmp.
    Hypothesis Hnc : forall x y now, fcall <> CopyTo x y now.
    Hypothesis Hnq : is_query fcall = false.
    (* the link-creating call succeeds naturally in s1 and yields a state s3 in which the path is replaced *)
    Variable s3 : fs.
    Hypothesis Hf_ok : do_call None fcall s1 = (ROk, s3).
    Hypothesis Hs3_other : forall q, q <> a -> names s3 q = names s1 q.
    Hypothesis Hs3_inodes : inodes s3 = inodes s.
    Hypothesis Hs3_repl : forall st, names st a = names s3 a -> names st t = names s t -> inodes st = inodes s -> replaced c s st.

    Lemma P_s : Pc c s s.
    Proof. split; [left; unfold orig_at_path; rewrite Hv; apply same_file_refl|]. unfold retained_untouched. rewrite Hret. apply same_file_refl. Qed.
    Lemma P_s1 : Pc c s s1.
    Proof.
      split.
      - right; left. unfold orig_at_temp. rewrite Htmp, Hv. split; [rewrite s1_tmp; auto|]. intros; reflexivity.
      - unfold retained_untouched. rewrite Hret. apply same_file_t; [apply s1_names_t|reflexivity].
    Qed.
    Lemma P_s2 : Pc c s s2.
    Proof.
      destruct sr_facts as (_ & _ & _ & ? & ? & ? & _).
      split.
      - left. unfold orig_at_path. rewrite Hv. split; [unfold s2; nsimp; auto|intros; reflexivity].
      - unfold retained_untouched. rewrite Hret. apply same_file_t; [|reflexivity]. unfold s2. nsimp. apply s1_names_t.
    Qed.
    Lemma P_s3 st : names st a = names s3 a -> names st t = names s t -> inodes st = inodes s -> Pc c s st.
    Proof.
      intros H1 H2 H3. split; [right; right; apply Hs3_repl; auto|].
      unfold retained_untouched. rewrite Hret. apply same_file_t; auto.
    Qed.

    Lemma safe_remove_safe w nf : safe (Pc c s) (Qc c s) (safe_remove a tmp fcall) s w nf.
    Proof.
      destruct sr_facts as (Ct & Ctmp & Etmp & Hta & Httmp & Hatmp & Hpa & Hptmp & Hpp & Hdir).
      unfold safe_remove.
      apply safe_Do_nocopy; try (intros; discriminate); try reflexivity; [apply P_s| |].
      { (* the first rename fails *)
        intros ft. cbn [safe]. split; [apply P_s|]. split; [discriminate|]. intros _. left. apply Hrestored.
        split; [apply same_file_refl|exact Etmp]. }
      rewrite (rename_ok a tmp s (NFile i0)) by (auto; try discriminate; rewrite Hpp; auto).
      cbn [fst snd]. fold s1.
      apply safe_Do_nocopy; auto; [apply P_s1| |].
      { (* creating the link fails: roll back *)
        intros ft. cbn beta iota.
        apply safe_Do_nocopy; try (intros; discriminate); try reflexivity; [apply P_s1| |].
        - (* roll-back fails too *)
          intros ft2. cbn [safe]. split; [apply P_s1|]. split; [discriminate|]. intros _. right.
          split; [lia|]. split; [lia|]. apply Hdouble. split; [rewrite s1_tmp; auto|intros; reflexivity].
        - rewrite (rename_ok tmp a s1 (NFile i0)) by (auto using s1_tmp, s1_a, s1_dir; discriminate).
          cbn [fst snd safe]. fold s2. split; [apply P_s2|]. split; [discriminate|]. intros _. left. apply Hrestored.
          split; [split; [unfold s2; nsimp; auto|intros; reflexivity]|]. unfold s2. now nsimp. }
      rewrite Hf_ok. cbn [fst snd].
      assert (E3tmp : names s3 tmp = Some (NFile i0)) by (rewrite Hs3_other by congruence; apply s1_tmp).
      assert (E3t : names s3 t = names s t) by (rewrite Hs3_other by congruence; apply s1_names_t).
      apply safe_Do_nocopy; try (intros; discriminate); try reflexivity; [apply P_s3; auto| |].
      - (* removing the temp fails: warning, still Ok *)
        intros ft. cbn [safe]. split; [apply P_s3; auto|]. split; [|discriminate]. intros _.
        split; [apply Hs3_repl; auto|]. rewrite Htmp. right. lia.
      - rewrite (unlink_ok tmp s3 (NFile i0)) by (auto; discriminate). cbn [fst snd safe].
        assert (H4a : names (set_name s3 tmp None) a = names s3 a) by now nsimp.
        assert (H4t : names (set_name s3 tmp None) t = names s t) by (nsimp; exact E3t).
        split; [apply P_s3; auto|]. split; [|discriminate]. intros _.
        split; [apply Hs3_repl; auto|]. rewrite Htmp. left. now nsimp.
    Qed.
  End ForCmd.
End SafeRemove.

Lemma softlink_safe sl t a tmp s : pre (FSoftLink t a tmp) s ->
  safe (Pc (FSoftLink t a tmp) s) (Qc (FSoftLink t a tmp) s) (prog_of sl (FSoftLink t a tmp)) s 0 0.
Proof.
  intros (i0 & d0 & Ea & Ed & Hn & Hl). cbn [victim] in *.
  pose proof (sr_facts s t a tmp d0 Hl) as (Ct & Ctmp & Etmp & Hta & Httmp & Hatmp & Hpa & Hptmp & Hpp & Hdir).
  pose proof (clean_norm _ Hn) as Ca.
  pose proof Hl as Hl'.
  destruct Hl as (_ & _ & _ & _ & _ & _ & _ & _ & _ & _ & it & dt & Et & Edt & Eb).
  set (c := FSoftLink t a tmp).
  set (s1 := set_name (set_name s a None) tmp (Some (NFile i0))).
  assert (Hgen : forall w nf, safe (Pc c s) (Qc c s) (safe_remove a tmp (Symlink t a)) s w nf).
  { intros w nf.
    eapply (safe_remove_safe s t a tmp i0 d0 Ea Hn Hl') with (s3 := set_name s1 a (Some (NLink t)));
      try reflexivity; try (intros; discriminate).
    - apply symlink_ok; auto.
      + eapply s1_a; eauto.
      + eapply s1_dir; eauto.
    - intros q Hq. now nsimp.
    - intros st H1 H2 H3. exists (ibytes d0). split; [eapply file_bytes_file; eauto|].
      rewrite names_set_same in H1. split; [exact H1|].
      unfold file_bytes. rewrite (follow_link st a t it) by (auto; congruence). rewrite H3, Edt. cbn [option_map]. now rewrite Eb. }
  assert (P0 : Pc c s s).
  { split; [left; apply same_file_refl|]. apply same_file_refl. }
  cbn [prog_of]. eapply safe_prelude; eauto.
  intros nf'. split; [discriminate|]. intros _. left. split; [apply same_file_refl|exact Etmp].
Qed.

Lemma hardlink_safe sl t a tmp s : pre (FHardLink t a tmp) s ->
  safe (Pc (FHardLink t a tmp) s) (Qc (FHardLink t a tmp) s) (prog_of sl (FHardLink t a tmp)) s 0 0.
Proof.
  intros (i0 & d0 & Ea & Ed & Hn & Hl). cbn [victim] in *.
  pose proof (sr_facts s t a tmp d0 Hl) as (Ct & Ctmp & Etmp & Hta & Httmp & Hatmp & Hpa & Hptmp & Hpp & Hdir).
  pose proof (clean_norm _ Hn) as Ca.
  pose proof Hl as Hl'.
  destruct Hl as (_ & _ & _ & _ & _ & _ & _ & _ & _ & _ & it & dt & Et & Edt & Eb).
  set (c := FHardLink t a tmp).
  set (s1 := set_name (set_name s a None) tmp (Some (NFile i0))).
  assert (Hgen : forall w nf, safe (Pc c s) (Qc c s) (safe_remove a tmp (Link t a)) s w nf).
  { intros w nf.
    eapply (safe_remove_safe s t a tmp i0 d0 Ea Hn Hl') with (s3 := set_name s1 a (Some (NFile it)));
      try reflexivity; try (intros; discriminate).
    - apply link_ok; auto; try discriminate.
      + rewrite <- Et. eapply s1_names_t; eauto.
      + eapply s1_a; eauto.
      + eapply s1_dir; eauto.
    - intros q Hq. now nsimp.
    - intros st H1 H2 H3. exists (ibytes d0). split; [eapply file_bytes_file; eauto|].
      rewrite names_set_same in H1. split; [congruence|].
      rewrite (file_bytes_file st a it dt) by (auto; congruence). now rewrite Eb. }
  assert (P0 : Pc c s s).
  { split; [left; apply same_file_refl|]. apply same_file_refl. }
  cbn [prog_of]. eapply safe_prelude; eauto.
  intros nf'. split; [discriminate|]. intros _. left. split; [apply same_file_refl|exact Etmp].
Qed.
