(* Props_C11.v — property C11: the dry-run script is exactly what a real run does.
   Statements only; every proof is `exact <lemma of ScriptProofs* / EffectsWitness>`.

   Model (coq/ScriptModel.v): render = FsCommand::to_shell_str (Unix), with Path::quote = engine T's quote on the
   path bytes and the 24 random characters of a temp name as the parameter sfx; log_script = channel + priority
   queue keyed by Reverse(group index) + next_group_index; run_dedupe = main.rs lines 228-242; bash = engine T's
   bash_words (theorem C17_bash), coreutils: rm = unlink, mv = rename, ln = link without following, ln -s = symlink. *)
From Coq Require Import Permutation.
From FV Require Import Base SortLib TextModel.
From FV Require Import DedupeModel DedupeProofs.
From FV Require Import FsModel AtomicModel AtomicProofs AtomicProofs2 AtomicProofs3 AtomicProofs4.
From FV Require Import EffectsModel EffectsProofs EffectsProofs2 EffectsProofs3 EffectsProofs4 EffectsProofs5 EffectsWitness
  ScriptModel ScriptProofs ScriptProofs2 ScriptProofs3 ScriptProofs4.
Open Scope N_scope.

(* Both branches of run_dedupe consume ONE script (the commands dedupe() generates from the report and the
   current state): the dry run prints it, the real run executes it - for every schedule of the parallel script
   generation (arrival) and of the execution (order). *)
Theorem C11_one_script : forall ax e sl op c sm r s arrival order,
  exists script, script = script_items ax op c sm s r /\
    run_dedupe true ax e sl op c sm r s arrival order = DryRun (log_script (sfx e) (arrival (indexed_from 0 script))) /\
    run_dedupe false ax e sl op c sm r s arrival order =
      (let cs := order (concat script) in
       RealRun (whole_run sl (map (fcmd_of e) cs) s) (reclaimed cs (sresults (whole_run sl (map (fcmd_of e) cs) s)))).
Proof. exact c11_one_script. Qed.
Print Assumptions C11_one_script.

(* Remove / HardLink / SoftLink, for EVERY well-formed path (any bytes but '/' and NUL in a component): bash reads
   every printed line back as exactly the intended words (C17_bash), and running the lines with coreutils
   semantics ends in the same state as the real execution of the command (when the command can start: cmd_ok). *)
Theorem C11_same_commands : forall e sl now s x,
  printable x -> cmd_paths_wf (sfx e) x -> cmd_ok sl s (fcmd_of e x) ->
  map bash_words (render (sfx e) x) = map Some (shell_words (sfx e) x) /\
  sh_run now (render (sfx e) x) s = Some (fst (exec sl (fcmd_of e x) s)).
Proof. exact c11_same_effect. Qed.
Print Assumptions C11_same_commands.

(* log_script prints the groups in index (= report) order for EVERY arrival permutation. *)
Theorem C11_order : forall sfx (script : list (list cmd)) arrivals,
  Permutation arrivals (indexed_from 0 script) ->
  lines (log_script sfx arrivals) = flat_map (render sfx) (concat script).
Proof. exact c11_order. Qed.
Print Assumptions C11_order.

(* the printer itself: any payload type, any arrival order *)
Theorem C11_printer_order : forall (A : Type) (items : list A) arrivals,
  Permutation arrivals (indexed_from 0 items) -> log_loop arrivals [] 0 [] = items.
Proof. exact (@log_loop_in_order). Qed.
Print Assumptions C11_printer_order.

(* Fault-free (remove / link / link --soft / dedupe): the dry run counts the commands the real run processes, and
   the bytes agree, for every arrival order and every execution order. *)
Theorem C11_summary : forall ax e sl op c sm s r, run_ok ax e sl op c sm s r ->
  forall arrivals cs', Permutation arrivals (indexed_from 0 (script_items ax op c sm s r)) ->
    Permutation (concat (script_items ax op c sm s r)) cs' ->
    let lo := log_script (sfx e) arrivals in
    let ro := whole_run sl (map (fcmd_of e) cs') s in
    lcount lo = processed_count ro /\ lbytes lo = reclaimed cs' (sresults ro).
Proof. exact summary_agrees. Qed.
Print Assumptions C11_summary.

(* N6 (known finding, not fixed): a symlink victim whose target is a victim too, lock probe on, script order:
   the dry run counts 2 commands, the real run processes 1 (and leaves the dangling link). *)
Theorem C11_N6_witness :
  lcount (log_script (sfx w_env) (indexed_from 0 (script_items w_ax OpRemove (w_cfg []) w_sm n6_s n6_r))) = 2%nat /\
  processed_count (whole_run true (map (fcmd_of w_env) (run_cmds w_ax OpRemove (w_cfg []) w_sm n6_s n6_r)) n6_s) = 1%nat.
Proof. exact n6_dry_vs_real. Qed.
Print Assumptions C11_N6_witness.

(* ------------------------------------------------------------------ non-vacuity / sanity *)
Example C11_tilde_is_quoted :
  render (fun _ => [116]) (Remove (mkMeta tilde_path 1 1 1 true None None None (0%Z, 0%Z)))
    = [[114; 109; 32; 39; 47; 120; 47; 97; 61; 126; 39]] /\
  bash_words [114; 109; 32; 39; 47; 120; 47; 97; 61; 126; 39] = Some [W_rm; path_bytes tilde_path].
Proof. exact c11_tilde. Qed.
Example C11_same_commands_premises_inhabited : forall sl,
  printable (ex_cmd OpHardLink) /\ cmd_paths_wf (sfx w_env) (ex_cmd OpHardLink) /\ cmd_ok sl ex_s (fcmd_of w_env (ex_cmd OpHardLink)).
Proof. exact c11_ex_hyps. Qed.
Example C11_premises_inhabited : forall sl op, is_move op = false -> run_ok w_ax w_env sl op (w_cfg []) w_sm ex_s ex_r.
Proof. exact ex_run_ok. Qed.
