(* GlobModel.v — engine P: executable model of fclones' pattern machinery (NO proofs here).

   Modelled code (as it is NOW in /repo/fclones/src):
     pattern.rs   glob_to_regex (nom `alt` order, three scopes), regex_with (strip ^/$, anchor,
                  `prefix_regex.unwrap()`), literal, Add, matches / matches_partially / matches_prefix
     regex.rs     Regex::new, get_fixed_prefix (returns (prefix, max_suffix_len)), is_partial_match
     selector.rs  abs_pattern, is_absolute, append_sep, matches_full_path, matches_dir
     path.rs      Path::from (std components), to_string_lossy (PathBuf::push), join, file_name
   Characters are Unicode scalar values (N); strings are lists of them.
   The `regex` crate is modelled by `rmatch` (GlobProofs.v) / the derivative matcher `re_match`
   below on the emitted fragment; that is checked differentially on every run. *)
From Coq Require Import List NArith Bool Arith.
From FV Require Import Base.
Import ListNotations.
Open Scope N_scope.

Definition str := list N.

Inductive outcome (A : Type) :=
| Ok (a : A)      (* Pattern built *)
| Err             (* Err(PatternError): the regex crate rejects the emitted text *)
| Panic           (* the implementation panics (not produced by the current model; kept for the driver protocol) *)
| Unsup           (* character class outside the modelled fragment: no prediction *)
| Fuel.           (* parser fuel exhausted (never happens with the fuel of parse_glob; explicit so
                     that totalisation cannot make a theorem true for the wrong reason) *)
Arguments Ok {A}. Arguments Err {A}. Arguments Panic {A}. Arguments Unsup {A}. Arguments Fuel {A}.

(* ------------------------------------------------------------------------------------------ *)
(* characters, case folding                                                                     *)

Definition between (lo hi c : N) : bool := (lo <=? c) && (c <=? hi).

(* char::to_lowercase on the modelled 1:1 domain (ASCII, Latin-1, Latin Extended-A); identity
   elsewhere.  NOT modelled: U+0130 (to_lowercase gives two chars), U+017F (regex folds it with
   s/S), and every code point >= U+0180 (see ci_modelled). *)
Definition lower (c : N) : N :=
  if between 65 90 c then c + 32
  else if between 192 222 c && negb (c =? 215) then c + 32
  else if between 256 311 c && N.even c && negb (c =? 304) then c + 1
  else if between 313 328 c && N.odd c then c + 1
  else if between 330 375 c && N.even c then c + 1
  else if c =? 376 then 255
  else if between 377 382 c && N.odd c then c + 1
  else c.

Definition upper (c : N) : N :=
  if between 97 122 c then c - 32
  else if between 224 254 c && negb (c =? 247) then c - 32
  else if c =? 255 then 376
  else if between 257 311 c && N.odd c && negb (c =? 305) then c - 1
  else if between 314 328 c && N.even c then c - 1
  else if between 331 375 c && N.odd c then c - 1
  else if between 378 382 c && N.even c then c - 1
  else c.

Definition ci_modelled (c : N) : bool := (c <=? 382) && negb (c =? 304).

(* a pattern character x matches a subject character c *)
Definition ceq (ci : bool) (x c : N) : bool := if ci then lower x =? lower c else x =? c.

Definition alnum (c : N) : bool := between 48 57 c || between 65 90 c || between 97 122 c.

(* regex_syntax::is_meta_character (regex-syntax 0.8):  \ . + * ? ( ) | [ ] { } ^ $ # & - ~ *)
Definition meta_chars : list N := [92; 46; 43; 42; 63; 40; 41; 124; 91; 93; 123; 125; 94; 36; 35; 38; 45; 126].
Definition is_meta (c : N) : bool := existsb (N.eqb c) meta_chars.
Definition escape1 (c : N) : str := if is_meta c then [92; c] else [c].
Definition escape (s : str) : str := flat_map escape1 s.

(* ------------------------------------------------------------------------------------------ *)
(* glob AST and the nom parser                                                                  *)

Inductive extkind := EOpt | EMany | EPlus | EOnce | ENever.

Inductive gl :=
| GLit (c : N)                         (* escaped character or character outside the syntax *)
| GOne                                 (* ?   *)
| GStar                                (* *   *)
| GDStar                               (* **  *)
| GSep                                 (* /   *)
| GClass (neg : bool) (body : str)     (* [body] / [!body], body verbatim *)
| GAlt (alts : list (list gl))         (* {a,b}  *)
| GExt (k : extkind) (alts : list (list gl)).   (* ?( ) *( ) +( ) @( ) !( ) *)

Inductive scope := STop | SCurly | SRound.

Inductive pres (A : Type) := POk (a : A) (rest : str) | PFail | PFuel.
Arguments POk {A}. Arguments PFail {A}. Arguments PFuel {A}.

(* p_any_char: anychar / none_of("{,}") / none_of("(|)") *)
Definition any_ok (sc : scope) (c : N) : bool :=
  match sc with
  | STop => true
  | SCurly => negb ((c =? 123) || (c =? 44) || (c =? 125))
  | SRound => negb ((c =? 40) || (c =? 124) || (c =? 41))
  end.

(* many0(none_of("]")) followed by tag("]") *)
Fixpoint take_class (s : str) : option (str * str) :=
  match s with
  | [] => None
  | c :: r => if c =? 93 then Some ([], r)
              else match take_class r with Some (b, r') => Some (c :: b, r') | None => None end
  end.

Definition ext_of (c : N) : option extkind :=
  if c =? 63 then Some EOpt else if c =? 42 then Some EMany else if c =? 43 then Some EPlus
  else if c =? 64 then Some EOnce else if c =? 33 then Some ENever else None.

Fixpoint p_token (fuel : nat) (sc : scope) (s : str) {struct fuel} : pres gl :=
  match fuel with
  | O => PFuel
  | S f =>
    match s with
    | [] => PFail
    | c :: r =>
      let any := if any_ok sc c then POk (GLit c) r else PFail in
      (* the alternatives after the ext-globs, for a first character that may start one *)
      let after_ext :=
        if c =? 42 then match r with
                        | d :: r' => if d =? 42 then POk GDStar r' else POk GStar r
                        | [] => POk GStar r
                        end
        else if c =? 63 then POk GOne r
        else any in
      if c =? 92 then                                        (* p_escaped *)
        match r with e :: r' => POk (GLit e) r' | [] => any end
      else if c =? 123 then                                  (* p_alt *)
        match p_alts f SCurly 44 r with
        | PFuel => PFuel
        | POk alts (d :: r2) => if d =? 125 then POk (GAlt alts) r2 else any
        | _ => any
        end
      else match ext_of c with
      | Some k =>                                            (* p_ext_* *)
        match r with
        | d :: r0 =>
          if d =? 40 then
            match p_alts f SRound 124 r0 with
            | PFuel => PFuel
            | POk alts (e :: r2) => if e =? 41 then POk (GExt k alts) r2 else after_ext
            | _ => after_ext
            end
          else after_ext
        | [] => after_ext
        end
      | None =>
        if c =? 91 then                                      (* [!..] then [..] *)
          let plain := match take_class r with
                       | Some (b, r2) => POk (GClass false b) r2
                       | None => any
                       end in
          match r with
          | d :: r1 => if d =? 33 then match take_class r1 with
                                       | Some (b, r2) => POk (GClass true b) r2
                                       | None => plain
                                       end
                       else plain
          | [] => plain
          end
        else if c =? 47 then POk GSep r                      (* p_separator *)
        else any                                             (* p_any_char *)
      end
    end
  end
(* many0(p_token) *)
with p_seq (fuel : nat) (sc : scope) (s : str) {struct fuel} : pres (list gl) :=
  match fuel with
  | O => PFuel
  | S f =>
    match p_token f sc s with
    | PFuel => PFuel
    | PFail => POk [] s
    | POk g r => match p_seq f sc r with
                 | POk gs r' => POk (g :: gs) r'
                 | PFail => PFail
                 | PFuel => PFuel
                 end
    end
  end
(* separated_list0(tag(sep), glob_to_regex(scope)) : the first element always parses *)
with p_alts (fuel : nat) (sc : scope) (sep : N) (s : str) {struct fuel} : pres (list (list gl)) :=
  match fuel with
  | O => PFuel
  | S f =>
    match p_seq f sc s with
    | POk a r => match p_alts_rest f sc sep r with
                 | POk l r' => POk (a :: l) r'
                 | PFail => PFail
                 | PFuel => PFuel
                 end
    | PFail => PFail
    | PFuel => PFuel
    end
  end
with p_alts_rest (fuel : nat) (sc : scope) (sep : N) (s : str) {struct fuel} : pres (list (list gl)) :=
  match fuel with
  | O => PFuel
  | S f =>
    match s with
    | c :: r =>
      if c =? sep then
        match p_seq f sc r with
        | POk a r1 => match p_alts_rest f sc sep r1 with
                      | POk l r2 => POk (a :: l) r2
                      | PFail => PFail
                      | PFuel => PFuel
                      end
        | PFail => PFail
        | PFuel => PFuel
        end
      else POk [] s
    | [] => POk [] s
    end
  end.

Definition parse_fuel (s : str) : nat := 3 * length s + 4.

Definition parse_glob (s : str) : outcome (list gl) :=
  match p_seq (parse_fuel s) STop s with
  | POk g [] => Ok g
  | POk _ (_ :: _) => Err          (* "Unexpected .. at end of input": unreachable at top level *)
  | PFail => Err
  | PFuel => Fuel
  end.

(* ------------------------------------------------------------------------------------------ *)
(* regex AST, the emitted text                                                                  *)

Inductive re :=
| REmp                                  (* matches nothing (internal, derivatives only) *)
| REps
| RChr (c : N)                          (* escape(c) *)
| RNoSep                                (* [^/]      *)
| RAnyStar                              (* (?s:.* )  *)
| RSet (neg : bool) (body : str)        (* [body] / [^body] *)
| RSeq (a b : re)
| RAlt (a b : re)                       (* a|b *)
| RStar (r : re) | RPlus (r : re) | ROpt (r : re)
| RGroup (r : re)                       (* ( r ) *)
| RLookNot (r : re).                    (* (?! r ) : rejected by the regex crate *)

Fixpoint show_re (r : re) : str :=
  match r with
  | REmp => []
  | REps => []
  | RChr c => escape1 c
  | RNoSep => [91; 94; 47; 93]
  | RAnyStar => [40; 63; 115; 58; 46; 42; 41]
  | RSet neg b => 91 :: (if neg then [94] else []) ++ b ++ [93]
  | RSeq a b => show_re a ++ show_re b
  | RAlt a b => show_re a ++ 124 :: show_re b
  | RStar r => show_re r ++ [42]
  | RPlus r => show_re r ++ [43]
  | ROpt r => show_re r ++ [63]
  | RGroup r => 40 :: show_re r ++ [41]
  | RLookNot r => 40 :: 63 :: 33 :: show_re r ++ [41]
  end.

Definition seq_re (f : gl -> re) : list gl -> re :=
  fix seq (l : list gl) : re := match l with [] => REps | x :: t => RSeq (f x) (seq t) end.

Definition alts_re (f : list gl -> re) : list (list gl) -> re :=
  fix alts (l : list (list gl)) : re :=
    match l with
    | [] => REps
    | a :: r => match r with [] => f a | _ :: _ => RAlt (f a) (alts r) end
    end.

Fixpoint to_re1 (g : gl) : re :=
  match g with
  | GLit c => RChr c
  | GOne => RNoSep
  | GStar => RStar RNoSep
  | GDStar => RAnyStar
  | GSep => RChr 47
  | GClass neg b => RSet neg b
  | GAlt l => RGroup (alts_re (seq_re to_re1) l)
  | GExt k l =>
    let r := alts_re (seq_re to_re1) l in
    match k with
    | EOpt => ROpt (RGroup r)
    | EMany => RStar (RGroup r)
    | EPlus => RPlus (RGroup r)
    | EOnce => RGroup r
    | ENever => RLookNot r
    end
  end.

Definition to_re : list gl -> re := seq_re to_re1.
Definition to_re_alts : list (list gl) -> re := alts_re to_re.

(* ------------------------------------------------------------------------------------------ *)
(* character classes: the modelled fragment of the regex crate's class syntax                   *)

(* characters that are (or may be) special inside a class:  \ ^ [ ] & ~ -  *)
Definition cls_plain (c : N) : bool :=
  negb ((c =? 92) || (c =? 94) || (c =? 91) || (c =? 93) || (c =? 38) || (c =? 126) || (c =? 45)).

Fixpoint class_items (s : str) : option (list (N * N)) :=
  match s with
  | [] => Some []
  | a :: r =>
    if cls_plain a then
      match r with
      | d :: b :: r' =>
        if d =? 45 then
          if cls_plain b then match class_items r' with Some l => Some ((a, b) :: l) | None => None end
          else None
        else match class_items r with Some l => Some ((a, a) :: l) | None => None end
      | _ => match class_items r with Some l => Some ((a, a) :: l) | None => None end
      end
    else None
  end.

Inductive cstatus := CsOk | CsErr | CsUnsup.

Definition class_status (b : str) : cstatus :=
  match class_items b with
  | None => CsUnsup
  | Some [] => CsErr                                               (* `[]` / `[^]`: unclosed class *)
  | Some l => if forallb (fun p => fst p <=? snd p) l then CsOk else CsErr   (* invalid range *)
  end.

Definition orbit (ci : bool) (c : N) : list N := if ci then [lower c; upper (lower c)] else [c].

Definition item_has (ci : bool) (c : N) (it : N * N) : bool :=
  existsb (between (fst it) (snd it)) (orbit ci c).

Definition set_has (ci neg : bool) (b : str) (c : N) : bool :=
  match class_items b with
  | Some l => xorb neg (existsb (item_has ci c) l)
  | None => false
  end.

(* ------------------------------------------------------------------------------------------ *)
(* executable regex matcher (Brzozowski derivatives)                                            *)

Fixpoint nullable (r : re) : bool :=
  match r with
  | REmp => false | REps => true | RChr _ => false | RNoSep => false | RAnyStar => true
  | RSet _ _ => false
  | RSeq a b => nullable a && nullable b
  | RAlt a b => nullable a || nullable b
  | RStar _ => true
  | RPlus r => nullable r
  | ROpt _ => true
  | RGroup r => nullable r
  | RLookNot _ => false
  end.

Definition mkseq (a b : re) : re :=
  match a with
  | REmp => REmp
  | REps => b
  | _ => match b with REmp => REmp | _ => RSeq a b end
  end.

Definition mkalt (a b : re) : re :=
  match a with
  | REmp => b
  | _ => match b with REmp => a | _ => RAlt a b end
  end.

Fixpoint deriv (ci : bool) (c : N) (r : re) : re :=
  match r with
  | REmp => REmp
  | REps => REmp
  | RChr x => if ceq ci x c then REps else REmp
  | RNoSep => if c =? 47 then REmp else REps
  | RAnyStar => RAnyStar
  | RSet neg b => if set_has ci neg b c then REps else REmp
  | RSeq a b => if nullable a then mkalt (mkseq (deriv ci c a) b) (deriv ci c b)
                else mkseq (deriv ci c a) b
  | RAlt a b => mkalt (deriv ci c a) (deriv ci c b)
  | RStar r => mkseq (deriv ci c r) (RStar r)
  | RPlus r => mkseq (deriv ci c r) (RStar r)
  | ROpt r => deriv ci c r
  | RGroup r => deriv ci c r
  | RLookNot _ => REmp
  end.

Fixpoint re_match (ci : bool) (r : re) (s : str) : bool :=
  match s with
  | [] => nullable r
  | c :: t => re_match ci (deriv ci c r) t
  end.

(* Regex::is_match of the prefix regex `^(?:R)(?:/|$)` (pattern.rs regex_with, commit f55c3e7):
   some prefix of s matches r and is followed by '/' or by the end of s *)
Definition at_boundary (s : str) : bool := match s with [] => true | c :: _ => c =? 47 end.
Fixpoint re_match_prefix (ci : bool) (r : re) (s : str) : bool :=
  (nullable r && at_boundary s)
  || match s with [] => false | c :: t => re_match_prefix ci (deriv ci c r) t end.

(* ------------------------------------------------------------------------------------------ *)
(* regex.rs: get_fixed_prefix / is_partial_match                                                *)

Definition fp_stop (c : N) : bool :=        (* . ^ $ ( ) } [ ] + *)
  (c =? 46) || (c =? 94) || (c =? 36) || (c =? 40) || (c =? 41) || (c =? 125) || (c =? 91) || (c =? 93) || (c =? 43).

Definition str_eqb (a b : str) : bool :=
  (fix go (a b : str) : bool :=
     match a, b with
     | [], [] => true
     | x :: a', y :: b' => (x =? y) && go a' b'
     | _, _ => false
     end) a b.

(* acc = the result so far, reversed *)
Fixpoint fp_loop (s : str) (acc : str) : str * option N :=
  match s with
  | [] => (rev acc, Some 0)
  | c :: r =>
    if c =? 92 then
      match r with
      | e :: r' => if alnum e then (rev acc, None) else fp_loop r' (e :: acc)
      | [] => (rev acc, None)
      end
    else if c =? 124 then ([], None)
    else if (c =? 63) || (c =? 42) || (c =? 123) then
      (rev (tl acc), if (c =? 63) && (str_eqb r [] || str_eqb r [36]) then Some 1 else None)
    else if (c =? 36) && str_eqb r [] then (rev acc, Some 0)
    else if fp_stop c then (rev acc, None)
    else fp_loop r (c :: acc)
  end.

Definition get_fixed_prefix (s : str) : str * option N :=
  match s with
  | c :: r => if c =? 94 then fp_loop r [] else fp_loop s []
  | [] => fp_loop s []
  end.

(* char::to_uppercase on the modelled domain, as a string: ß -> "SS", ŉ -> "ʼN", µ -> U+039C,
   ı -> "I", ÿ -> U+0178; 1:1 pairs as `upper` *)
Definition rs_upper (c : N) : str :=
  if c =? 223 then [83; 83]
  else if c =? 329 then [700; 78]
  else if c =? 181 then [924]
  else if c =? 305 then [73]
  else [upper c].

(* may_differ_by_case_only's fold(c) = c.to_uppercase().flat_map(char::to_lowercase) *)
Definition rs_fold (c : N) : str := map lower (rs_upper c).

(* Regex::is_partial_match's per-character test:
   a == b || (case_insensitive && may_differ_by_case_only(a, b))  (regex.rs, commit 455b1bc);
   coarser than ceq: e.g. ı (U+0131) and I/i are taken for equal because upper(ı) = I *)
Definition peq (ci : bool) (a b : N) : bool :=
  (a =? b) || (ci && ((lower a =? lower b) || str_eqb (rs_upper a) (rs_upper b)
                      || str_eqb (rs_fold a) (rs_fold b))).

Fixpoint zip_all_peq (ci : bool) (a b : str) : bool :=
  match a, b with
  | x :: a', y :: b' => peq ci x y && zip_all_peq ci a' b'
  | _, _ => true
  end.

(* Regex::is_partial_match with fixed_prefix = fst fp AS WRITTEN (no lower-casing any more),
   fixed_prefix_len = length (fst fp), max_suffix_len = snd fp *)
Definition partial_match (ci : bool) (fp : str * option N) (s : str) : bool :=
  match snd fp with
  | Some k => if N.of_nat (length (fst fp)) + k <? N.of_nat (length s) then false
              else zip_all_peq ci (fst fp) s
  | None => zip_all_peq ci (fst fp) s
  end.

(* ------------------------------------------------------------------------------------------ *)
(* Pattern                                                                                      *)

Record pattern := mkpat { pat_ci : bool; pat_g : list gl }.

(* regex_with: trim_start_matches('^'), then strip trailing UNESCAPED '$' (a '$' preceded by an
   odd number of backslashes is an escaped literal and stays) *)
Fixpoint strip_carets (s : str) : str :=
  match s with c :: r => if c =? 94 then strip_carets r else s | [] => [] end.
Fixpoint count_bs (rs : str) : nat :=           (* leading backslashes of the REVERSED text *)
  match rs with c :: r => if c =? 92 then S (count_bs r) else O | [] => O end.
Fixpoint strip_dollars_rev (rs : str) : str :=  (* on the reversed text *)
  match rs with
  | c :: r => if (c =? 36) && Nat.even (count_bs r) then strip_dollars_rev r else rs
  | [] => []
  end.
Definition strip_anchors (s : str) : str := rev (strip_dollars_rev (rev (strip_carets s))).

Definition pat_re (p : pattern) : re := to_re (pat_g p).
(* Display / src.  GlobProofs.strip_anchors_show: strip_anchors is the identity on emitted text *)
Definition pat_text (p : pattern) : str := strip_anchors (show_re (pat_re p)).
Definition anchored_text (p : pattern) : str := 94 :: pat_text p ++ [36].

Definition pat_matches (p : pattern) (s : str) : bool := re_match (pat_ci p) (pat_re p) s.
Definition pat_matches_prefix (p : pattern) (s : str) : bool := re_match_prefix (pat_ci p) (pat_re p) s.
Definition pat_fixed (p : pattern) : str * option N := get_fixed_prefix (anchored_text p).
Definition pat_matches_partially (p : pattern) (s : str) : bool := partial_match (pat_ci p) (pat_fixed p) s.

(* what the regex crate says about the emitted text *)
Definition st_and (a b : cstatus) : cstatus :=
  match a with
  | CsUnsup => CsUnsup
  | CsErr => match b with CsUnsup => CsUnsup | _ => CsErr end
  | CsOk => b
  end.

Definition all_status {A} (f : A -> cstatus) : list A -> cstatus :=
  fix go (l : list A) : cstatus := match l with [] => CsOk | x :: t => st_and (f x) (go t) end.

Fixpoint gl_status (g : gl) : cstatus :=
  match g with
  | GClass _ b => class_status b
  | GAlt l => all_status (all_status gl_status) l
  | GExt ENever l => st_and (all_status (all_status gl_status) l) CsErr      (* look-around *)
  | GExt _ l => all_status (all_status gl_status) l
  | _ => CsOk
  end.

Definition seq_status : list gl -> cstatus := all_status gl_status.

Definition ends_with (c : N) (s : str) : bool :=
  match rev s with x :: _ => x =? c | [] => false end.

(* Pattern::glob_with *)
Definition compile_glob (ci : bool) (txt : str) : outcome pattern :=
  match parse_glob txt with
  | Ok g =>
    match seq_status g with
    | CsUnsup => Unsup
    | CsErr => Err
    | CsOk => Ok (mkpat ci g)
    end
  | Err => Err | Panic => Panic | Unsup => Unsup | Fuel => Fuel
  end.

(* Pattern::literal(s) (never ends in `$` where it is used: abs_pattern appends '/') *)
Definition pat_literal (s : str) : pattern := mkpat false (map GLit s).

(* impl Add<Pattern> for Pattern: text concatenation, case-insensitive if either side is *)
Definition pat_add (a b : pattern) : pattern :=
  mkpat (pat_ci a || pat_ci b) (pat_g a ++ pat_g b).

(* ------------------------------------------------------------------------------------------ *)
(* path.rs: components, string form                                                             *)

Definition path := list str.          (* components; the root component is "/" = [47] *)

Fixpoint split_on (sep : N) (s : str) (cur : str) : list str :=
  match s with
  | [] => [rev cur]
  | c :: r => if c =? sep then rev cur :: split_on sep r [] else split_on sep r (c :: cur)
  end.

Definition is_dot (c : str) : bool := str_eqb c [46].

(* Path::from(&str): std::path components (unix) *)
Definition path_of_string (s : str) : path :=
  let parts := split_on 47 s [] in
  let rooted := match s with c :: _ => c =? 47 | [] => false end in
  let leading_dot := match parts with p :: _ => is_dot p | [] => false end in
  let normal := filter (fun p => negb (str_eqb p []) && negb (is_dot p)) parts in
  let comps := (if rooted then [[47]] else if leading_dot then [[46]] else []) ++ normal in
  match comps with [] => [[46]] | _ => comps end.

(* PathBuf::push of every component, then to_string_lossy *)
Definition lead_sep (c : str) : bool := match c with x :: _ => x =? 47 | [] => false end.
Definition push_comp (buf c : str) : str :=
  if lead_sep c then c
  else match buf with
       | [] => c
       | _ => if ends_with 47 buf then buf ++ c else buf ++ 47 :: c
       end.
Definition path_string (p : path) : str := fold_left push_comp p [].

Definition path_is_absolute (p : path) : bool := existsb (fun c => str_eqb c [47]) p.

(* file_name_cstr().unwrap_or_default() *)
Definition path_file_name (p : path) : str :=
  match rev p with
  | c :: _ => if str_eqb c [47] || str_eqb c [46; 46] || str_eqb c [46] then [] else c
  | [] => []
  end.

(* ------------------------------------------------------------------------------------------ *)
(* selector.rs                                                                                  *)

Fixpoint starts_with (pre s : str) : bool :=
  match pre, s with
  | [], _ => true
  | x :: p', y :: s' => (x =? y) && starts_with p' s'
  | _ :: _, [] => false
  end.

(* PathSelector::is_absolute: on the pattern TEXT *)
Definition pat_is_absolute (p : pattern) : bool :=
  let s := pat_text p in
  starts_with [46; 42] s || starts_with [40; 63; 115; 58; 46; 42; 41] s
  || path_is_absolute (path_of_string s).

Definition append_sep (s : str) : str := if ends_with 47 s then s else s ++ [47].

Definition abs_pattern (base : path) (p : pattern) : pattern :=
  if pat_is_absolute p then p
  else
    let b := map (fun c => if c =? 65533 then 63 else c) (path_string base) in
    pat_add (pat_literal (append_sep b)) p.

Record selector := mksel {
  sel_base : path;
  sel_names : list pattern;       (* included_names *)
  sel_paths : list pattern;       (* included_paths, already made absolute *)
  sel_excl : list pattern         (* excluded_paths, already made absolute *)
}.

Definition sel_new (base : path) : selector := mksel base [] [] [].
Definition include_names (s : selector) (l : list pattern) : selector :=
  mksel (sel_base s) l (sel_paths s) (sel_excl s).
Definition include_paths (s : selector) (l : list pattern) : selector :=
  mksel (sel_base s) (sel_names s) (map (abs_pattern (sel_base s)) l) (sel_excl s).
Definition exclude_paths (s : selector) (l : list pattern) : selector :=
  mksel (sel_base s) (sel_names s) (sel_paths s) (map (abs_pattern (sel_base s)) l).

Definition with_absolute (s : selector) (p : path) : path :=
  if path_is_absolute p then p else sel_base s ++ p.

Definition is_nil {A} (l : list A) : bool := match l with [] => true | _ => false end.

Definition matches_full_path (s : selector) (p : path) : bool :=
  let ap := with_absolute s p in
  let name := path_file_name ap in
  let ps := path_string ap in
  (is_nil (sel_names s) || existsb (fun q => pat_matches q name) (sel_names s))
  && (is_nil (sel_paths s) || existsb (fun q => pat_matches q ps) (sel_paths s))
  && forallb (fun q => negb (pat_matches q ps)) (sel_excl s).

Definition matches_dir (s : selector) (p : path) : bool :=
  let full := path_string (with_absolute s p) in
  let ps := append_sep full in
  (is_nil (sel_paths s)
   || existsb (fun q => pat_matches_partially q ps || pat_matches q full) (sel_paths s))
  && forallb (fun q => negb (pat_matches_prefix q ps)) (sel_excl s).

(* ------------------------------------------------------------------------------------------ *)
(* helpers for the driver: the prefixes of a path string that end in '/', the ancestor dirs     *)

Fixpoint slash_prefixes_aux (s : str) (acc : str) : list str :=
  match s with
  | [] => []
  | c :: r => if c =? 47 then rev (c :: acc) :: slash_prefixes_aux r (c :: acc)
              else slash_prefixes_aux r (c :: acc)
  end.
Definition slash_prefixes (s : str) : list str := slash_prefixes_aux s [].

Definition ancestors (s : str) : list str :=
  map (fun q => match removelast q with [] => [47] | d => d end) (slash_prefixes s).
