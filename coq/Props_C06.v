(* Props_C06.v — property C06: replica counting honours links, isolation and the replication filter.
   Statements only.  The model takes the roots of the filter as the implementation computes them
   (config.rs canonical_input_paths after the F14 fix); independence of the spelling of the roots is a
   correspondence-level obligation checked on every run (vlib/props/c06.py). *)
From FV Require Import Base ListLib GroupModel GroupProofs GroupProofs2 GroupProofs3 GroupProofs4 GroupProofs5 GroupWitness.
Open Scope N_scope.

(* The counting rule.  A member belongs to the FIRST root (in command-line order) that is a component-wise
   prefix of its path (FileSubGroup::group uses `position`), so a root counts iff it is the first matching
   root of some member; for pairwise non-overlapping roots that is "the root is a prefix of some member". *)
Theorem C06_count :
  forall (c : gcfg) (fs : list file),
    subgroup_count c fs
    = N.of_nat (length (filter (fun i => existsb (in_root (roots c) i) fs) (seq 0 (length (roots c))))
                + rest_count (roots c) (by_id c) fs) /\
    distinct_ids (filter (no_root (roots c)) fs) (rest_count (roots c) true fs) /\
    rest_count (roots c) false fs = length (filter (no_root (roots c)) fs).
Proof. intros c fs. split; [apply c06_count|]. split; [apply c06_rest_by_id|reflexivity]. Qed.
Print Assumptions C06_count.

(* meaning of in_root / no_root / is_prefix_of *)
Theorem C06_root_membership :
  forall (rs : list path) (f : file),
    (forall i, in_root rs i f = true <->
       exists r, nth_error rs i = Some r /\ is_prefix_of r (fpath f) = true /\
                 forall k r', (k < i)%nat -> nth_error rs k = Some r' -> is_prefix_of r' (fpath f) = false) /\
    (no_root rs f = true <-> forall r, In r rs -> is_prefix_of r (fpath f) = false) /\
    (forall r, is_prefix_of r (fpath f) = true <-> exists q, fpath f = r ++ q).
Proof.
  intros rs f. split; [intros i; apply in_root_spec|]. split; [apply no_root_iff|]. intros r. apply is_prefix_of_spec.
Qed.
Print Assumptions C06_root_membership.

(* corollaries: hard links (and file symlinks under -S, whose FileInfo carries the id of the target) are one
   replica; --match-links counts every path; --isolate counts at most one replica per root *)
Theorem C06_links_one_replica :
  forall (c : gcfg) (fs : list file), roots c = [] -> by_id c = true -> fs <> [] -> one_id fs -> subgroup_count c fs = 1.
Proof. exact c06_links_one_replica. Qed.
Print Assumptions C06_links_one_replica.

Theorem C06_match_links_counts_paths :
  forall (c : gcfg) (fs : list file), roots c = [] -> by_id c = false -> subgroup_count c fs = N.of_nat (length fs).
Proof. exact c06_match_links_counts_paths. Qed.
Print Assumptions C06_match_links_counts_paths.

Theorem C06_isolate_at_most_one_per_root :
  forall (c : gcfg) (fs : list file), (forall f, In f fs -> no_root (roots c) f = false) ->
    subgroup_count c fs <= N.of_nat (length (roots c)).
Proof. exact c06_isolate_bound. Qed.
Print Assumptions C06_isolate_at_most_one_per_root.

(* the count does not depend on the order of the members *)
Theorem C06_count_order_independent :
  forall (c : gcfg) (fs fs' : list file), NoDup fs -> Permutation.Permutation fs fs' -> subgroup_count c fs = subgroup_count c fs'.
Proof. exact subgroup_count_perm. Qed.
Print Assumptions C06_count_order_independent.

(* A class is reported iff its count passes the filter, and a reported group lists exactly the class.
   (K10 and K11, found by this development, are repaired: e6af885, f4a00ae.) *)
Theorem C06_reported_iff :
  forall (H : list N -> hash) (T : list N -> option (list N)) (c : gcfg) (n : nd) (scanned : list file),
    wf_nd n -> (forall st f, fails n st f = false) ->
    wf_ids scanned -> wf_len scanned -> wf_paths scanned ->
    collision_free H c scanned -> transform c = false -> skip_content c = false ->
    let out := group_files H T c n scanned in
    (forall f, ok c scanned f -> ((exists g, In g out /\ In f (gfiles g)) <-> qualifies c scanned f)) /\
    (forall g f, In g out -> In f (gfiles g) -> is_class c scanned f (gfiles g) /\ matches_strictly c g = true).
Proof. exact c06_reported_iff. Qed.
Print Assumptions C06_reported_iff.

(* the same under --transform (classes of the transform output; the final filter is strict since e6af885) *)
Theorem C06_reported_iff_transform :
  forall (H : list N -> hash) (T : list N -> option (list N)) (c : gcfg) (n : nd) (scanned : list file),
    wf_nd n -> (forall st f, fails n st f = false) ->
    wf_ids scanned -> wf_paths scanned -> collision_free_T H T scanned -> transform c = true ->
    let out := group_files H T c n scanned in
    (forall f0, ok' c scanned f0 -> hasT T f0 = true ->
       ((exists g, In g out /\ In (tfile T f0) (gfiles g)) <-> qualifiesT T c scanned f0)) /\
    (forall g f0 cl, In g out -> ok' c scanned f0 -> In (tfile T f0) (gfiles g) -> is_classT T c scanned f0 cl ->
       Permutation.Permutation (gfiles g) (map (tfile T) cl)).
Proof.
  intros H T c n scanned Hnd Hnf Hids Hp Hcf Htr.
  destruct (c03_transform H T c n scanned Hnd Hnf Hids Hp Hcf Htr) as (_ & _ & _ & A & B). split; [exact A|exact B].
Qed.
Print Assumptions C06_reported_iff_transform.

(* reported iff count > rf_over, resp. count < rf_under (--unique = rf_under 2) *)
Theorem C06_filter_rule :
  forall (c : gcfg) (g : group),
    matches_strictly c g = match repl c with
                           | Over rf => rf <? subgroup_count c (gfiles g)
                           | Under rf => subgroup_count c (gfiles g) <? rf
                           end.
Proof. reflexivity. Qed.
Print Assumptions C06_filter_rule.

(* ---- the spelling clause: "the outcome does not depend on how the roots are spelled (relative, ./, .., trailing slash,
   through a symlink)".  At the level of the walk (WalkModel.v, qualified: it has its own path/config types) the input paths
   enter only through walk.rs `absolute`; two lists of input paths with the same `absolute` images give the same walk and scan
   for every tree, configuration and scheduler, and the spellings r/. , r/x/.. (x a real sub-directory) and any two spellings
   with the same canonical directory (e.g. through a symbolic link) have the same image.  `..` is resolved physically
   (after the links before it), never lexically: WalkProofs6.ex_link_dotdot_physical. ---- *)
From FV Require WalkModel WalkProofs6.

Theorem C06_spelling_only_through_absolute :
  forall sel_file sel_dir ign1 (t : WalkModel.tree) (c : WalkModel.config) sched roots1 roots2,
    map (WalkModel.absolute t) roots1 = map (WalkModel.absolute t) roots2 ->
    WalkModel.walk sel_file sel_dir ign1 t c sched roots1 = WalkModel.walk sel_file sel_dir ign1 t c sched roots2 /\
    WalkModel.scan sel_file sel_dir ign1 t c sched roots1 = WalkModel.scan sel_file sel_dir ign1 t c sched roots2.
Proof. exact WalkProofs6.walk_spelling. Qed.
Print Assumptions C06_spelling_only_through_absolute.

Theorem C06_spelling_dot :
  forall (t : WalkModel.tree) raw p,
    WalkModel.canon t raw = Some p -> WalkProofs6.dir_at t p ->
    WalkModel.absolute t (raw ++ [WalkModel.dot]) = WalkModel.absolute t raw.
Proof. exact WalkProofs6.absolute_dot. Qed.
Print Assumptions C06_spelling_dot.

Theorem C06_spelling_subdir_dotdot :
  forall (t : WalkModel.tree) raw x p,
    WalkModel.canon t raw = Some p -> WalkProofs6.dir_at t p -> WalkProofs6.dir_at t (p ++ [x]) ->
    WalkModel.comp_eqb x WalkModel.dot = false -> WalkModel.comp_eqb x WalkModel.dotdot = false ->
    WalkModel.absolute t (raw ++ [x; WalkModel.dotdot]) = WalkModel.absolute t raw.
Proof. exact WalkProofs6.absolute_dir_up. Qed.
Print Assumptions C06_spelling_subdir_dotdot.

Theorem C06_spelling_same_canonical_directory :
  forall (t : WalkModel.tree) raw1 raw2 p,
    WalkModel.canon t raw1 = Some p -> WalkModel.canon t raw2 = Some p -> WalkProofs6.dir_at t p ->
    WalkModel.absolute t raw1 = WalkModel.absolute t raw2.
Proof. exact WalkProofs6.absolute_same_canon. Qed.
Print Assumptions C06_spelling_same_canonical_directory.

(* `..` is physical, in general: after a path that resolves (through whatever links) to the directory q, `..` is the parent of q *)
Theorem C06_spelling_dotdot_physical :
  forall (t : WalkModel.tree) raw q,
    WalkModel.canon t raw = Some q -> WalkProofs6.dir_at t q ->
    WalkModel.canon t (raw ++ [WalkModel.dotdot]) = Some (removelast q).
Proof. exact WalkProofs6.canon_app_dotdot. Qed.
Print Assumptions C06_spelling_dotdot_physical.

(* Non-vacuity and the physical reading of `..`: /t/lnk -> /far/away/inner, so t/lnk/.. is /far/away, not /t *)
Example C06_spelling_inhabited :
  WalkModel.canon WalkProofs6.s6tree [WalkProofs6.n_t; WalkProofs6.n_lnk; WalkModel.dotdot] = Some [WalkProofs6.n_far; WalkProofs6.n_away] /\
  WalkModel.absolute WalkProofs6.s6tree [WalkProofs6.n_t; WalkProofs6.n_lnk; WalkModel.dotdot] = [WalkProofs6.n_far; WalkProofs6.n_away] /\
  WalkModel.absolute WalkProofs6.s6tree [WalkProofs6.n_t; WalkModel.dot] = [WalkProofs6.n_t] /\
  WalkModel.absolute WalkProofs6.s6tree [WalkProofs6.n_t; WalkProofs6.n_sub; WalkModel.dotdot] = [WalkProofs6.n_t] /\
  WalkModel.absolute WalkProofs6.s6tree [WalkProofs6.n_lt] = [WalkProofs6.n_t] /\
  WalkModel.absolute WalkProofs6.s6tree [WalkModel.dot; WalkProofs6.n_t] = [WalkProofs6.n_t] /\
  WalkModel.canon WalkProofs6.s6tree [WalkProofs6.n_t] = Some [WalkProofs6.n_t] /\
  WalkProofs6.dir_at WalkProofs6.s6tree [WalkProofs6.n_t] /\
  WalkProofs6.dir_at WalkProofs6.s6tree ([WalkProofs6.n_t] ++ [WalkProofs6.n_sub]).
Proof. exact WalkProofs6.ex_link_dotdot_physical. Qed.

(* Non-vacuity: the README's example — four hard links of one file plus a copy: 2 replicas by default,
   5 with --match-links, and with --isolate over two roots one replica per root. *)
Definition rd_files : list file :=
  [mkfile [[47];[114;49];[97]] (1,10) 0 10 3 [1;2;3]; mkfile [[47];[114;49];[98]] (1,10) 0 10 3 [1;2;3];
   mkfile [[47];[114;50];[99]] (1,10) 0 10 3 [1;2;3]; mkfile [[47];[114;50];[100]] (1,10) 0 10 3 [1;2;3];
   mkfile [[47];[114;50];[101]] (1,11) 0 11 3 [1;2;3]].
Definition rd_cfg (rs : list path) (b : bool) : gcfg := mkcfg None None (fun _ => SSD) (Over 1) rs b false false 0 None.
Example C06_readme_table :
  subgroup_count (rd_cfg [] true) rd_files = 2 /\ subgroup_count (rd_cfg [] false) rd_files = 5 /\
  subgroup_count (rd_cfg [[[47];[114;49]]; [[47];[114;50]]] true) rd_files = 2 /\
  subgroup_count (rd_cfg [[[47];[114;49]]] true) rd_files = 3.
Proof. vm_compute. repeat split; reflexivity. Qed.
