(* CacheProofs4.v — the machine-level time stamp of cache.rs.

   CacheModel.v keeps the stored `modified_timestamp_ms : u64` as a signed number (e_mt : Z = code_ms mtime).  The code computes it
   on u64: `as_millis() as u64` at or after the epoch, `(as_millis() as u64).wrapping_neg()` before it.  Here the wrap-around is
   written out (stamp_u64) and the two readings are proved to agree — and the u64 stamp to be exactly as discriminating as the
   signed millisecond count — for every mtime within 2^63 ms (292 million years) of the epoch. *)
From FV Require Import Base CacheModel.
Require Import ZArith Lia.
Open Scope Z_scope.

Definition two64 : Z := 2 ^ 64.
Definition two63 : Z := 2 ^ 63.

(* cache.rs timestamp_ms, on the machine type: `since_epoch.as_millis() as u64` for t >= epoch,
   `(e.duration().as_millis() as u64).wrapping_neg()` for t < epoch (duration = epoch - t) *)
Definition stamp_u64 (mt : Z) : Z :=
  if 0 <=? mt then (Z.quot mt 1000000) mod two64
  else (two64 - (Z.quot (- mt) 1000000) mod two64) mod two64.

(* the stored u64 read as a two's complement number *)
Definition signed64 (u : Z) : Z := if u <? two63 then u else u - two64.

Definition in_range (mt : Z) : Prop := - (two63 * 1000000) < mt < two63 * 1000000.

Lemma code_ms_bounds mt : in_range mt -> - two63 < code_ms mt < two63.
Proof.
  unfold in_range, code_ms, two63. intros H.
  destruct (Z_lt_le_dec mt 0) as [L|L].
  - replace mt with (- (- mt)) by lia. rewrite Z.quot_opp_l by lia.
    rewrite Z.quot_div_nonneg by lia.
    assert (0 <= (- mt) / 1000000 < 2 ^ 63).
    { split; [apply Z.div_pos; lia|apply Z.div_lt_upper_bound; lia]. }
    lia.
  - rewrite Z.quot_div_nonneg by lia.
    assert (0 <= mt / 1000000 < 2 ^ 63).
    { split; [apply Z.div_pos; lia|apply Z.div_lt_upper_bound; lia]. }
    lia.
Qed.

Theorem stamp_u64_signed mt : in_range mt -> signed64 (stamp_u64 mt) = code_ms mt.
Proof.
  intros H. pose proof (code_ms_bounds mt H) as B. unfold code_ms in *.
  unfold stamp_u64, signed64, two64, two63 in *.
  destruct (0 <=? mt) eqn:E.
  - apply Z.leb_le in E. rewrite Z.quot_div_nonneg in * by lia.
    assert (0 <= mt / 1000000) by (apply Z.div_pos; lia).
    rewrite Z.mod_small by lia.
    destruct (mt / 1000000 <? 2 ^ 63) eqn:F; [reflexivity|apply Z.ltb_ge in F; lia].
  - apply Z.leb_gt in E.
    remember (- mt) as n eqn:Hn. assert (Hm : mt = - n) by lia. subst mt. clear Hn.
    rewrite Z.quot_opp_l in * by lia.
    rewrite Z.quot_div_nonneg in * by lia.
    set (q := n / 1000000) in *.
    assert (0 <= q) by (apply Z.div_pos; lia).
    rewrite (Z.mod_small q) by lia.
    destruct (Z.eq_dec q 0) as [Q|Q].
    + rewrite Q. rewrite Z.sub_0_r, Z.mod_same by lia. cbn. reflexivity.
    + rewrite Z.mod_small by lia.
      destruct (2 ^ 64 - q <? 2 ^ 63) eqn:F; [apply Z.ltb_lt in F; lia|lia].
Qed.

Theorem stamp_u64_injective a b :
  in_range a -> in_range b -> (stamp_u64 a = stamp_u64 b <-> code_ms a = code_ms b).
Proof.
  intros Ha Hb. split; intros H.
  - rewrite <- (stamp_u64_signed a Ha), <- (stamp_u64_signed b Hb), H. reflexivity.
  - pose proof (stamp_u64_signed a Ha) as Sa. pose proof (stamp_u64_signed b Hb) as Sb.
    assert (Ra : 0 <= stamp_u64 a < two64).
    { unfold stamp_u64. destruct (0 <=? a); apply Z.mod_pos_bound; reflexivity. }
    assert (Rb : 0 <= stamp_u64 b < two64).
    { unfold stamp_u64. destruct (0 <=? b); apply Z.mod_pos_bound; reflexivity. }
    rewrite <- Sa, <- Sb in H. unfold signed64, two64, two63 in *.
    destruct (stamp_u64 a <? 2 ^ 63) eqn:Fa; destruct (stamp_u64 b <? 2 ^ 63) eqn:Fb;
      try apply Z.ltb_lt in Fa; try apply Z.ltb_ge in Fa; try apply Z.ltb_lt in Fb; try apply Z.ltb_ge in Fb; lia.
Qed.

(* Why the units matter: a stamp that adds whole seconds * 1000 to the sub-second part in MICROseconds (a one-word slip) is not
   injective on milliseconds: two mtimes 999 ms apart collide. *)
Definition stamp_mixed_units (mt : Z) : Z := (mt / 1000000000) * 1000 + (mt mod 1000000000) / 1000.
Example mixed_units_not_injective :
  stamp_mixed_units 1700000000500000000 = stamp_mixed_units 1700000001499000000 /\
  code_ms 1700000000500000000 <> code_ms 1700000001499000000 /\
  stamp_u64 1700000000500000000 <> stamp_u64 1700000001499000000.
Proof. repeat split; vm_compute; congruence. Qed.

Example stamp_u64_examples :
  in_range 1700000000123456789 /\ in_range (-1500000) /\
  stamp_u64 1700000000123456789 = 1700000000123 /\
  stamp_u64 (-1500000) = 18446744073709551615 /\ code_ms (-1500000) = -1 /\
  stamp_u64 (-999999) = 0 /\ stamp_u64 999999 = 0.
Proof. unfold in_range. repeat split; vm_compute; congruence. Qed.
