(* Extract_Rp.v — extraction of the report-consistency model (engine Rp, C14). *)
From Coq Require Import Extraction ExtrOcamlBasic.
From FV Require Import Base ReportModel.
Extraction Language OCaml.
Extraction "extracted/ex_Rp.ml" stats_of finalize is_fixpoint all_reported redundant_spec redundant_count
  subgroups sort_by_path mkFile mkGroup mkFilter N.of_nat Z.of_N.
