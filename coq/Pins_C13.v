(* Pins_C13.v — the statements of Props_C13.v, pinned. *)
From FV Require Import Base ListLib GroupModel GroupProofs GroupProofs2 GroupProofs3 GroupProofs4 GroupProofs5 GroupProofs6 GroupProofs7 GroupWitness Props_C13.
From Coq Require Import Permutation.
Open Scope N_scope.
Check C13_schedule_independent :
  forall (H : list N -> hash) (T : list N -> option (list N)) (c : gcfg) (n1 n2 : nd) (s1 s2 : list file),
    wf_nd n1 -> wf_nd n2 ->
    (forall st f, fails n1 st f = false) -> (forall st f, fails n2 st f = false) ->
    Permutation s1 s2 -> wf_ids s1 -> wf_len s1 -> wf_paths s1 ->
    group_files H T c n1 s1 = group_files H T c n2 s2.
Check C13_partition_independent :
  forall (H1 H2 : list N -> hash) (T1 T2 : list N -> option (list N)) (c1 c2 : gcfg) (n1 n2 : nd) (s : list file),
    same_selection c1 c2 -> wf_nd n1 -> wf_nd n2 ->
    (forall st f, fails n1 st f = false) -> (forall st f, fails n2 st f = false) ->
    wf_ids s -> wf_len s -> wf_paths s -> collision_free H1 c1 s -> collision_free H2 c2 s ->
    transform c1 = false -> transform c2 = false -> skip_content c1 = false -> skip_content c2 = false ->
    (forall g f, In g (group_files H1 T1 c1 n1 s) -> In f (gfiles g) ->
       exists g', In g' (group_files H2 T2 c2 n2 s) /\ glen g' = glen g /\ Permutation (gfiles g) (gfiles g')) /\
    (forall g f, In g (group_files H2 T2 c2 n2 s) -> In f (gfiles g) ->
       exists g', In g' (group_files H1 T1 c1 n1 s) /\ glen g' = glen g /\ Permutation (gfiles g) (gfiles g')).
Check C13_orders_total : good_cmp path_cmp /\ good_cmp key_cmp /\ good_cmp fid_cmp.
Check C13_rx_loop_ends :
  forall tr live' queued', chan_run (1%nat, 0%nat) tr = Some (live', queued') ->
    count_ev EvDrop tr = S (count_ev EvClone tr) -> count_ev EvRecv tr = count_ev EvSend tr ->
    live' = 0%nat /\ queued' = 0%nat /\ chan_step (live', queued') EvRecv = None /\ chan_step (live', queued') EvSend = None.
Check (eq_refl : same_selection = fun c1 c2 =>
  repl c1 = repl c2 /\ roots c1 = roots c2 /\ by_id c1 = by_id c2 /\ min_size c1 = min_size c2 /\ max_size c1 = max_size c2).

From FV Require StdinModel StdinProofs.
Check C13_stdin_paths_read_back :
  forall ps : list (list N),
    (forall p, In p ps -> StdinProofs.no_nl p /\ last p 0%N <> 13%N) ->
    StdinModel.stdin_paths (concat (map (fun p => p ++ [10%N]) ps)) = ps.
Check C13_stdin_paths_crlf :
  forall ps : list (list N),
    (forall p, In p ps -> StdinProofs.no_nl p) ->
    StdinModel.stdin_paths (concat (map (fun p => p ++ [13%N; 10%N]) ps)) = ps.
Check C13_stdin_last_line_unterminated :
  forall (ps : list (list N)) (p : list N),
    (forall q, In q ps -> StdinProofs.no_nl q /\ last q 0%N <> 13%N) ->
    StdinProofs.no_nl p -> p <> [] -> last p 0%N <> 13%N ->
    StdinModel.stdin_paths (concat (map (fun q => q ++ [10%N]) ps) ++ p) = ps ++ [p].
Check (eq_refl : StdinModel.stdin_paths = fun input => map StdinModel.strip_cr (StdinModel.split_nl None input)).
Check (eq_refl : StdinProofs.no_nl = fun p => ~ In 10%N p).

