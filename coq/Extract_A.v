(* Extract_A.v — extraction of the file-system / command model for the correspondence harness. *)
From Coq Require Import Extraction ExtrOcamlBasic.
From FV Require Import Base FsModel AtomicModel.
Extraction Language OCaml.
Extraction "extracted/ex_A.ml" empty_fs set_name set_inode set_locks mkFs names inodes locks next
  norm parent mv_target temp_of ncall partial_copy is_query view_of follow file_bytes exists_follow
  script_steps run_script processed_count prog_of run steps states exec N.of_nat Z.of_N.
