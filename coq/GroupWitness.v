(* GroupWitness.v — engine G: boolean checkers of the hypotheses (reflection), small non-vacuity instances
   and the regression instances of the repaired defects K10 / K11 (f4a00ae, e6af885).
   All hypotheses are checked by boolean functions (sound by the lemmas below) so that each witness
   costs exactly one vm_compute of a closed boolean; no other tactic ever sees the file contents. *)
From FV Require Import Base ListLib GroupModel GroupProofs GroupProofs2.
From Coq Require Import Permutation.
Open Scope N_scope.

(* a toy 128-bit "hash" that is cheap to evaluate: first byte and a two-byte xor checksum of at most the
   first 64 bytes, padded to 16 bytes *)
Definition toyH (d : list N) : hash :=
  hd 0 d :: fold_left N.lxor (firstn 64 d) 0 :: N.of_nat (length (firstn 64 d)) :: repeat 0 13.

Lemma wf_nd_mode0 : wf_nd (nd_of_mode 0).
Proof. split; intros; cbn; [apply isort_perm|apply Permutation_refl]. Qed.

(* ------------------------------------------------------------------ boolean checkers *)
Definition wf_ids_b (fs : list file) : bool :=
  forallb (fun f => forallb (fun f' =>
     implb (fid_eqb (fid f) (fid f')) (bytes_eqb (fdata f) (fdata f') && (flen f =? flen f'))) fs) fs.
Definition wf_len_b (fs : list file) : bool :=
  forallb (fun f => flen f =? N.of_nat (length (fdata f))) fs.
Definition xkey (H : list N -> hash) (s : N) (d : list N) : hash := hxor (H d) (H (sfx s d)).
Definition cf_b (H : list N -> hash) (c : gcfg) (fs : list file) : bool :=
  forallb (fun f => forallb (fun f' =>
     implb ((flen f =? flen f') &&
            (bytes_eqb (H (fdata f)) (H (fdata f')) ||
             existsb (fun s => (s <? flen f) && bytes_eqb (xkey H s (fdata f)) (xkey H s (fdata f'))) (suffix_cands c)))
           (bytes_eqb (fdata f) (fdata f'))) fs) fs.
Definition differ (f f' : file) : bool := negb (bytes_eqb (fdata f) (fdata f')).
Definition has_mixed_group (gs : list group) : bool :=
  existsb (fun g => existsb (fun f => existsb (differ f) (gfiles g)) (gfiles g)) gs.

Lemma wf_ids_b_sound fs : wf_ids_b fs = true -> wf_ids fs.
Proof.
  unfold wf_ids_b. intros Hb f f' Hf Hf' E.
  rewrite forallb_forall in Hb. specialize (Hb f Hf). rewrite forallb_forall in Hb. specialize (Hb f' Hf').
  assert (Et : fid_eqb (fid f) (fid f') = true) by (apply fid_eqb_spec; auto).
  rewrite Et in Hb. cbn [implb] in Hb. apply andb_true_iff in Hb. destruct Hb as [H1 H2].
  apply bytes_eqb_spec in H1. apply N.eqb_eq in H2. auto.
Qed.

Lemma wf_len_b_sound fs : wf_len_b fs = true -> wf_len fs.
Proof.
  unfold wf_len_b. intros Hb f Hf. rewrite forallb_forall in Hb. apply N.eqb_eq. auto.
Qed.

Lemma cf_b_sound H c fs : cf_b H c fs = true -> collision_free H c fs.
Proof.
  unfold cf_b. intros Hb f f' Hf Hf' El Hd.
  rewrite forallb_forall in Hb. specialize (Hb f Hf). rewrite forallb_forall in Hb. specialize (Hb f' Hf').
  apply bytes_eqb_spec.
  destruct (bytes_eqb (fdata f) (fdata f')); auto. rewrite <- Hb. symmetry.
  assert (E1 : (flen f =? flen f') = true) by (apply N.eqb_eq; auto). rewrite E1. cbn [andb implb].
  destruct Hd as [Hd|(s & Hs & Hlt & Hx)].
  - assert (E2 : bytes_eqb (H (fdata f)) (H (fdata f')) = true) by (apply bytes_eqb_spec; auto).
    rewrite E2. reflexivity.
  - assert (E2 : existsb (fun s => (s <? flen f) && bytes_eqb (xkey H s (fdata f)) (xkey H s (fdata f'))) (suffix_cands c) = true).
    { apply existsb_exists. exists s. split; auto. apply andb_true_iff. split; [apply N.ltb_lt; auto|].
      apply bytes_eqb_spec. exact Hx. }
    rewrite E2, orb_true_r. reflexivity.
Qed.

Lemma has_mixed_group_spec gs : has_mixed_group gs = true ->
  exists g f f', In g gs /\ In f (gfiles g) /\ In f' (gfiles g) /\ fdata f <> fdata f'.
Proof.
  unfold has_mixed_group. intros H. apply existsb_exists in H. destruct H as (g & Hg & H).
  apply existsb_exists in H. destruct H as (f & Hf & H). apply existsb_exists in H. destruct H as (f' & Hf' & H).
  exists g, f, f'. repeat split; auto. intros E. unfold differ in H.
  assert (Et : bytes_eqb (fdata f) (fdata f') = true) by (apply bytes_eqb_spec; auto).
  rewrite Et in H. discriminate.
Qed.

(* ------------------------------------------------------------------ regression instance of K11 (repaired by f4a00ae) *)
(* two pairs of 65536-byte files differing in every byte, SSD, --max-prefix-size = --max-suffix-size = 70000: before the
   repair the suffix stage XORed H(file) with H(file) and the four files formed one group with hash 0 *)
Definition mkf (name ino len : N) (d : list N) : file := mkfile [[47]; [name]] (1, ino) 0 ino len d.
Definition k11_d1 : list N := repeat 1 (N.to_nat 65536).
Definition k11_d2 : list N := repeat 2 (N.to_nat 65536).
Definition k11_cfg : gcfg :=
  mkcfg (Some 70000) (Some 70000) (fun _ => SSD) (Over 1) [] true false false 0 None.
Definition k11_files : list file :=
  [mkf 97 1 65536 k11_d1; mkf 98 2 65536 k11_d1; mkf 99 3 65536 k11_d2; mkf 100 4 65536 k11_d2].
Definition idT (d : list N) : option (list N) := Some d.
Definition shows (gs : list group) : list (N * list path) := map (fun g => (glen g, map fpath (gfiles g))) gs.

Lemma k11_ids : wf_ids_b k11_files = true. Proof. vm_compute. reflexivity. Qed.
Lemma k11_len : wf_len_b k11_files = true. Proof. vm_compute. reflexivity. Qed.
Lemma k11_cf : cf_b toyH k11_cfg k11_files = true. Proof. vm_compute. reflexivity. Qed.
Lemma k11_regression : shows (group_files toyH idT k11_cfg (nd_of_mode 0) k11_files)
                       = [(65536, [[[47]; [99]]; [[47]; [100]]]); (65536, [[[47]; [97]]; [[47]; [98]]])].
Proof. vm_compute. reflexivity. Qed.

(* ------------------------------------------------------------------ small non-vacuity instances *)
(* three 6-byte files, two equal and one differing in the last byte, prefix length 4 < 6: the pair is
   only separated from the third by the contents stage *)
Definition ex_cfg : gcfg := mkcfg (Some 4) None (fun _ => SSD) (Over 1) [] true false false 0 None.
Definition ex_files : list file :=
  [mkf 97 1 6 [1;2;3;4;5;6]; mkf 98 2 6 [1;2;3;4;5;6]; mkf 99 3 6 [1;2;3;4;5;7]; mkf 100 3 6 [1;2;3;4;5;7]].
Lemma ex_ids : wf_ids_b ex_files = true. Proof. vm_compute. reflexivity. Qed.
Lemma ex_len : wf_len_b ex_files = true. Proof. vm_compute. reflexivity. Qed.
Lemma ex_cf : cf_b toyH ex_cfg ex_files = true. Proof. vm_compute. reflexivity. Qed.
Lemma ex_output : shows (group_files toyH idT ex_cfg (nd_of_mode 0) ex_files) = [(6, [[[47]; [97]]; [[47]; [98]]])].
Proof. vm_compute. reflexivity. Qed.

(* the same files under a transform that keeps the first 5 bytes: all four become equal *)
Definition ex_cfgT : gcfg := mkcfg None None (fun _ => SSD) (Over 1) [] true false true 0 None.
Definition head5 (d : list N) : option (list N) := Some (firstn 5 d).
Definition cfT_b (H : list N -> hash) (T : list N -> option (list N)) (fs : list file) : bool :=
  forallb (fun f => forallb (fun f' =>
    match T (fdata f), T (fdata f') with
    | Some a, Some b => implb (Nat.eqb (length a) (length b) && bytes_eqb (H a) (H b)) (bytes_eqb a b)
    | _, _ => true
    end) fs) fs.
Lemma cfT_b_sound H T fs : cfT_b H T fs = true -> collision_free_T H T fs.
Proof.
  unfold cfT_b. intros Hb f f' out out' Hf Hf' E E' El Eh.
  rewrite forallb_forall in Hb. specialize (Hb f Hf). rewrite forallb_forall in Hb. specialize (Hb f' Hf').
  rewrite E, E' in Hb. apply bytes_eqb_spec. destruct (bytes_eqb out out'); auto. rewrite <- Hb. symmetry.
  assert (E1 : Nat.eqb (length out) (length out') = true) by (apply Nat.eqb_eq; auto).
  assert (E2 : bytes_eqb (H out) (H out') = true) by (apply bytes_eqb_spec; auto).
  rewrite E1, E2. reflexivity.
Qed.
Lemma ex_cfT : cfT_b toyH head5 ex_files = true. Proof. vm_compute. reflexivity. Qed.
Lemma ex_outputT : shows (group_files toyH head5 ex_cfgT (nd_of_mode 0) ex_files)
                   = [(5, [[[47]; [97]]; [[47]; [98]]; [[47]; [99]]; [[47]; [100]]])].
Proof. vm_compute. reflexivity. Qed.
