(* TextProofs.v — engine T, proofs about coq/TextModel.v, part 1:
   UTF-8 step / segmentation lemmas, STFU-8 round trip (C10_stfu8), quote-escaping lemmas. *)
From FV Require Import Base TextModel.
Open Scope N_scope.

Ltac b2p :=
  repeat match goal with
  | H : _ && _ = true |- _ => apply andb_true_iff in H; destruct H
  | H : _ || _ = false |- _ => apply orb_false_iff in H; destruct H
  | H : (_ <=? _) = true |- _ => apply N.leb_le in H
  | H : (_ <? _) = true |- _ => apply N.ltb_lt in H
  | H : (_ =? _) = true |- _ => apply N.eqb_eq in H
  | H : (_ <? _) = false |- _ => apply N.ltb_ge in H
  | H : (_ <=? _) = false |- _ => apply N.leb_gt in H
  | H : (_ =? _) = false |- _ => apply N.eqb_neq in H
  | H : negb _ = true |- _ => apply negb_true_iff in H
  | H : negb _ = false |- _ => apply negb_false_iff in H
  end.

(* ------------------------------------------------------------------------------------------ *)
(* bytes *)

Definition is_bytes (l : list N) : Prop := Forall (fun b => b < 256) l.

Lemma is_bytes_app l1 l2 : is_bytes (l1 ++ l2) <-> is_bytes l1 /\ is_bytes l2.
Proof. apply Forall_app. Qed.

(* ------------------------------------------------------------------------------------------ *)
(* ustep *)

Lemma is_cont_ge b : is_cont b = true -> 128 <= b.
Proof. unfold is_cont. intros H. b2p. assumption. Qed.

Lemma second3_ge b0 b1 : second3 b0 b1 = true -> 128 <= b1.
Proof.
  unfold second3, is_cont. intros H.
  repeat (apply orb_true_iff in H; destruct H as [H|H]); b2p; lia.
Qed.

Lemma second4_ge b0 b1 : second4 b0 b1 = true -> 128 <= b1.
Proof.
  unfold second4, is_cont. intros H.
  repeat (apply orb_true_iff in H; destruct H as [H|H]); b2p; lia.
Qed.

(* a well-formed character: whatever follows, the validator accepts exactly these bytes *)
Definition wf_char (c : list N) : Prop := c <> [] /\ forall r, ustep (c ++ r) = UGood (length c).

Definition good_char (c : list N) : Prop :=
  wf_char c /\ ((exists b, c = [b] /\ b < 128) \/ ((2 <= length c)%nat /\ Forall (fun b => 128 <= b) c)).

Lemma wf_ascii b : b < 128 -> wf_char [b].
Proof.
  intros H. split; [discriminate|]. intros r. cbn [app length]. unfold ustep.
  apply N.ltb_lt in H. rewrite H. reflexivity.
Qed.

Lemma ustep_good l n : ustep l = UGood n -> good_char (firstn n l) /\ (1 <= n <= length l)%nat.
Proof.
  unfold ustep. destruct l as [|b0 r0]; [discriminate|].
  destruct (b0 <? 128) eqn:E0.
  { intros [= <-]. cbn [firstn length]. split; [|lia]. b2p. split; [apply wf_ascii; assumption|].
    left. eexists; split; [reflexivity|assumption]. }
  assert (G0 : 128 <= b0) by (b2p; assumption).
  destruct (width b0 =? 2) eqn:W2.
  { destruct r0 as [|b1 r1]; [discriminate|]. destruct (is_cont b1) eqn:C1; [|discriminate].
    intros [= <-]. cbn [firstn length]. split; [|lia]. split.
    - split; [discriminate|]. intros r. cbn [app length]. unfold ustep. rewrite E0, W2, C1. reflexivity.
    - right. split; [cbn; lia|]. apply is_cont_ge in C1. repeat constructor; assumption. }
  destruct (width b0 =? 3) eqn:W3.
  { destruct r0 as [|b1 r1]; [discriminate|]. destruct (second3 b0 b1) eqn:S1; [|discriminate].
    destruct r1 as [|b2 r2]; [discriminate|]. destruct (is_cont b2) eqn:C2; [|discriminate].
    intros [= <-]. cbn [firstn length]. split; [|lia]. split.
    - split; [discriminate|]. intros r. cbn [app length]. unfold ustep. rewrite E0, W2, W3, S1, C2. reflexivity.
    - right. split; [cbn; lia|]. apply is_cont_ge in C2. apply second3_ge in S1. repeat constructor; assumption. }
  destruct (width b0 =? 4) eqn:W4.
  { destruct r0 as [|b1 r1]; [discriminate|]. destruct (second4 b0 b1) eqn:S1; [|discriminate].
    destruct r1 as [|b2 r2]; [discriminate|]. destruct (is_cont b2) eqn:C2; [|discriminate].
    destruct r2 as [|b3 r3]; [discriminate|]. destruct (is_cont b3) eqn:C3; [|discriminate].
    intros [= <-]. cbn [firstn length]. split; [|lia]. split.
    - split; [discriminate|]. intros r. cbn [app length]. unfold ustep. rewrite E0, W2, W3, W4, S1, C2, C3. reflexivity.
    - right. split; [cbn; lia|]. apply is_cont_ge in C2, C3. apply second4_ge in S1. repeat constructor; assumption. }
  discriminate.
Qed.

Lemma ustep_bad l k more : ustep l = UBad k more ->
  (1 <= k)%nat /\ ((if more then S k else k) <= length l)%nat.
Proof.
  unfold ustep. destruct l as [|b0 r0]; [discriminate|].
  destruct (b0 <? 128); [discriminate|].
  destruct (width b0 =? 2).
  { destruct r0 as [|b1 r1]; [intros [= <- <-]; cbn; lia|]. destruct (is_cont b1); [discriminate|].
    intros [= <- <-]; cbn; lia. }
  destruct (width b0 =? 3).
  { destruct r0 as [|b1 r1]; [intros [= <- <-]; cbn; lia|]. destruct (second3 b0 b1); [|intros [= <- <-]; cbn; lia].
    destruct r1 as [|b2 r2]; [intros [= <- <-]; cbn; lia|]. destruct (is_cont b2); [discriminate|].
    intros [= <- <-]; cbn; lia. }
  destruct (width b0 =? 4).
  { destruct r0 as [|b1 r1]; [intros [= <- <-]; cbn; lia|]. destruct (second4 b0 b1); [|intros [= <- <-]; cbn; lia].
    destruct r1 as [|b2 r2]; [intros [= <- <-]; cbn; lia|]. destruct (is_cont b2); [|intros [= <- <-]; cbn; lia].
    destruct r2 as [|b3 r3]; [intros [= <- <-]; cbn; lia|]. destruct (is_cont b3); [discriminate|].
    intros [= <- <-]; cbn; lia. }
  intros [= <- <-]; cbn; lia.
Qed.

Lemma ustep_end l : ustep l = UEnd -> l = [].
Proof.
  unfold ustep. destruct l as [|b0 r0]; [reflexivity|].
  destruct (b0 <? 128); [discriminate|].
  repeat match goal with
  | |- context [if ?c then _ else _] => destruct c
  | |- context [match ?r with [] => _ | _ :: _ => _ end] => destruct r
  end; discriminate.
Qed.

Lemma wf_char_hd_not_cont c r : wf_char c ->
  match c ++ r with [] => True | b :: _ => is_cont b = false end.
Proof.
  intros [Hne H]. specialize (H r). destruct c as [|b c']; [contradiction|]. cbn [app] in *.
  unfold ustep in H. destruct (b <? 128) eqn:E0.
  - unfold is_cont. b2p. apply andb_false_iff. left. apply N.leb_gt. lia.
  - destruct (is_cont b) eqn:C; [|reflexivity]. exfalso.
    unfold is_cont in C. b2p. unfold width in H.
    assert (E0' : b <? 128 = false) by (apply N.ltb_ge; lia). rewrite E0' in H.
    assert (E1 : b <? 194 = true) by (apply N.ltb_lt; lia). rewrite E1 in H. cbn in H. discriminate.
Qed.

(* ------------------------------------------------------------------------------------------ *)
(* seg *)

Lemma seg_go_eq incl f : forall l g, (length l <= f)%nat -> (length l <= g)%nat ->
  seg_go incl f l = seg_go incl g l.
Proof.
  induction f as [|f IH]; intros l g Hf Hg.
  - destruct l; [|cbn in Hf; lia]. destruct g; reflexivity.
  - destruct g as [|g].
    + destruct l; [|cbn in Hg; lia]. reflexivity.
    + cbn [seg_go]. destruct (ustep l) as [|n|k more] eqn:E; [reflexivity| |].
      * apply ustep_good in E as [_ Hn]. f_equal. apply IH; rewrite skipn_length; lia.
      * apply ustep_bad in E as [Hk Hm]. f_equal.
        apply IH; rewrite skipn_length; destruct incl, more; cbn [andb] in *; lia.
Qed.

Lemma seg_unfold incl l :
  seg incl l = match ustep l with
               | UEnd => []
               | UGood n => CGood (firstn n l) :: seg incl (skipn n l)
               | UBad k more => let m := if incl && more then S k else k in
                                CBad (firstn m l) :: seg incl (skipn m l)
               end.
Proof.
  unfold seg. destruct l as [|b r]; [reflexivity|].
  cbn [length seg_go]. destruct (ustep (b :: r)) as [|n|k more] eqn:E; [reflexivity| |].
  - apply ustep_good in E as [_ Hn]. f_equal. apply seg_go_eq; rewrite skipn_length; cbn [length] in *; lia.
  - apply ustep_bad in E as [Hk Hm]. cbn zeta. f_equal.
    apply seg_go_eq; rewrite skipn_length; cbn [length] in *; destruct incl, more; cbn [andb] in *; lia.
Qed.

Lemma seg_nil incl : seg incl [] = [].
Proof. reflexivity. Qed.

Lemma seg_cons_good incl c y : wf_char c -> seg incl (c ++ y) = CGood c :: seg incl y.
Proof.
  intros [Hne H]. rewrite seg_unfold, H.
  rewrite firstn_app, Nat.sub_diag, firstn_all, firstn_O, app_nil_r.
  rewrite skipn_app, Nat.sub_diag, skipn_all. reflexivity.
Qed.

Definition chunk_ok (ch : chunk) : Prop := match ch with CGood c => good_char c | CBad _ => True end.

Lemma seg_spec incl : forall n l, (length l <= n)%nat ->
  concat (map cbytes (seg incl l)) = l /\ Forall chunk_ok (seg incl l).
Proof.
  induction n as [|n IH]; intros l Hl.
  - destruct l; [|cbn in Hl; lia]. split; [reflexivity|constructor].
  - rewrite seg_unfold. destruct (ustep l) as [|m|k more] eqn:E.
    + apply ustep_end in E. subst. split; [reflexivity|constructor].
    + apply ustep_good in E as [Hg Hm].
      destruct (IH (skipn m l)) as [H1 H2]; [rewrite skipn_length; lia|].
      split.
      * cbn [map concat cbytes]. rewrite H1. apply firstn_skipn.
      * constructor; assumption.
    + apply ustep_bad in E as [Hk Hm]. cbn zeta.
      destruct (IH (skipn (if incl && more then S k else k) l)) as [H1 H2].
      { rewrite skipn_length. destruct incl, more; cbn [andb] in *; lia. }
      split.
      * cbn [map concat cbytes]. rewrite H1. apply firstn_skipn.
      * constructor; [exact I|assumption].
Qed.

Lemma seg_concat incl l : concat (map cbytes (seg incl l)) = l.
Proof. apply (seg_spec incl (length l)); lia. Qed.

Lemma seg_ok incl l : Forall chunk_ok (seg incl l).
Proof. apply (seg_spec incl (length l)); lia. Qed.

(* str_chars *)

Lemma str_chars_nil : str_chars [] = Some [].
Proof. reflexivity. Qed.

Lemma str_chars_cons c y : wf_char c -> str_chars (c ++ y) = option_map (cons c) (str_chars y).
Proof.
  intros H. unfold str_chars. rewrite (seg_cons_good false c y H).
  cbn [forallb chunk_good andb map cbytes].
  destruct (forallb chunk_good (seg false y)); reflexivity.
Qed.

Lemma str_chars_concat cs y : Forall wf_char cs ->
  str_chars (concat cs ++ y) = option_map (app cs) (str_chars y).
Proof.
  induction 1 as [|c cs Hc Hcs IH]; cbn [concat app].
  - destruct (str_chars y); reflexivity.
  - rewrite <- app_assoc, (str_chars_cons c _ Hc), IH. destruct (str_chars y); reflexivity.
Qed.

Lemma str_chars_of_chars cs : Forall wf_char cs -> str_chars (concat cs) = Some cs.
Proof.
  intros H. rewrite <- (app_nil_r (concat cs)), (str_chars_concat cs [] H), str_chars_nil.
  cbn. rewrite app_nil_r. reflexivity.
Qed.

(* lossy: if no replacement character was produced, the string was valid *)
Lemma lossy_no_fffd l : ~ In FFFD (lossy l) ->
  lossy l = map cbytes (seg false l) /\ forallb chunk_good (seg false l) = true.
Proof.
  unfold lossy. induction (seg false l) as [|ch chs IH]; intros H; [split; reflexivity|].
  cbn [map In] in H. destruct ch as [c|bs].
  - destruct IH as [I1 I2]; [intros Hi; apply H; right; exact Hi|].
    cbn [map cbytes forallb chunk_good andb]. rewrite I1. split; [reflexivity|assumption].
  - exfalso. apply H. left. reflexivity.
Qed.

Lemma lossy_valid l : ~ In FFFD (lossy l) -> concat (lossy l) = l /\ Forall good_char (lossy l).
Proof.
  intros H. destruct (lossy_no_fffd l H) as [E G]. rewrite E. split; [apply seg_concat|].
  pose proof (seg_ok false l) as Hok. clear E H.
  induction (seg false l) as [|ch chs IH]; [constructor|].
  inversion Hok as [|? ? H1 H2]; subst. cbn [forallb andb] in G. apply andb_true_iff in G as [G1 G2].
  destruct ch as [c|bs]; [|discriminate]. cbn [map cbytes]. constructor; [exact H1|]. apply IH; assumption.
Qed.

(* ------------------------------------------------------------------------------------------ *)
(* STFU-8 *)

Lemma unhex_hexU n : n < 16 -> unhex (hexU n) = Some n.
Proof.
  intros H. unfold hexU, unhex. destruct (n <? 10) eqn:E; b2p.
  - replace ((48 <=? 48 + n) && (48 + n <=? 57)) with true.
    + f_equal. lia.
    + symmetry. apply andb_true_iff. split; apply N.leb_le; lia.
  - replace ((48 <=? 55 + n) && (55 + n <=? 57)) with false.
    + replace ((65 <=? 55 + n) && (55 + n <=? 70)) with true.
      * f_equal. lia.
      * symmetry. apply andb_true_iff. split; apply N.leb_le; lia.
    + symmetry. apply andb_false_iff. right. apply N.leb_gt. lia.
Qed.

Lemma hexU_range n : n < 16 -> (48 <= hexU n <= 57) \/ (65 <= hexU n <= 70).
Proof. intros H. unfold hexU. destruct (n <? 10) eqn:E; b2p; lia. Qed.

Lemma unhex2_hexU b : b < 256 -> unhex2 (hexU (b / 16)) (hexU (b mod 16)) = Some b.
Proof.
  intros H. unfold unhex2.
  assert (H1 : b / 16 < 16) by (apply N.div_lt_upper_bound; lia).
  assert (H2 : b mod 16 < 16) by (apply N.mod_lt; lia).
  rewrite (unhex_hexU _ H1), (unhex_hexU _ H2). f_equal.
  pose proof (N.div_mod b 16). lia.
Qed.

(* the four shapes of maybe_ascii b *)
Inductive ma_shape (b : N) : list N -> Prop :=
| ma_bsl : b = 92 -> ma_shape b [92; 92]
| ma_tab : b = 9 -> ma_shape b [92; 116]
| ma_lf : b = 10 -> ma_shape b [92; 110]
| ma_cr : b = 13 -> ma_shape b [92; 114]
| ma_hex : b <> 92 -> (b < 32 \/ 126 < b) -> ma_shape b [92; 120; hexU (b / 16); hexU (b mod 16)]
| ma_raw : b <> 92 -> 32 <= b <= 126 -> ma_shape b [b].

Lemma maybe_ascii_shape b : ma_shape b (maybe_ascii b).
Proof.
  unfold maybe_ascii, escape_u8.
  destruct (b =? 92) eqn:E1; b2p; [constructor; assumption|].
  destruct ((32 <=? b) && (b <=? 126)) eqn:E2.
  - b2p. apply ma_raw; [assumption|lia].
  - assert (Hr : b < 32 \/ 126 < b).
    { apply andb_false_iff in E2 as [E2|E2]; b2p; lia. }
    destruct (b =? 9) eqn:E3; b2p; [constructor; assumption|].
    destruct (b =? 10) eqn:E4; b2p; [constructor; assumption|].
    destruct (b =? 13) eqn:E5; b2p; [constructor; assumption|].
    apply ma_hex; assumption.
Qed.

Lemma decode_raw b r : b <> 92 -> stfu8_decode (b :: r) = ocons b (stfu8_decode r).
Proof. intros H. cbn [stfu8_decode]. apply N.eqb_neq in H. rewrite H. reflexivity. Qed.

Lemma decode_maybe_ascii b r : b < 256 ->
  stfu8_decode (maybe_ascii b ++ r) = ocons b (stfu8_decode r).
Proof.
  intros Hb. destruct (maybe_ascii_shape b) as [->| ->| ->| ->|Hn Hr|Hn Hr]; try reflexivity.
  - cbn [app stfu8_decode]. change (92 =? 92) with true. cbv iota.
    change (120 =? 116) with false. change (120 =? 110) with false. change (120 =? 114) with false.
    change (120 =? 92) with false. change (120 =? 120) with true. cbv iota.
    rewrite (unhex2_hexU b Hb). reflexivity.
  - cbn [app]. apply decode_raw. assumption.
Qed.

Lemma decode_high c r : Forall (fun b => 128 <= b) c ->
  stfu8_decode (c ++ r) = option_map (app c) (stfu8_decode r).
Proof.
  induction 1 as [|b c Hb Hc IH]; cbn [app].
  - destruct (stfu8_decode r); reflexivity.
  - rewrite decode_raw by lia. rewrite IH. destruct (stfu8_decode r); reflexivity.
Qed.

Lemma decode_flat_maybe_ascii bs r : is_bytes bs ->
  stfu8_decode (flat_map maybe_ascii bs ++ r) = option_map (app bs) (stfu8_decode r).
Proof.
  induction 1 as [|b bs Hb Hbs IH]; cbn [flat_map app].
  - destruct (stfu8_decode r); reflexivity.
  - rewrite <- app_assoc, (decode_maybe_ascii b _ Hb), IH. destruct (stfu8_decode r); reflexivity.
Qed.

Lemma decode_enc_chunk ch r : chunk_ok ch -> is_bytes (cbytes ch) ->
  stfu8_decode (enc_chunk ch ++ r) = option_map (app (cbytes ch)) (stfu8_decode r).
Proof.
  intros Hok Hb. destruct ch as [c|bs]; cbn [enc_chunk cbytes] in *.
  - destruct Hok as [_ [[b [-> Hlt]]|[Hlen Hhi]]].
    + rewrite decode_maybe_ascii by lia. destruct (stfu8_decode r); reflexivity.
    + destruct c as [|b0 [|b1 c']]; [cbn in Hlen; lia|cbn in Hlen; lia|].
      apply decode_high. assumption.
  - apply decode_flat_maybe_ascii. assumption.
Qed.

Lemma decode_enc_chunks chs : Forall chunk_ok chs -> is_bytes (concat (map cbytes chs)) ->
  stfu8_decode (flat_map enc_chunk chs) = Some (concat (map cbytes chs)).
Proof.
  induction 1 as [|ch chs Hc Hcs IH]; intros Hb; [reflexivity|].
  cbn [flat_map map concat] in *. apply is_bytes_app in Hb as [Hb1 Hb2].
  rewrite (decode_enc_chunk ch _ Hc Hb1), (IH Hb2). reflexivity.
Qed.

(* C10_stfu8 / the core of C17: decode_u8 (encode_u8 b) = Ok b for every byte string *)
Lemma stfu8_roundtrip l : is_bytes l -> stfu8_decode (stfu8_encode l) = Some l.
Proof.
  intros H. unfold stfu8_encode.
  pose proof (decode_enc_chunks (seg true l) (seg_ok true l)) as D.
  rewrite seg_concat in D. apply D. assumption.
Qed.

(* ------------------------------------------------------------------------------------------ *)
(* escq / unescq *)

Lemma escq_app l1 l2 : escq (l1 ++ l2) = escq l1 ++ escq l2.
Proof. unfold escq. apply flat_map_app. Qed.

Lemma escq_hd_not_quote l : hd_error (escq l) <> Some 39.
Proof.
  destruct l as [|b r]; cbn; [discriminate|].
  destruct (N.eqb_spec b 39) as [->|Hn]; cbn; [discriminate|]. intros [= H]. contradiction.
Qed.

Lemma unescq_escq l : unescq (escq l) = l.
Proof.
  induction l as [|b r IH]; [reflexivity|].
  change (escq (b :: r)) with ((if b =? 39 then [92; 39] else [b]) ++ escq r).
  destruct (N.eqb_spec b 39) as [->|Hn].
  - cbn [app unescq]. cbn. rewrite IH. reflexivity.
  - cbn [app]. pose proof (escq_hd_not_quote r) as Hh.
    destruct (escq r) as [|q r'] eqn:E.
    + cbn. destruct r; [reflexivity|]. cbn in E. destruct (n =? 39); discriminate.
    + cbn [unescq]. destruct ((b =? 92) && (q =? 39)) eqn:C.
      * apply andb_true_iff in C as [_ C]. apply N.eqb_eq in C. subst q. cbn in Hh. congruence.
      * f_equal. exact IH.
Qed.

Lemma escq_high c : Forall (fun b => 128 <= b) c -> escq c = c.
Proof.
  induction 1 as [|b c Hb Hc IH]; [reflexivity|].
  change (escq (b :: c)) with ((if b =? 39 then [92; 39] else [b]) ++ escq c).
  replace (b =? 39) with false by (symmetry; apply N.eqb_neq; lia). cbn [app]. f_equal. exact IH.
Qed.
