(* GroupProofs3.v — engine G, part 3: completeness of the staged pipeline without read faults.
   Nothing is lost or duplicated by a stage, content classes are never split, a class that satisfies the
   final filter survives every intermediate filter (monotonicity of the replica count), and the final
   filter sees exactly the class.  Basis of C03 and of C06_reported_iff. *)
From FV Require Import Base ListLib GroupModel GroupProofs GroupProofs2.
From Coq Require Import Permutation.
Open Scope N_scope.

(* ------------------------------------------------------------------ lists *)
Lemma flat_map_filter_split {A B} (f : A -> list B) (p : A -> bool) l :
  Permutation (flat_map f (filter p l) ++ flat_map f (filter (fun x => negb (p x)) l)) (flat_map f l).
Proof.
  induction l as [|x l IH]; cbn [filter flat_map app]; auto.
  destruct (p x); cbn [negb flat_map].
  - rewrite <- app_assoc. apply Permutation_app_head. exact IH.
  - rewrite Permutation_app_swap_app. apply Permutation_app_head. exact IH.
Qed.

Lemma flat_map_perm_pointwise {A B} (f g : A -> list B) l :
  (forall x, In x l -> Permutation (f x) (g x)) -> Permutation (flat_map f l) (flat_map g l).
Proof.
  induction l as [|x l IH]; intros H; cbn [flat_map]; auto.
  apply Permutation_app; [apply H; left; auto|apply IH; intros; apply H; right; auto].
Qed.

Lemma NoDup_app_disjoint {A} (l1 l2 : list A) z : NoDup (l1 ++ l2) -> In z l1 -> In z l2 -> False.
Proof.
  induction l1 as [|a l1 IH]; cbn [app]; intros Hnd H1 H2; [destruct H1|].
  inversion Hnd as [|? ? Hni Hnd']; subst. destruct H1 as [->|H1].
  - apply Hni. apply in_or_app. right; auto.
  - apply IH; auto.
Qed.

Lemma NoDup_app_intro {A} (l1 l2 : list A) : NoDup l1 -> NoDup l2 -> (forall z, In z l1 -> In z l2 -> False) ->
  NoDup (l1 ++ l2).
Proof.
  induction l1 as [|a l1 IH]; cbn [app]; intros H1 H2 Hd; auto.
  inversion H1 as [|? ? Hni H1']; subst. constructor.
  - intros Hin. apply in_app_or in Hin. destruct Hin as [Hin|Hin]; [contradiction|]. apply (Hd a); [left|]; auto.
  - apply IH; auto. intros z Hz1 Hz2. apply (Hd z); [right|]; auto.
Qed.

Lemma NoDup_app_remove_l {A} (l1 l2 : list A) : NoDup (l1 ++ l2) -> NoDup l2.
Proof. induction l1 as [|a l1 IH]; cbn [app]; auto. intros H. inversion H; auto. Qed.
Lemma NoDup_app_remove_r {A} (l1 l2 : list A) : NoDup (l1 ++ l2) -> NoDup l1.
Proof.
  induction l1 as [|a l1 IH]; cbn [app]; intros H; [constructor|]. inversion H as [|? ? Hni Hnd]; subst.
  constructor; auto. intros Hin. apply Hni. apply in_or_app. left; auto.
Qed.

Lemma NoDup_flat_map_unique {A B} (f : A -> list B) l x y z :
  NoDup (flat_map f l) -> In x l -> In y l -> In z (f x) -> In z (f y) -> x = y.
Proof.
  induction l as [|a l IH]; cbn [flat_map]; intros Hnd Hx Hy Hzx Hzy; [destruct Hx|].
  destruct Hx as [->|Hx], Hy as [->|Hy]; auto.
  - exfalso. apply (NoDup_app_disjoint _ _ z Hnd); auto. apply in_flat_map. eauto.
  - exfalso. apply (NoDup_app_disjoint _ _ z Hnd); auto. apply in_flat_map. eauto.
  - apply IH; auto. eapply NoDup_app_remove_l; eauto.
Qed.

Lemma NoDup_flat_map_intro {A B} (f : A -> list B) l :
  NoDup l -> (forall x, In x l -> NoDup (f x)) ->
  (forall x y z, In x l -> In y l -> In z (f x) -> In z (f y) -> x = y) -> NoDup (flat_map f l).
Proof.
  induction l as [|a l IH]; cbn [flat_map]; intros Hnd Hin Hd; [constructor|].
  inversion Hnd as [|? ? Hni Hnd']; subst. apply NoDup_app_intro.
  - apply Hin. left; auto.
  - apply IH; auto; intros; [apply Hin; right; auto|apply (Hd x y z); auto; right; auto].
  - intros z Hz1 Hz2. apply in_flat_map in Hz2. destruct Hz2 as (y & Hy & Hzy).
    assert (a = y) by (apply (Hd a y z); auto; [left|right]; auto). subst. contradiction.
Qed.

Lemma NoDup_flat_map_member {A B} (f : A -> list B) l x : NoDup (flat_map f l) -> In x l -> NoDup (f x).
Proof.
  induction l as [|a l IH]; cbn [flat_map]; intros Hnd Hx; [destruct Hx|].
  destruct Hx as [->|Hx]; [eapply NoDup_app_remove_r; eauto|apply IH; auto; eapply NoDup_app_remove_l; eauto].
Qed.

Lemma NoDup_flat_map_filter {A B} (f : A -> list B) (p : A -> bool) l :
  NoDup (flat_map f l) -> NoDup (flat_map f (filter p l)).
Proof.
  intros H. eapply Permutation_NoDup in H; [|symmetry; apply (flat_map_filter_split f p)].
  eapply NoDup_app_remove_r; eauto.
Qed.

Lemma NoDup_map_inj_eq {A B} (f : A -> B) l x y : NoDup (map f l) -> In x l -> In y l -> f x = f y -> x = y.
Proof.
  induction l as [|a l IH]; cbn [map]; intros Hnd Hx Hy E; [destruct Hx|].
  inversion Hnd as [|? ? Hni Hnd']; subst.
  destruct Hx as [->|Hx], Hy as [->|Hy]; auto.
  - exfalso. apply Hni. rewrite E. apply in_map; auto.
  - exfalso. apply Hni. rewrite <- E. apply in_map; auto.
Qed.

Lemma NoDup_map_NoDup {A B} (f : A -> B) l : NoDup (map f l) -> NoDup l.
Proof.
  induction l as [|a l IH]; cbn [map]; intros H; constructor; inversion H; subst; auto.
  intros Hin. apply H2. apply in_map; auto.
Qed.

(* ------------------------------------------------------------------ regroup *)
Lemma all_files_app a b : all_files (a ++ b) = all_files a ++ all_files b.
Proof. apply flat_map_app. Qed.

Lemma map_snd_items_of gs : map snd (items_of gs) = all_files gs.
Proof.
  unfold items_of, all_files. induction gs as [|g gs IH]; cbn [flat_map]; auto.
  rewrite map_app, IH, map_map. cbn [snd]. rewrite map_id. auto.
Qed.

Lemma regroup_files l : Permutation (all_files (regroup l)) (map snd l).
Proof.
  unfold regroup.
  set (L := group_by key_leb key_eqb (fun x : item => (flen (snd x), fst x)) l).
  assert (E : all_files (map (fun kv : key * list item => mkgroup (fst (fst kv)) (snd (fst kv)) (map snd (snd kv))) L)
              = map snd (concat (map snd L))).
  { generalize L. intros L0. induction L0 as [|kv L0 IH]; cbn [map all_files flat_map concat]; auto.
    rewrite map_app. cbn [gfiles]. f_equal. exact IH. }
  rewrite E. apply Permutation_map. apply group_by_perm. apply key_eqb_spec.
Qed.

Lemma regroup_complete l g h f : In g (regroup l) -> ghash g = h -> glen g = flen f -> In (h, f) l -> In f (gfiles g).
Proof.
  unfold regroup. intros Hg Eh El Hin. apply in_map_iff in Hg. destruct Hg as ([[len h0] its] & <- & Hk).
  cbn [fst snd glen ghash gfiles] in *. subst.
  destruct (group_by_bucket key_leb key_eqb _ _ _ _ Hk) as [-> _].
  apply in_map_iff. exists (h, f). split; auto. apply filter_In. split; auto. cbn [fst snd].
  apply key_eqb_spec. auto.
Qed.

(* ------------------------------------------------------------------ hashing all runs, no faults *)
Section NoFault.
  Variables (n : nd) (st : stage) (hf : hash_fn) (newh : file -> hash -> hash) (fs : list file).
  Hypothesis Hnd : wf_nd n.
  Hypothesis Hhf : forall f old, hf f old = Some (newh f old, flen f).
  Hypothesis Hids : wf_ids fs.

  Definition run_ok (run : list item) : Prop :=
    (forall x, In x run -> In (snd x) fs) /\
    match run with [] => True | h :: _ => forall y, In y run -> item_same_id h y = true end.

  Lemma hash_run_nofault old rep tl : run_ok ((old, rep) :: tl) ->
    hash_run hf ((old, rep) :: tl) = map (fun x => (newh rep old, snd x)) ((old, rep) :: tl).
  Proof.
    intros [Hin Hh]. rewrite (hash_run_head hf old rep tl _ _ (Hhf rep old)). apply map_ext_in. intros x Hx. f_equal.
    specialize (Hh x Hx). unfold item_same_id in Hh. cbn [snd] in Hh. apply same_id_spec in Hh.
    destruct (Hids rep (snd x)) as [_ El]; auto.
    - apply (Hin (old, rep)). left; auto.
    - rewrite El. apply set_len_same.
  Qed.

  Lemma map_snd_hash_runs rs : (forall r, In r rs -> run_ok r) ->
    map snd (flat_map (hash_run hf) rs) = map snd (concat rs).
  Proof.
    induction rs as [|r rs IH]; intros Hok; [reflexivity|].
    change (flat_map (hash_run hf) (r :: rs)) with (hash_run hf r ++ flat_map (hash_run hf) rs).
    change (concat (r :: rs)) with (r ++ concat rs).
    rewrite !map_app. f_equal; [|apply IH; intros; apply Hok; right; auto].
    destruct r as [|[old rep] tl]; auto.
    rewrite hash_run_nofault by (apply Hok; left; auto). rewrite map_map. cbn [snd]. auto.
  Qed.

  Lemma runs_ok l : (forall x, In x l -> In (snd x) fs) -> forall r, In r (runs item_same_id l) -> run_ok r.
  Proof.
    intros Hl r Hr. split.
    - intros x Hx. apply Hl. eapply runs_in; eauto.
    - pose proof (runs_homogeneous item_same_id item_same_id_trans item_same_id_refl l r Hr) as Hh.
      destruct r; auto.
  Qed.

  Lemma hashed_files items : (forall x, In x items -> In (snd x) fs) ->
    Permutation (map snd (hashed_of n st hf items)) (map snd items).
  Proof.
    intros Hit. unfold hashed_of.
    set (L := group_by N.leb N.eqb (fun x : item => fdev (snd x)) items).
    assert (HL : forall dv, In dv L -> forall x, In x (snd dv) -> In x items).
    { intros [d its] Hdv x Hx. cbn [snd] in Hx.
      destruct (group_by_member N.leb N.eqb _ N_eqb_spec' _ _ _ _ Hdv Hx); auto. }
    rewrite <- (Permutation_map snd (group_by_perm N.leb N.eqb (fun x : item => fdev (snd x)) N_eqb_spec' items)).
    fold L. clearbody L. induction L as [|dv L IH]; cbn [flat_map map concat]; auto.
    rewrite !map_app. apply Permutation_app.
    - rewrite map_snd_hash_runs.
      + rewrite runs_concat. apply Permutation_map. apply (proj1 Hnd).
      + apply runs_ok. intros x Hx. apply Hit. apply (HL dv (or_introl eq_refl)).
        eapply Permutation_in; [apply (proj1 Hnd)|]. eauto.
    - apply IH. intros dv' Hdv'. apply HL. right; auto.
  Qed.

  Lemma hashed_complete items x : (forall x, In x items -> In (snd x) fs) -> In x items ->
    exists old rep, In (old, rep) items /\ fid rep = fid (snd x) /\ In (newh rep old, snd x) (hashed_of n st hf items).
  Proof.
    intros Hit Hx. unfold hashed_of.
    pose proof (group_by_complete N.leb N.eqb (fun x : item => fdev (snd x)) N_eqb_spec' x items Hx) as Hb.
    set (its := filter (fun w : item => fdev (snd w) =? fdev (snd x)) items) in *.
    assert (Hxi : In x its) by (apply filter_In; split; auto; apply N.eqb_refl).
    assert (Hxo : In x (order n st (fdev (snd x)) its)).
    { eapply Permutation_in; [symmetry; apply (proj1 Hnd)|]. auto. }
    destruct (in_runs item_same_id _ _ Hxo) as (r & Hr & Hxr).
    assert (Hsub : forall y, In y r -> In y items).
    { intros y Hy. apply (runs_in item_same_id _ _ _ Hr) in Hy.
      apply (Permutation_in _ (proj1 Hnd st (fdev (snd x)) its)) in Hy.
      apply filter_In in Hy. tauto. }
    assert (Hok : run_ok r).
    { apply (runs_ok (order n st (fdev (snd x)) its)); auto. intros y Hy. apply Hit.
      apply (Permutation_in _ (proj1 Hnd st (fdev (snd x)) its)) in Hy. apply filter_In in Hy. tauto. }
    destruct r as [|[old rep] tl]; [destruct Hxr|].
    exists old, rep. split; [apply Hsub; left; auto|]. split.
    - destruct Hok as [_ Hh]. specialize (Hh x Hxr). apply same_id_spec in Hh. exact Hh.
    - apply in_flat_map. exists (fdev (snd x), its). split; auto. cbn [fst snd].
      apply in_flat_map. exists ((old, rep) :: tl). split; auto.
      rewrite hash_run_nofault; auto. apply in_map_iff. exists x. auto.
  Qed.
End NoFault.

(* ------------------------------------------------------------------ early stages *)
Definition wf_paths (fs : list file) : Prop := forall f f', In f fs -> In f' fs -> fpath f = fpath f' -> f = f'.

Lemma same_path_refl f : same_path f f = true. Proof. apply same_path_spec; auto. Qed.
Lemma same_path_trans f g h : same_path f g = true -> same_path g h = true -> same_path f h = true.
Proof. rewrite !same_path_spec. congruence. Qed.

Lemma deduplicate_NoDup fs : NoDup (deduplicate fs).
Proof.
  unfold deduplicate. apply NoDup_flat_map_intro.
  - eapply NoDup_map_NoDup. apply (group_by_keys_nodup N.leb N.eqb floc N_eqb_spec').
  - intros [k b] _. cbn [snd]. apply (pairwise_neq_NoDup same_path same_path_refl). apply uniq_by_pairwise.
  - intros [k b] [k' b'] z Hx Hy Hz Hz'. cbn [snd] in *. apply uniq_by_incl in Hz, Hz'.
    destruct (group_by_member N.leb N.eqb floc N_eqb_spec' _ _ _ _ Hx Hz) as [_ E1].
    destruct (group_by_member N.leb N.eqb floc N_eqb_spec' _ _ _ _ Hy Hz') as [_ E2].
    apply (NoDup_map_inj_eq fst _ _ _ (group_by_keys_nodup N.leb N.eqb floc N_eqb_spec' fs) Hx Hy). cbn [fst]. congruence.
Qed.

Lemma deduplicate_keeps fs f : wf_paths fs -> In f fs -> In f (deduplicate fs).
Proof.
  intros Hwp Hf. unfold deduplicate. apply in_flat_map.
  exists (floc f, filter (fun w => floc w =? floc f) fs). split.
  - apply (group_by_complete N.leb N.eqb floc N_eqb_spec' f fs Hf).
  - cbn [snd].
    assert (Hfb : In f (filter (fun w => floc w =? floc f) fs)) by (apply filter_In; split; auto; apply N.eqb_refl).
    destruct (uniq_by_covers same_path same_path_refl same_path_trans _ f Hfb) as (y & Hy & Hyf).
    assert (y = f).
    { apply Hwp; auto; [|apply same_path_spec; auto]. apply uniq_by_incl in Hy. apply filter_In in Hy. tauto. }
    subst. auto.
Qed.

(* ------------------------------------------------------------------ the invariants *)
Section Complete.
  Variable H : list N -> hash.
  Variable T : list N -> option (list N).
  Variable c : gcfg.
  Variable n : nd.
  Variable scanned : list file.
  Hypothesis Hnd : wf_nd n.
  Hypothesis Hnofail : forall st f, fails n st f = false.
  Hypothesis Hids : wf_ids scanned.
  Hypothesis Hlen : wf_len scanned.
  Hypothesis Hpaths : wf_paths scanned.

  Let o := oracle_of H T.
  Definition ok (f : file) : Prop := In f scanned /\ size_ok c f = true.

  Definition invA (gs : list group) : Prop := NoDup (all_files gs) /\ forall f, In f (all_files gs) -> ok f.
  Definition invB (gs : list group) : Prop :=
    forall g f f', In g gs -> In f (gfiles g) -> ok f' -> fdata f' = fdata f -> In f' (gfiles g).
  Definition invL (gs : list group) : Prop := forall g f, In g gs -> In f (gfiles g) -> flen f = glen g.

  Lemma same_data_len f f' : ok f -> ok f' -> fdata f = fdata f' -> flen f = flen f'.
  Proof. intros [Hf _] [Hf' _] E. rewrite (Hlen f Hf), (Hlen f' Hf'), E. auto. Qed.

  Lemma all_files_in gs g f : In g gs -> In f (gfiles g) -> In f (all_files gs).
  Proof. intros Hg Hf. unfold all_files. apply in_flat_map. eauto. Qed.
  Lemma in_all_files gs f : In f (all_files gs) -> exists g, In g gs /\ In f (gfiles g).
  Proof. unfold all_files. intros Hf. apply in_flat_map in Hf. exact Hf. Qed.

  (* sorting the members of every group by id changes nothing set-wise *)
  Lemma all_files_sort gs : Permutation (all_files (map sort_group_by_id gs)) (all_files gs).
  Proof.
    unfold all_files. rewrite flat_map_concat_map, map_map, <- flat_map_concat_map.
    apply flat_map_perm_pointwise. intros g _. cbn [sort_group_by_id gfiles]. apply sort_by_id_perm.
  Qed.
  Lemma inv_sort gs : invA gs -> invB gs -> invL gs ->
    invA (map sort_group_by_id gs) /\ invB (map sort_group_by_id gs) /\ invL (map sort_group_by_id gs).
  Proof.
    intros [A1 A2] HB HL. split; [|split].
    - split.
      + eapply Permutation_NoDup; [symmetry; apply all_files_sort|auto].
      + intros f Hf. apply A2. eapply Permutation_in; [apply all_files_sort|auto].
    - intros g f f' Hg Hf Hok E. apply in_map_iff in Hg. destruct Hg as (g0 & <- & Hg0). cbn [sort_group_by_id gfiles] in *.
      apply sort_by_id_in. apply sort_by_id_in1 in Hf. eapply HB; eauto.
    - intros g f Hg Hf. apply in_map_iff in Hg. destruct Hg as (g0 & <- & Hg0). cbn [sort_group_by_id gfiles glen] in *.
      apply sort_by_id_in1 in Hf. eapply HL; eauto.
  Qed.

  Lemma inv_filter (p : group -> bool) gs : invA gs -> invB gs -> invL gs ->
    invA (filter p gs) /\ invB (filter p gs) /\ invL (filter p gs).
  Proof.
    intros [A1 A2] HB HL. split; [|split].
    - split; [apply NoDup_flat_map_filter; auto|].
      intros f Hf. apply in_all_files in Hf. destruct Hf as (g & Hg & Hf). apply filter_In in Hg.
      apply A2. eapply all_files_in; eauto. tauto.
    - intros g f f' Hg. apply filter_In in Hg. apply HB. tauto.
    - intros g f Hg. apply filter_In in Hg. apply HL. tauto.
  Qed.

  (* ---------------------------------------------------------------- one rehash stage, before its post filter *)
  Section Step.
    Variables (st : stage) (pre : group -> bool) (hf : hash_fn) (newh : file -> hash -> hash).
    Hypothesis Hhf : forall f old, hf f old = Some (newh f old, flen f).
    Hypothesis Hclass : forall f f' old, ok f -> ok f' -> fdata f = fdata f' -> newh f old = newh f' old.
    Variable gs : list group.
    Hypothesis HA : invA gs.
    Hypothesis HB : invB gs.
    Hypothesis HL : invL gs.

    Let raw := rehash_raw n st pre hf gs.
    Let items := items_of (filter pre gs).

    Lemma items_scanned x : In x items -> In (snd x) scanned.
    Proof.
      destruct x as [h f]. intros Hx. apply in_items_of in Hx. destruct Hx as (g & Hg & _ & Hf).
      apply filter_In in Hg. destruct Hg as [Hg _]. destruct HA as [_ A2]. destruct (A2 f) as [Hs _]; auto.
      apply (all_files_in gs g f); auto.
    Qed.

    Lemma step_files : Permutation (all_files raw) (all_files gs).
    Proof.
      unfold raw, rehash_raw. rewrite all_files_app. rewrite regroup_files.
      rewrite (Permutation_map snd (proj2 Hnd st _)). fold items.
      rewrite (hashed_files n st hf newh scanned Hnd Hhf Hids items items_scanned).
      unfold items. rewrite map_snd_items_of. apply (flat_map_filter_split gfiles pre gs).
    Qed.

    Lemma step_A : invA raw.
    Proof.
      destruct HA as [A1 A2]. split.
      - eapply Permutation_NoDup; [symmetry; apply step_files|auto].
      - intros f Hf. apply A2. eapply Permutation_in; [apply step_files|auto].
    Qed.

    Lemma step_L : invL raw.
    Proof.
      intros g f Hg Hf. unfold raw, rehash_raw in Hg. apply in_app_or in Hg. destruct Hg as [Hg|Hg].
      - apply in_regroup in Hg. destruct Hg as [_ Hall]. apply Hall; auto.
      - apply filter_In in Hg. eapply HL; eauto. tauto.
    Qed.

    (* the item of a file and the item of the representative that was hashed for it carry the same old hash *)
    Lemma rep_same_group g0 f0 g1 rep : In g0 gs -> In f0 (gfiles g0) -> In g1 gs -> In rep (gfiles g1) ->
      fid rep = fid f0 -> g1 = g0 /\ fdata rep = fdata f0 /\ ok rep /\ ok f0.
    Proof.
      intros Hg0 Hf0 Hg1 Hrep Hi. destruct HA as [A1 A2].
      assert (Hokf : ok f0) by (apply A2; apply (all_files_in gs g0 f0); auto).
      assert (Hokr : ok rep) by (apply A2; apply (all_files_in gs g1 rep); auto).
      destruct (Hids rep f0 (proj1 Hokr) (proj1 Hokf) Hi) as [Ed _].
      assert (Hr0 : In rep (gfiles g0)) by (eapply HB; eauto).
      split; auto. eapply (NoDup_flat_map_unique gfiles gs g1 g0 rep); eauto.
    Qed.

    Lemma hashed_key h f : In (h, f) (hashed_of n st hf items) ->
      exists g0, In g0 gs /\ pre g0 = true /\ In f (gfiles g0) /\ h = newh f (ghash g0).
    Proof.
      intros Hin. apply (in_hashed _ _ _ _ _ _ Hnd) in Hin.
      destruct Hin as (old & hd & oldr & rep & [h0 f0] & len & Hhd & Hrep & Hx & Hih & _ & Hi & _ & Hh & ->). cbn [snd] in *.
      rewrite Hhf in Hh. inversion Hh; subst h len. clear Hh.
      apply in_items_of in Hrep. destruct Hrep as (g1 & Hg1 & -> & Hrep).
      apply in_items_of in Hhd. destruct Hhd as (gh & Hgh & -> & Hhd).
      apply in_items_of in Hx. destruct Hx as (g0 & Hg0 & -> & Hf0).
      apply filter_In in Hg1, Hg0, Hgh. destruct Hg1 as [Hg1 _]. destruct Hg0 as [Hg0 Hp0]. destruct Hgh as [Hgh _].
      destruct (rep_same_group g0 f0 g1 rep) as (-> & Ed & Hokr & Hokf); auto.
      destruct (rep_same_group g0 f0 gh hd) as (-> & _ & _ & _); auto; [congruence|].
      destruct (Hids rep f0 (proj1 Hokr) (proj1 Hokf) Hi) as [_ El].
      rewrite El, set_len_same. exists g0. repeat split; auto.
    Qed.

    Lemma hashed_has g0 f : In g0 gs -> pre g0 = true -> In f (gfiles g0) ->
      In (newh f (ghash g0), f) (hashed_of n st hf items).
    Proof.
      intros Hg0 Hp0 Hf.
      assert (Hx : In (ghash g0, f) items).
      { apply in_items_of. exists g0. split; [apply filter_In; auto|auto]. }
      destruct (hashed_complete n st hf newh scanned Hnd Hhf Hids items (ghash g0, f) items_scanned Hx)
        as (old & rep & Hrep & Hi & Hin). cbn [snd] in *.
      apply in_items_of in Hrep. destruct Hrep as (g1 & Hg1 & -> & Hrep). apply filter_In in Hg1. destruct Hg1 as [Hg1 _].
      destruct (rep_same_group g0 f g1 rep) as (-> & Ed & Hokr & Hokf); auto.
      rewrite (Hclass rep f (ghash g0) Hokr Hokf Ed) in Hin. exact Hin.
    Qed.

    Lemma step_B : invB raw.
    Proof.
      intros g f f' Hg Hf Hok' E. unfold raw, rehash_raw in Hg. apply in_app_or in Hg. destruct Hg as [Hg|Hg].
      - destruct (in_regroup _ _ Hg) as [_ Hall]. destruct (Hall f Hf) as [Hin Hlf].
        apply (Permutation_in _ (proj2 Hnd st _)) in Hin. fold items in Hin.
        destruct (hashed_key _ _ Hin) as (g0 & Hg0 & Hp0 & Hf0 & Eh).
        assert (Hokf : ok f) by (destruct HA as [_ A2]; apply A2; apply (all_files_in gs g0 f); auto).
        assert (Hf0' : In f' (gfiles g0)) by (eapply HB; eauto).
        pose proof (hashed_has g0 f' Hg0 Hp0 Hf0') as Hin'.
        rewrite (Hclass f' f (ghash g0) Hok' Hokf E), <- Eh in Hin'.
        apply (regroup_complete _ g (ghash g) f' Hg eq_refl).
        + rewrite <- Hlf. symmetry. apply same_data_len; auto.
        + eapply Permutation_in; [symmetry; apply (proj2 Hnd st _)|]. exact Hin'.
      - apply filter_In in Hg. eapply HB; eauto. tauto.
    Qed.
  End Step.

  (* ---------------------------------------------------------------- content classes and the final filter *)
  Definition is_class (f : file) (cl : list file) : Prop :=
    NoDup cl /\ forall x, In x cl <-> ok x /\ fdata x = fdata f.
  (* the class of f satisfies the replication filter (subgroup_count does not depend on the enumeration) *)
  Definition qualifies (f : file) : Prop :=
    exists cl, is_class f cl /\ matches_strictly c (mkgroup 0 [] cl) = true.
  Definition invC (gs : list group) : Prop :=
    forall f, ok f -> qualifies f -> exists g, In g gs /\ In f (gfiles g).

  Lemma matches_of_class cl g : NoDup cl -> matches_strictly c (mkgroup 0 [] cl) = true -> incl cl (gfiles g) ->
    matches c g = true.
  Proof.
    intros Hnd' Hs Hi. unfold matches, matches_strictly in *. cbn [gfiles] in Hs. destruct (repl c) as [rf|rf]; auto.
    apply N.ltb_lt in Hs. apply N.ltb_lt. pose proof (subgroup_count_mono c cl (gfiles g) Hnd' Hi). lia.
  Qed.

  Lemma strict_of_class cl g : NoDup cl -> NoDup (gfiles g) -> (forall x, In x (gfiles g) <-> In x cl) ->
    matches_strictly c g = matches_strictly c (mkgroup 0 [] cl).
  Proof.
    intros N1 N2 Hiff. unfold matches_strictly. cbn [gfiles].
    rewrite (subgroup_count_perm c (gfiles g) cl N2); auto. apply NoDup_Permutation; auto.
  Qed.

  Lemma invB_class gs g f cl : invB gs -> In g gs -> In f (gfiles g) -> is_class f cl -> incl cl (gfiles g).
  Proof. intros HB Hg Hf [_ Hcl] x Hx. apply Hcl in Hx. destruct Hx as [Hok E]. eapply HB; eauto. Qed.

  (* qualifying classes survive a stage whose post filter accepts every group that contains the whole class *)
  Lemma step_C (post : group -> bool) gs raw :
    invC gs -> (forall f, In f (all_files gs) -> In f (all_files raw)) -> invB raw ->
    (forall g f cl, In g raw -> In f (gfiles g) -> ok f -> is_class f cl ->
                    matches_strictly c (mkgroup 0 [] cl) = true -> post g = true) ->
    invC (filter post raw).
  Proof.
    intros HC Hkeep HB Hpost f Hok (cl & Hcl & Hs).
    destruct (HC f Hok (ex_intro _ cl (conj Hcl Hs))) as (g0 & Hg0 & Hf0).
    assert (Hfr : In f (all_files raw)) by (apply Hkeep; eapply all_files_in; eauto).
    apply in_all_files in Hfr. destruct Hfr as (g & Hg & Hf).
    exists g. split; auto. apply filter_In. split; auto. eapply Hpost; eauto.
  Qed.

  (* ---------------------------------------------------------------- size grouping and path de-duplication *)
  Let fs0 := filter (size_ok c) scanned.
  Let G0 := map (fun kv : N * list file => mkgroup (fst kv) hash0 (snd kv)) (group_by N.leb N.eqb flen fs0).
  Let g1 := remove_same_files c (group_by_size c fs0).

  Lemma G0_member g f : In g G0 -> In f (gfiles g) -> ok f /\ flen f = glen g.
  Proof.
    unfold G0. intros Hg Hf. apply in_map_iff in Hg. destruct Hg as ([len b] & <- & Hb). cbn [fst snd gfiles glen] in *.
    destruct (group_by_member N.leb N.eqb flen N_eqb_spec' _ _ _ _ Hb Hf) as [Hin E]. split; auto.
    unfold fs0 in Hin. apply filter_In in Hin. exact Hin.
  Qed.
  Lemma G0_keys : NoDup (map glen G0).
  Proof.
    unfold G0. rewrite map_map. cbn [glen].
    apply (group_by_keys_nodup N.leb N.eqb flen N_eqb_spec' fs0).
  Qed.
  Lemma G0_has f : ok f -> exists g, In g G0 /\ glen g = flen f /\ forall x, ok x -> flen x = flen f -> In x (gfiles g).
  Proof.
    intros [Hs Hk].
    assert (Hf0 : In f fs0) by (apply filter_In; auto).
    exists (mkgroup (flen f) hash0 (filter (fun w => flen w =? flen f) fs0)). split; [|split; auto].
    - unfold G0. apply in_map_iff. exists (flen f, filter (fun w => flen w =? flen f) fs0). split; auto.
      apply (group_by_complete N.leb N.eqb flen N_eqb_spec' f fs0 Hf0).
    - intros x [Hxs Hxk] E. cbn [gfiles]. apply filter_In. split; [apply filter_In; auto|apply N.eqb_eq; auto].
  Qed.

  Definition dedup_group (g : group) : group := mkgroup (glen g) (ghash g) (deduplicate (gfiles g)).
  Lemma g1_unfold : g1 = filter (matches c) (map dedup_group (filter (matches c) G0)).
  Proof. reflexivity. Qed.

  Lemma wf_paths_sub l : (forall x, In x l -> In x scanned) -> wf_paths l.
  Proof. intros Hs f f' Hf Hf'. apply Hpaths; auto. Qed.

  Lemma stage1_inv : invA g1 /\ invB g1 /\ invL g1 /\ invC g1.
  Proof.
    rewrite g1_unfold.
    assert (HAall : NoDup (flat_map (fun g => deduplicate (gfiles g)) G0)).
    { apply NoDup_flat_map_intro.
      - eapply NoDup_map_NoDup. apply G0_keys.
      - intros g _. apply deduplicate_NoDup.
      - intros x y z Hx Hy Hz Hz'. apply deduplicate_incl in Hz, Hz'.
        destruct (G0_member x z Hx Hz) as [_ E1]. destruct (G0_member y z Hy Hz') as [_ E2].
        apply (NoDup_map_inj_eq glen G0 x y G0_keys Hx Hy). congruence. }
    assert (Efl : forall L, all_files (map dedup_group L) = flat_map (fun g => deduplicate (gfiles g)) L).
    { intros L. unfold all_files. rewrite flat_map_concat_map, map_map, <- flat_map_concat_map. reflexivity. }
    assert (Hmem : forall g, In g (map dedup_group (filter (matches c) G0)) ->
              exists g0, In g0 G0 /\ glen g = glen g0 /\ gfiles g = deduplicate (gfiles g0)).
    { intros g Hg. apply in_map_iff in Hg. destruct Hg as (g0 & <- & Hg0). apply filter_In in Hg0.
      exists g0. cbn. tauto. }
    assert (HA' : invA (map dedup_group (filter (matches c) G0))).
    { split.
      - rewrite Efl. apply NoDup_flat_map_filter. exact HAall.
      - intros f Hf. apply in_all_files in Hf. destruct Hf as (g & Hg & Hf).
        destruct (Hmem g Hg) as (g0 & Hg0 & _ & Eg). rewrite Eg in Hf. apply deduplicate_incl in Hf.
        apply (G0_member g0 f Hg0 Hf). }
    assert (HB' : invB (map dedup_group (filter (matches c) G0))).
    { intros g f f' Hg Hf Hok' E. destruct (Hmem g Hg) as (g0 & Hg0 & _ & Eg). rewrite Eg in *.
      apply deduplicate_incl in Hf. destruct (G0_member g0 f Hg0 Hf) as [Hokf El].
      apply deduplicate_keeps.
      - apply wf_paths_sub. intros x Hx. destruct (G0_member g0 x Hg0 Hx) as [[? _] _]. auto.
      - destruct (G0_has f Hokf) as (g0' & Hg0' & El' & Hall).
        assert (g0' = g0) by (apply (NoDup_map_inj_eq glen G0 g0' g0 G0_keys); auto; congruence). subst g0'.
        apply Hall; auto. symmetry. apply same_data_len; auto. }
    assert (HL' : invL (map dedup_group (filter (matches c) G0))).
    { intros g f Hg Hf. destruct (Hmem g Hg) as (g0 & Hg0 & El & Eg). rewrite Eg in Hf. apply deduplicate_incl in Hf.
      destruct (G0_member g0 f Hg0 Hf). congruence. }
    destruct (inv_filter (matches c) _ HA' HB' HL') as (A & B & L). repeat split; try apply A; auto.
    (* survival *)
    intros f Hok (cl & Hcl & Hs).
    destruct (G0_has f Hok) as (g0 & Hg0 & El & Hall).
    assert (Hi0 : incl cl (gfiles g0)).
    { intros x Hx. apply (proj2 Hcl) in Hx. destruct Hx as [Hokx E]. apply Hall; auto. apply same_data_len; auto. }
    assert (Hm0 : matches c g0 = true) by (apply (matches_of_class cl g0 (proj1 Hcl) Hs Hi0)).
    assert (Hg' : In (dedup_group g0) (map dedup_group (filter (matches c) G0))).
    { apply in_map. apply filter_In. auto. }
    assert (Hi1 : incl cl (gfiles (dedup_group g0))).
    { intros x Hx. cbn [dedup_group gfiles]. apply deduplicate_keeps; auto.
      apply wf_paths_sub. intros y Hy. destruct (G0_member g0 y Hg0 Hy) as [[? _] _]. auto. }
    exists (dedup_group g0). split.
    - apply filter_In. split; auto. apply (matches_of_class cl _ (proj1 Hcl) Hs Hi1).
    - apply Hi1. apply (proj2 Hcl). split; auto.
  Qed.

  (* ---------------------------------------------------------------- the three hashing stages *)
  Section Chain.
    Variables P S thr : N.
    Let Hpre' := Hpre H c P.
    Let Hsfx' := Hsfx H S.

    Lemma nofail_prefix f old : hf_prefix o c n P f old = Some (Hpre H c P f, flen f).
    Proof. unfold hf_prefix, failing. rewrite Hnofail. reflexivity. Qed.
    Lemma nofail_suffix f old : hf_suffix o n S f old = Some (hxor old (Hsfx H S f), flen f).
    Proof. unfold hf_suffix, failing. rewrite Hnofail. reflexivity. Qed.
    Lemma nofail_contents f old : hf_contents o n f old = Some (Hfull H f, flen f).
    Proof. unfold hf_contents, failing. rewrite Hnofail. reflexivity. Qed.

    Lemma class_prefix f f' : ok f -> ok f' -> fdata f = fdata f' -> Hpre H c P f = Hpre H c P f'.
    Proof.
      intros Hf Hf' E. unfold Hpre, plen. rewrite E, (same_data_len f f' Hf Hf' E).
      unfold min_prefix_len. reflexivity.
    Qed.
    Lemma class_suffix f f' : ok f -> ok f' -> fdata f = fdata f' -> Hsfx H S f = Hsfx H S f'.
    Proof. intros Hf Hf' E. unfold Hsfx, slen. rewrite E, (same_data_len f f' Hf Hf' E). reflexivity. Qed.
    Lemma class_contents f f' : ok f -> ok f' -> fdata f = fdata f' -> Hfull H f = Hfull H f'.
    Proof. intros Hf Hf' E. unfold Hfull. rewrite E, (same_data_len f f' Hf Hf' E). reflexivity. Qed.

    (* a stage with the permissive post filter *)
    Lemma stage_permissive st pre hf newh gs :
      (forall f old, hf f old = Some (newh f old, flen f)) ->
      (forall f f' old, ok f -> ok f' -> fdata f = fdata f' -> newh f old = newh f' old) ->
      invA gs -> invB gs -> invL gs -> invC gs ->
      let out := rehash n st pre (matches c) hf (map sort_group_by_id gs) in
      invA out /\ invB out /\ invL out /\ invC out.
    Proof.
      intros Hhf Hcl HA HB HL HC out.
      destruct (inv_sort gs HA HB HL) as (HA' & HB' & HL').
      pose proof (step_A st pre hf newh Hhf _ HA') as A.
      pose proof (step_B st pre hf newh Hhf Hcl _ HA' HB') as B.
      pose proof (step_L st pre hf _ HL') as L.
      unfold out. rewrite rehash_unfold.
      destruct (inv_filter (matches c) _ A B L) as (A2 & B2 & L2). repeat split; try apply A2; auto.
      apply (step_C (matches c) gs); auto.
      - intros f Hf. eapply Permutation_in; [symmetry; apply (step_files st pre hf newh Hhf _ HA')|].
        eapply Permutation_in; [symmetry; apply all_files_sort|]. auto.
      - intros g f cl Hg Hf Hok Hcl' Hs. apply (matches_of_class cl g (proj1 Hcl') Hs).
        apply (invB_class _ g f cl B Hg Hf Hcl').
    Qed.
  End Chain.

  (* ---------------------------------------------------------------- finalize *)
  Lemma all_files_finalize gs : Permutation (all_files (finalize c gs)) (all_files gs).
  Proof.
    unfold finalize, all_files. rewrite flat_map_concat_map, map_map, <- flat_map_concat_map.
    rewrite (flat_map_perm_pointwise _ gfiles).
    - apply flat_map_perm. apply isort_perm.
    - intros g _. cbn [gfiles]. apply sort_by_path_perm.
  Qed.

  Lemma finalize_has gs g0 : In g0 gs -> exists g, In g (finalize c gs) /\ glen g = glen g0 /\ ghash g = ghash g0 /\
                                                  Permutation (gfiles g) (gfiles g0).
  Proof.
    intros Hg0. exists (mkgroup (glen g0) (ghash g0) (sort_by_path (roots c) (gfiles g0))). split.
    - unfold finalize. apply in_map_iff. exists g0. split; auto. apply isort_in; auto.
    - cbn. repeat split; auto. apply sort_by_path_perm.
  Qed.

  (* ---------------------------------------------------------------- the whole pipeline, no transform *)
  Hypothesis Hcf : collision_free H c scanned.
  Hypothesis Htr : transform c = false.
  Hypothesis Hskip : skip_content c = false.

  Let P := prefix_len_of c g1.
  Let g2 := group_by_prefix o c n P g1.
  Let S := suffix_len_of c (map sort_group_by_id g2).
  Let thr := suffix_threshold_of c (map sort_group_by_id g2).
  Let g3 := rehash n StSuffix (pre_suffix thr S) (matches c) (hf_suffix o n S) (map sort_group_by_id g2).
  Let raw4 := rehash_raw n StContents (pre_contents P) (hf_contents o n) (map sort_group_by_id g3).
  Let g4 := filter (matches_strictly c) raw4.

  Lemma pipeline_is_g4 : pipeline o c n scanned = g4.
  Proof. unfold pipeline. rewrite Htr, Hskip. reflexivity. Qed.

  Lemma g2_inv : invA g2 /\ invB g2 /\ invL g2 /\ invC g2.
  Proof.
    destruct stage1_inv as (A & B & L & C).
    apply (stage_permissive StPrefix pre_multi (hf_prefix o c n P) (fun f _ => Hpre H c P f) g1); auto.
    - apply nofail_prefix.
    - intros f f' _. apply class_prefix.
  Qed.
  Lemma g3_inv : invA g3 /\ invB g3 /\ invL g3 /\ invC g3.
  Proof.
    destruct g2_inv as (A & B & L & C).
    apply (stage_permissive StSuffix (pre_suffix thr S) (hf_suffix o n S) (fun f old => hxor old (Hsfx H S f)) g2); auto.
    - apply nofail_suffix.
    - intros f f' old Hf Hf' E. f_equal. apply class_suffix; auto.
  Qed.

  Lemma g2_I1 g : In g g2 -> I1 H c scanned P g.
  Proof.
    intros Hg. apply (prefix_stage H T c n scanned Hnd Hids P S g1 g); auto.
    intros g0 Hg0. apply (early_gbase c scanned g0 Hg0).
  Qed.
  Lemma g3_I2 g : In g g3 -> I2 H c scanned P S g.
  Proof. intros Hg. apply (suffix_stage H T c n scanned Hnd Hids P S thr g2 g); auto. apply g2_I1. Qed.
  Lemma raw4_I3 g : In g raw4 -> I3 H c scanned P S g.
  Proof. intros Hg. apply (contents_stage_raw H T c n scanned Hnd Hids P S g3 g); auto. apply g3_I2. Qed.

  Lemma raw4_same_data g f f' : In g raw4 -> In f (gfiles g) -> In f' (gfiles g) -> fdata f = fdata f'.
  Proof.
    intros Hg Hf Hf'.
    apply (I3_sound H c scanned Hids Hlen Hcf P S g (suffix_len_of_cands c _) (raw4_I3 g Hg) f f' Hf Hf').
  Qed.

  Lemma raw4_inv : invA raw4 /\ invB raw4 /\ invL raw4.
  Proof.
    destruct g3_inv as (A & B & L & _). destruct (inv_sort g3 A B L) as (A' & B' & L').
    split; [|split].
    - apply (step_A StContents (pre_contents P) (hf_contents o n) (fun f _ => Hfull H f)); auto. apply nofail_contents.
    - apply (step_B StContents (pre_contents P) (hf_contents o n) (fun f _ => Hfull H f)); auto.
      + apply nofail_contents.
      + intros f f' _. apply class_contents.
    - apply (step_L StContents (pre_contents P) (hf_contents o n)); auto.
  Qed.

  (* a group of raw4 is exactly the content class of each of its members *)
  Lemma raw4_class g f : In g raw4 -> In f (gfiles g) -> is_class f (gfiles g).
  Proof.
    intros Hg Hf. destruct raw4_inv as ([A1 A2] & B & _). split.
    - apply (NoDup_flat_map_member gfiles raw4 g A1 Hg).
    - intros x. split.
      + intros Hx. split; [apply A2; eapply all_files_in; eauto|]. apply (raw4_same_data g x f Hg Hx Hf).
      + intros [Hok E]. eapply B; eauto.
  Qed.

  Lemma class_unique f cl cl' : is_class f cl -> is_class f cl' ->
    matches_strictly c (mkgroup 0 [] cl) = matches_strictly c (mkgroup 0 [] cl').
  Proof.
    intros [N1 H1] [N2 H2]. apply (strict_of_class cl' (mkgroup 0 [] cl)); auto.
    intros x. cbn [gfiles]. rewrite H1, H2. tauto.
  Qed.

  Lemma matches_strictly_files g : matches_strictly c g = matches_strictly c (mkgroup 0 [] (gfiles g)).
  Proof. reflexivity. Qed.

  Lemma g4_inv : invA g4 /\ invB g4 /\ invL g4 /\ invC g4.
  Proof.
    destruct raw4_inv as (A & B & L). destruct g3_inv as (A3 & B3 & L3 & C3).
    destruct (inv_sort g3 A3 B3 L3) as (A' & B' & L').
    destruct (inv_filter (matches_strictly c) _ A B L) as (A4 & B4 & L4). repeat split; try apply A4; auto.
    apply (step_C (matches_strictly c) g3); auto.
    - intros f Hf. eapply Permutation_in.
      + symmetry. apply (step_files StContents (pre_contents P) (hf_contents o n) (fun f _ => Hfull H f)); auto.
        apply nofail_contents.
      + eapply Permutation_in; [symmetry; apply all_files_sort|]. auto.
    - intros g f cl Hg Hf Hok Hcl Hs. rewrite matches_strictly_files.
      rewrite (class_unique f (gfiles g) cl (raw4_class g f Hg Hf) Hcl). exact Hs.
  Qed.

  Lemma g4_qualifies g f : In g g4 -> In f (gfiles g) -> qualifies f.
  Proof.
    intros Hg Hf. unfold g4 in Hg. apply filter_In in Hg. destruct Hg as [Hg Hs].
    exists (gfiles g). split; [apply raw4_class; auto|]. rewrite <- matches_strictly_files. exact Hs.
  Qed.

  (* ---------------------------------------------------------------- C03 / C06 over group_files *)
  Theorem c03_partition :
    let out := group_files H T c n scanned in
    (NoDup (all_files out) /\ forall f, In f (all_files out) -> ok f) /\
    (forall g f f', In g out -> In f (gfiles g) -> ok f' -> fdata f' = fdata f -> In f' (gfiles g)) /\
    (forall g g' f f', In g out -> In g' out -> In f (gfiles g) -> In f' (gfiles g') -> fdata f = fdata f' -> g = g') /\
    (forall f, ok f -> qualifies f -> exists g, In g out /\ In f (gfiles g)).
  Proof.
    intros out. unfold out, group_files, group_files_gen. fold o. rewrite pipeline_is_g4.
    destruct g4_inv as ([A1 A2] & B & _ & C).
    assert (HA : NoDup (all_files (finalize c g4)) /\ forall f, In f (all_files (finalize c g4)) -> ok f).
    { split.
      - eapply Permutation_NoDup; [symmetry; apply all_files_finalize|auto].
      - intros f Hf. apply A2. eapply Permutation_in; [apply all_files_finalize|auto]. }
    assert (HB : forall g f f', In g (finalize c g4) -> In f (gfiles g) -> ok f' -> fdata f' = fdata f -> In f' (gfiles g)).
    { intros g f f' Hg Hf Hok' E. apply finalize_in in Hg. destruct Hg as (g0 & Hg0 & _ & _ & Hp).
      eapply Permutation_in; [symmetry; exact Hp|]. eapply B; eauto. eapply Permutation_in; eauto. }
    split; [exact HA|]. split; [exact HB|]. split.
    - intros g g' f f' Hg Hg' Hf Hf' E. destruct HA as [HA1 HA2].
      assert (Hok' : ok f') by (apply HA2; eapply all_files_in; eauto).
      assert (Hf'g : In f' (gfiles g)) by (eapply HB; eauto).
      apply (NoDup_flat_map_unique gfiles _ g g' f' HA1 Hg Hg' Hf'g Hf').
    - intros f Hok Hq. destruct (C f Hok Hq) as (g0 & Hg0 & Hf0).
      destruct (finalize_has g4 g0 Hg0) as (g & Hg & _ & _ & Hp). exists g. split; auto.
      eapply Permutation_in; [symmetry; exact Hp|auto].
  Qed.

  Theorem c06_reported_iff :
    let out := group_files H T c n scanned in
    (forall f, ok f -> ((exists g, In g out /\ In f (gfiles g)) <-> qualifies f)) /\
    (forall g f, In g out -> In f (gfiles g) -> is_class f (gfiles g) /\ matches_strictly c g = true).
  Proof.
    intros out.
    assert (Hcls : forall g f, In g out -> In f (gfiles g) -> is_class f (gfiles g) /\ matches_strictly c g = true).
    { intros g f Hg Hf. unfold out, group_files, group_files_gen in Hg. fold o in Hg. rewrite pipeline_is_g4 in Hg.
      apply finalize_in in Hg. destruct Hg as (g0 & Hg0 & _ & _ & Hp).
      assert (Hf0 : In f (gfiles g0)) by (eapply Permutation_in; eauto).
      unfold g4 in Hg0. apply filter_In in Hg0. destruct Hg0 as [Hg0 Hs].
      destruct (raw4_class g0 f Hg0 Hf0) as [N0 Hc0].
      assert (Hcl : is_class f (gfiles g)).
      { split.
        - eapply Permutation_NoDup; [symmetry; exact Hp|auto].
        - intros x. rewrite <- Hc0. split; apply Permutation_in; [|symmetry]; auto. }
      split; auto. rewrite matches_strictly_files.
      rewrite (class_unique f (gfiles g) (gfiles g0) Hcl (conj N0 Hc0)). rewrite <- matches_strictly_files. exact Hs. }
    split; auto. intros f Hok. split.
    - intros (g & Hg & Hf). destruct (Hcls g f Hg Hf) as [Hcl Hs]. exists (gfiles g). split; auto.
    - intros Hq. destruct c03_partition as (_ & _ & _ & C). apply C; auto.
  Qed.
End Complete.
