(* EffectsProofs8.v — engine X, part 8: `move` on a report: the commands dedupe() emits for OpMove form a
   [moves_ok] run, so the whole-run theorems of EffectsProofs7 apply (every order, every fault oracle). *)
From Coq Require Import Permutation.
From FV Require Import Base SortLib DedupeModel DedupeProofs.
From FV Require Import FsModel AtomicModel AtomicProofs AtomicProofs2 AtomicProofs3 AtomicProofs4.
From FV Require Import EffectsModel EffectsProofs EffectsProofs2 EffectsProofs3 EffectsProofs4 EffectsProofs5 EffectsProofs6 EffectsProofs7.
Open Scope N_scope.

Section MoveReport.
  Variables (ax : aux) (e : env) (dir : path) (c : dcfg) (sm : path -> path -> bool) (s : fs) (r : report).
  Let op := OpMove dir.
  Hypothesis Hro : report_ok s r.
  Hypothesis Hwf : wf s.
  Let cs := run_cmds ax op c sm s r.
  Hypothesis Hreg : victims_regular s cs.
  Let fcs := map (fcmd_of e) cs.

  Lemma move_cmds_shape x : In x cs -> exists src rn, x = Move src (move_target dir (mpath src)) rn.
  Proof.
    unfold cs, run_cmds, script_items. intros Hx. apply in_concat in Hx. destruct Hx as (l & Hl & Hx).
    apply in_map_iff in Hl. destruct Hl as (g & <- & _). unfold group_script, dedupe_group in Hx.
    destruct (opt_seq _) as [files|]; [|destruct Hx]. cbn [group_cmds] in Hx. apply in_flat_map in Hx. destruct Hx as (pr & Hpr & Hx).
    apply in_map_iff in Hpr. destruct Hpr as (part & <- & _). cbn [snd] in Hx.
    destruct (partition c (glen g) part) as [[k d]| |]; try (destruct Hx; fail).
    unfold script_o in Hx. destruct d; [destruct Hx|]. destruct k; [destruct Hx|]. apply in_map_iff in Hx. destruct Hx as (y & <- & _).
    unfold op. eauto.
  Qed.

  Theorem report_moves_ok : moves_ok s fcs.
  Proof.
    split; [|split; [|exact Hwf]].
    - rewrite Forall_forall. intros fc Hfc. unfold fcs in Hfc. apply in_map_iff in Hfc. destruct Hfc as (x & <- & Hx).
      destruct (move_cmds_shape x Hx) as (src & rn & ->). cbn [fcmd_of move_src_ok].
      destruct (Hreg _ Hx) as (i & d & Ei & Ed). cbn [cmd_victim] in Ei. split; [|eauto].
      destruct Hro as (_ & Hnorm & _). apply Hnorm. apply (V_in ax op c sm s r). unfold cs in Hx.
      apply in_map_iff. exists (Move src (move_target dir (mpath src)) rn). split; [reflexivity|exact Hx].
    - unfold fcs, cs. rewrite (map_victim_fcs ax e op c sm s r). eapply subperm_NoDup; [apply V_sub|]. apply Hro.
  Qed.

  Lemma kept_not_source m : In m (all_kept ax op c s r) -> ~ In (mpath m) (map victim fcs).
  Proof.
    intros Hm Hin. unfold fcs, cs in Hin. rewrite (map_victim_fcs ax e op c sm s r) in Hin.
    pose proof (VK_nodup ax op c sm s r Hro) as Hn. apply NoDup_app_inv in Hn. destruct Hn as (_ & _ & Hd).
    apply (Hd _ Hin). now apply in_map.
  Qed.

  (* every order (cs' is any permutation), every fault oracle o *)
  Theorem c02_move sl o i cs' : Permutation fcs cs' ->
    let st := sfs (run_script sl o i cs' s) in
    (forall b, stored s b -> stored st b) /\
    (forall p j, ~ In p (rpaths r) -> names s p = Some (NFile j) -> untouched s st p) /\
    (forall p, names s p = Some NDir -> names st p = Some NDir) /\
    (forall m j, In m (all_kept ax op c s r) -> names s (mpath m) = Some (NFile j) -> untouched s st (mpath m)).
  Proof.
    intros HP. pose proof (moves_ok_perm _ _ _ HP report_moves_ok) as Hok.
    destruct (moves_run sl o cs' i s Hok) as (H1 & H2 & H3 & _).
    assert (Hvic : forall p, In p (map victim cs') -> In p (map victim fcs)).
    { intros p Hp. eapply Permutation_in; [apply Permutation_sym, Permutation_map, HP|exact Hp]. }
    split; [exact H1|]. split; [|split; [exact H3|]].
    - intros p j Hp E. apply (H2 p j); auto. intros Hin. apply Hp. specialize (Hvic _ Hin).
      unfold fcs, cs in Hvic. rewrite (map_victim_fcs ax e op c sm s r) in Hvic. eapply V_in; eauto.
    - intros m j Hm E. apply (H2 _ j); auto. intros Hin. apply (kept_not_source m Hm). auto.
  Qed.

  Theorem c02_move_readable sl o i cs' : Permutation fcs cs' ->
    let out := run_script sl o i cs' s in
    forall fc res, In (fc, res) (combine cs' (sresults out)) -> res = IOk ->
    forall i0 d0, names s (victim fc) = Some (NFile i0) -> inodes s i0 = Some d0 ->
    exists j dj, names (sfs out) (move_target_of fc) = Some (NFile j) /\ inodes (sfs out) j = Some dj /\ ibytes dj = ibytes d0.
  Proof.
    intros HP. pose proof (moves_ok_perm _ _ _ HP report_moves_ok) as Hok.
    apply (moves_readable sl o cs' i s Hok).
  Qed.

  (* the target of the command for a dropped file is move_target DIR path (normalised by the kernel) *)
  Lemma move_target_shape fc : In fc fcs -> exists src rn now, fc = FMove (mpath src) (move_target dir (mpath src)) rn now.
  Proof.
    unfold fcs. intros Hfc. apply in_map_iff in Hfc. destruct Hfc as (x & <- & Hx).
    destruct (move_cmds_shape x Hx) as (src & rn & ->). cbn [fcmd_of]. eauto.
  Qed.
End MoveReport.
