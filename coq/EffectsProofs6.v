(* EffectsProofs6.v — engine X, part 6: `move`.  A frame for FMove under EVERY fault oracle (engine A's proof rule
   [safe]): a Move command changes no existing regular file or directory other than its own source and no inode
   that existed; a successful Move leaves the source's bytes in a regular file.  Hence a whole run of moves, in any
   order and under any oracle, preserves every stored content and leaves every regular file that is not a source
   untouched. *)
From Coq Require Import Permutation.
From FV Require Import Base FsModel AtomicModel AtomicProofs AtomicProofs2 AtomicProofs3 AtomicProofs4 EffectsModel EffectsProofs EffectsProofs2.
Open Scope N_scope.

(* st keeps everything of s0 except (possibly) the name src *)
Definition keeps (s0 st : fs) (src : path) : Prop :=
  (forall q i, q <> src -> names s0 q = Some (NFile i) -> names st q = Some (NFile i)) /\
  (forall q, names s0 q = Some NDir -> names st q = Some NDir) /\
  (forall i, i < next s0 -> inodes st i = inodes s0 i) /\
  locks st = locks s0 /\ next s0 <= next st /\ wf st /\
  (forall q x, names st q = Some (NLink x) -> names s0 q = Some (NLink x)).

Lemma rename_ok_not_dir a b s : clean a -> clean b -> fst (do_call None (Rename a b) s) = ROk -> names s b <> Some NDir.
Proof.
  intros Ha Hb. cbn [do_call]. unfold nat_call. cbn [ncall]. rewrite !norm_of_clean by auto. cbn [nat_ncall].
  intros H E. rewrite E in H.
  destruct (names s a) as [[i| |t]|]; cbn [fst] in H; try discriminate;
    destruct (negb (is_dir s (parent b))); cbn [fst] in H; discriminate.
Qed.

Section MoveFrame.
  Variables (s : fs) (src tgt : path) (rn : bool) (now : Z) (i0 : N) (d0 : inode).
  Let tg := norm tgt.
  Hypothesis Ea : names s src = Some (NFile i0).
  Hypothesis Ed : inodes s i0 = Some d0.
  Hypothesis Ca : clean src.
  Hypothesis Hwf : wf s.

  (* the result of the command *)
  Definition mvQ (st : fs) (r : io) : Prop :=
    keeps s st src /\
    (r = IErr -> names st src = Some (NFile i0)) /\
    (r = IOk -> exists q j dj, q <> src /\ names st q = Some (NFile j) /\ inodes st j = Some dj /\ ibytes dj = ibytes d0 /\
                               (forall i, names s q <> Some (NFile i)) /\
                               q = tg).
  Let P : fs -> Prop := fun _ => True.
  Let Q : fs -> io -> nat -> nat -> Prop := fun st r _ _ => mvQ st r.

  Lemma i0_lt : i0 < next s. Proof. destruct Hwf as [H _]. eapply H; eauto. Qed.

  Lemma keeps_dirs st : dirs_added s st -> keeps s st src /\ names st src = Some (NFile i0).
  Proof.
    intros Hd. destruct (A_src s src i0 d0 Ea Ed st Hd) as (E & Ei & En). split; [|exact E].
    pose proof Hd as (Hn & Hi & Hl & Hx).
    split; [intros q i _ Eq; eapply dirs_added_keeps; eauto|]. split; [intros q Eq; eapply dirs_added_keeps; eauto|].
    split; [intros i _; now rewrite Hi|]. split; [exact Hl|]. split; [lia|]. split.
    - destruct Hwf as [W1 W2]. split.
      + intros q i Eq. destruct (Hn q) as [E'|[_ E']]; [|congruence]. rewrite En. apply (W1 q). congruence.
      + intros i Hi'. rewrite Hi. apply W2. lia.
    - intros q x Eq. destruct (Hn q) as [E'|[_ E']]; congruence.
  Qed.
  Lemma QErr_dirs st w nf : dirs_added s st -> Q st IErr w nf.
  Proof. intros Hd. destruct (keeps_dirs st Hd) as [K E]. split; [exact K|]. split; [auto|discriminate]. Qed.

  (* a new file appears at a free name *)
  Lemma keeps_create st q d : dirs_added s st -> names st q = None -> keeps s (create_at st q d) src /\
    names (create_at st q d) src = Some (NFile i0).
  Proof.
    intros Hd Hq. destruct (keeps_dirs st Hd) as [(K1 & K2 & K3 & K4 & K5 & K6 & K7) E].
    destruct (A_src s src i0 d0 Ea Ed st Hd) as (_ & _ & En).
    assert (Hqs : q <> src) by congruence.
    split; [|rewrite names_create_other by auto; exact E].
    split; [|split; [|split; [|split; [|split; [|split]]]]].
    - intros q' i Hne Eq. specialize (K1 q' i Hne Eq). rewrite names_create_other; [exact K1|congruence].
    - intros q' Eq. specialize (K2 q' Eq). rewrite names_create_other; [exact K2|congruence].
    - intros i Hi. rewrite inodes_create_other by (rewrite En; lia). auto.
    - exact K4.
    - cbn [next create_at]. lia.
    - now apply wf_create.
    - intros q' x Eq. destruct (path_eqb_spec q q') as [<-|Hne].
      + rewrite names_create_same in Eq. discriminate.
      + rewrite names_create_other in Eq by auto. auto.
  Qed.

  Lemma move_copy_frame st w nf : dirs_added s st -> safe P Q (move_copy src tgt now) st w nf.
  Proof.
    intros Hd. unfold move_copy.
    apply (mkdirs_of_safe P Q st); [intros; exact I| |apply dirs_added_refl].
    intros st' r w' nf' Hd'.
    assert (Hd2 : dirs_added s st') by (eapply dirs_added_trans; eauto).
    destruct r as [|e0]; [|cbn [safe]; split; [exact I|apply QErr_dirs; auto]].
    apply safe_Do_query_eval; [reflexivity|exact I|].
    rewrite lexists_eval_norm. fold tg. destruct (lexists st' tg) eqn:Hex.
    { cbn [safe]. split; [exact I|apply QErr_dirs; auto]. }
    pose proof (not_lexists_no_file st' st' tg (dirs_added_refl st') Hex) as Hnf.
    cbn [safe]. split; [exact I|]. split; [intros; exact I|].
    intros [ft|] _.
    - rewrite do_call_fault by reflexivity. cbn [fst snd ncall fail_nstate]. rewrite (norm_of_clean src) by auto.
      destruct (fpartial ft) as [n|]; [|cbn [safe]; split; [exact I|apply QErr_dirs; auto]].
      destruct (partial_cases s src tgt now i0 d0 Ea Ed st' n Hd2 Hnf) as [->|(q & Hq & ->)]; cbn [safe].
      + split; [exact I|apply QErr_dirs; auto].
      + split; [exact I|]. destruct (keeps_create st' q (mkInode (take n (ibytes d0)) now) Hd2 Hq) as [K E]. split; [exact K|]. split; [auto|discriminate].
    - destruct (copy_cases s src tgt now i0 d0 Ea Ed Ca st' Hd2 Hnf) as [(e1 & ->)|(q & Hq & Fq & ->)]; cbn [fst snd].
      { cbn [safe]. split; [exact I|apply QErr_dirs; auto]. }
      set (st2 := create_at st' q (mkInode (ibytes d0) now)).
      destruct (keeps_create st' q (mkInode (ibytes d0) now) Hd2 Hq) as [K2 E2]. fold st2 in K2, E2.
      destruct (A_src s src i0 d0 Ea Ed st' Hd2) as (E' & Ei' & En').
      assert (Hqs : q <> src) by congruence.
      apply safe_Do_nocopy; try (intros; discriminate); try reflexivity; try exact I.
      + intros ft. cbn [ok_of safe]. split; [exact I|]. split; [exact K2|]. split; [auto|discriminate].
      + rewrite (unlink_ok src st2 (NFile i0)) by (auto; discriminate). cbn [fst snd ok_of safe].
        split; [exact I|]. destruct K2 as (K1 & K2' & K3 & K4 & K5 & K6 & K7).
        split; [|split; [discriminate|]].
        * split; [|split; [|split; [|split; [|split; [|split]]]]]; auto.
          -- intros q' i Hne Eq. rewrite names_set_other by congruence. auto.
          -- intros q' Eq. rewrite names_set_other; [auto|]. intros <-. congruence.
          -- now apply wf_set_none.
          -- intros q' x Eq. destruct (path_eqb_spec src q') as [<-|Hne]; [rewrite names_set_same in Eq; discriminate|].
             rewrite names_set_other in Eq by auto. auto.
        * intros _. exists q, (next st'), (mkInode (ibytes d0) now). split; [exact Hqs|]. split; [|split; [|split; [reflexivity|split]]].
          -- rewrite names_set_other by congruence. unfold st2. apply names_create_same.
          -- cbn [inodes set_name]. unfold st2. apply inodes_create_same.
          -- intros i Ei. pose proof (dirs_added_keeps _ _ _ _ Hd2 Ei). congruence.
          -- (* nothing is at the target (the check does not follow links), so the new file is the target itself *)
             assert (Hq' : names st' tg = None) by (unfold lexists in Hex; destruct (names st' tg); [discriminate|reflexivity]).
             fold tg in Fq. rewrite (follow_none _ _ Hq') in Fq. now injection Fq as <-.
  Qed.

  Lemma move_body_frame w nf :
    safe P Q (if rn then move_rename src tgt (fun r => match r with IOk => Ret IOk | IErr => move_copy src tgt now end)
              else move_copy src tgt now) s w nf.
  Proof.
    destruct rn; [|apply move_copy_frame, dirs_added_refl].
    unfold move_rename.
    apply (mkdirs_of_safe P Q s); [intros; exact I| |apply dirs_added_refl].
    intros st r w' nf' Hd. destruct r as [|e']; [|apply move_copy_frame; auto].
    apply safe_Do_query_eval; [reflexivity|exact I|].
    rewrite lexists_eval_norm. fold tg. destruct (lexists st tg) eqn:Hex; [apply move_copy_frame; auto|].
    destruct (A_src s src i0 d0 Ea Ed st Hd) as (E & Ei & En).
    pose proof (not_lexists_no_file st st tg (dirs_added_refl st) Hex) as Hnf.
    apply safe_Do_nocopy; try (intros; discriminate); try reflexivity; try exact I.
    - intros ft. cbn [ok_of]. apply move_copy_frame; auto.
    - assert (Ctg : clean tg) by apply norm_clean.
      assert (Hren : do_call None (Rename src tgt) st = do_call None (Rename src tg) st).
      { cbn [do_call]. unfold nat_call. cbn [ncall]. unfold tg. now rewrite norm_idem. }
      rewrite Hren.
      pose proof (rename_ok_not_dir src tg st Ca Ctg) as Hnd.
      destruct (rename_nat src tg st Ca Ctg) as [(e' & Hr)|(n & En' & Hnd' & [Hr|(Hr & Etg & i & Hi)])]; rewrite Hr in *; cbn [fst snd ok_of] in *.
      + apply move_copy_frame; auto.
      + rewrite E in En'. injection En' as <-. specialize (Hnd eq_refl).
        destruct (keeps_dirs st Hd) as [(K1 & K2 & K3 & K4 & K5 & K6 & K7) _].
        assert (Hts : tg <> src).
        { intros Ets. apply (Hnf src i0). rewrite Ets. apply follow_file. exact E. }
        cbn [safe]. split; [exact I|]. split; [|split; [discriminate|]].
        * split; [|split; [|split; [|split; [|split; [|split]]]]]; auto.
          -- intros q i Hne Eq. specialize (K1 q i Hne Eq).
             assert (q <> tg) by (intros ->; apply (Hnf tg i); apply follow_file; exact K1).
             rewrite !names_set_other by congruence. exact K1.
          -- intros q Eq. specialize (K2 q Eq).
             assert (q <> tg) by (intros ->; congruence). assert (q <> src) by (intros ->; congruence).
             rewrite !names_set_other by congruence. exact K2.
          -- apply wf_set_some; [apply wf_set_none; exact K6|]. intros j Ej. injection Ej as <-. cbn [next set_name]. rewrite En. apply i0_lt.
          -- intros q x Eq. destruct (path_eqb_spec tg q) as [<-|Hne1]; [rewrite names_set_same in Eq; discriminate|].
             rewrite names_set_other in Eq by auto.
             destruct (path_eqb_spec src q) as [<-|Hne2]; [rewrite names_set_same in Eq; discriminate|].
             rewrite names_set_other in Eq by auto. auto.
        * intros _. exists tg, i0, d0. split; [exact Hts|]. split; [now rewrite names_set_same|]. split; [exact Ei|]. split; [reflexivity|]. split; [|reflexivity].
          intros i Ei'. pose proof (dirs_added_keeps _ _ _ _ Hd Ei') as E3. apply (Hnf tg i). apply follow_file. exact E3.
      + (* rename onto a hard link of the same file: impossible here, the target does not resolve to a file *)
        exfalso. rewrite E in En'. injection En' as <-. apply (Hnf tg i0). apply follow_file. congruence.
  Qed.

  Theorem move_frame sl : safe P Q (prog_of sl (FMove src tgt rn now)) s 0 0.
  Proof.
    cbn [prog_of]. eapply safe_prelude; eauto; [exact I| |].
    - intros nf'. apply QErr_dirs, dirs_added_refl.
    - intros nf' _. apply move_body_frame.
  Qed.

  Corollary move_result sl o i : mvQ (ofs (run o i (prog_of sl (FMove src tgt rn now)) s)) (ores (run o i (prog_of sl (FMove src tgt rn now)) s)).
  Proof. exact (safe_final P Q _ s (move_frame sl) o i). Qed.
End MoveFrame.
