(* Extract_D.v — extraction of the dedupe model (engine D) for the correspondence harness. *)
From Coq Require Import Extraction ExtrOcamlBasic.
From FV Require Import Base SortLib DedupeModel.
Extraction Language OCaml.
(* `partition` would clash with List.partition in the extracted module *)
Definition d_partition := DedupeModel.partition.
Extraction "extracted/ex_D.ml" d_partition script_o dedupe_group group_cmds keep_rule drop_rule merge explicit
  survivors subgroups cmd_victim hist_run final stat_of trunc_ms N.of_nat Z.of_N.
