(* DedupeProofs3.v — C04: a stale report never removes changed data (history model of DedupeModel.v). *)
From Coq Require Import Permutation Sorted.
From FV Require Import Base SortLib DedupeModel DedupeProofs.
Open Scope Z_scope.

(* ------------------------------------------------------------------ list facts *)
Lemma NoDup_app_inv {A} (l1 l2 : list A) : NoDup (l1 ++ l2) ->
  NoDup l1 /\ NoDup l2 /\ (forall a, In a l1 -> In a l2 -> False).
Proof.
  induction l1 as [|x l1 IH]; cbn [app]; intros H.
  - repeat split; auto. constructor.
  - inversion H as [|? ? Hni Hnd]; subst. destruct (IH Hnd) as (A1 & A2 & A3). repeat split; auto.
    + constructor; auto. intros Hin. apply Hni, in_or_app. left. exact Hin.
    + intros a [<-|Ha] Ha2; [apply Hni, in_or_app; right; exact Ha2|eapply A3; eauto].
Qed.

Lemma nodup_concat_unique {A} (ls : list (list A)) l1 l2 a : NoDup (concat ls) ->
  In l1 ls -> In l2 ls -> In a l1 -> In a l2 -> l1 = l2.
Proof.
  induction ls as [|l ls IH]; cbn [concat]; intros Hnd H1 H2 Ha1 Ha2; [contradiction|].
  destruct (NoDup_app_inv _ _ Hnd) as (N1 & N2 & N3).
  destruct H1 as [<-|H1], H2 as [<-|H2]; auto.
  - exfalso. apply (N3 a Ha1). apply in_concat_iff. exists l2. auto.
  - exfalso. apply (N3 a Ha2). apply in_concat_iff. exists l1. auto.
Qed.

Lemma nodup_concat_part {A} (ls : list (list A)) l : NoDup (concat ls) -> In l ls -> NoDup l.
Proof.
  induction ls as [|l0 ls IH]; cbn [concat]; intros Hnd H; [contradiction|].
  destruct (NoDup_app_inv _ _ Hnd) as (N1 & N2 & _). destruct H as [<-|H]; auto.
Qed.

Lemma NoDup_map_inv' {A B} (f : A -> B) l : NoDup (map f l) -> NoDup l.
Proof.
  induction l as [|x l IH]; cbn [map]; intros H; constructor; inversion H; subst; auto.
  intros Hin. apply H2. apply in_map, Hin.
Qed.

Lemma NoDup_filter {A} (p : A -> bool) l : NoDup l -> NoDup (filter p l).
Proof.
  induction 1 as [|x l Hni Hnd IH]; cbn [filter]; [constructor|].
  destruct (p x); auto. constructor; auto. intros Hin. apply Hni. apply filter_In in Hin. tauto.
Qed.

Lemma opt_seq_some {A B} (f : A -> option B) l r : opt_seq (map f l) = Some r ->
  length r = length l /\ (forall y, In y r -> exists x, In x l /\ f x = Some y) /\
  (forall (g : B -> path) (h : A -> path), (forall x y, f x = Some y -> g y = h x) -> map g r = map h l).
Proof.
  revert r. induction l as [|x l IH]; cbn [map opt_seq]; intros r H.
  - injection H as <-. repeat split; auto. intros y [].
  - destruct (f x) as [y|] eqn:E; [|discriminate].
    destruct (opt_seq (map f l)) as [r'|]; [|discriminate]. injection H as <-.
    destruct (IH r' eq_refl) as (A1 & A2 & A3). repeat split.
    + cbn [length]. f_equal. exact A1.
    + intros z [<-|Hz]; [exists x; split; [left; reflexivity|exact E]|].
      destruct (A2 z Hz) as (x' & Hx' & E'). exists x'. split; [right; exact Hx'|exact E'].
    + intros g h Hgh. cbn [map]. f_equal; [apply Hgh, E|apply A3, Hgh].
Qed.

(* ------------------------------------------------------------------ histories *)
Definition unchanged (D : data) (m : hmember) : Prop := final D m = NFile D (hm0 m).

Lemma final_after ts D m : (forall t o, In (t, o) (hops m) -> ts < t) ->
  forall d mt, final D m = NFile d mt -> mt <= ts -> unchanged D m.
Proof.
  unfold unchanged, final. intros Hops.
  set (P := fun n : node => n = NFile D (hm0 m) \/ match n with NFile _ t => ts < t | _ => True end).
  assert (G : forall ops n, (forall t o, In (t, o) ops -> ts < t) -> P n -> P (fold_left apply_op ops n)).
  { induction ops as [|[t o] ops IH]; intros n Hall Hn; cbn [fold_left]; auto.
    apply IH; [intros t' o' H'; apply (Hall t' o'); right; exact H'|].
    assert (Ht : ts < t) by (apply (Hall t o); left; reflexivity).
    unfold P in *. destruct o, n; cbn [apply_op]; auto; try (right; exact Ht); try (right; exact I). }
  intros d mt Hf Hmt. specialize (G (hops m) (NFile D (hm0 m)) Hops (or_introl eq_refl)).
  destruct G as [G|G]; auto. rewrite Hf in G. lia.
Qed.

Lemma stat_of_path m n v : stat_of m n = Some v -> mpath v = mpath (hbase m).
Proof. destruct n; cbn [stat_of]; intros H; try discriminate; injection H as <-; reflexivity. Qed.

Lemma stat_of_file m n v : stat_of m n = Some v -> mfile v = true ->
  exists d mt, n = NFile d mt /\ mmtime v = Some mt.
Proof.
  destruct n as [| |d mt]; cbn [stat_of]; intros H Hf; try discriminate; injection H as <-; cbn in Hf; try discriminate.
  exists d, mt. split; reflexivity.
Qed.

Lemma survivors_in c glen ms v : In v (survivors c glen ms) -> In v ms /\ mfile v = true.
Proof.
  unfold survivors. destruct (no_size c); intros H.
  - apply filter_In in H. exact H.
  - apply filter_In in H. destruct H as [H _]. apply filter_In in H. exact H.
Qed.

Lemma survivors_nodup c glen ms : NoDup ms -> NoDup (survivors c glen ms).
Proof. unfold survivors. intros H. destruct (no_size c); repeat apply NoDup_filter; exact H. Qed.

Lemma not_modified_le ts files v mt : was_modified ts files = false -> In v files -> mmtime v = Some mt -> mt <= ts.
Proof.
  unfold was_modified. intros H Hin Hm.
  destruct (Z.leb_spec mt ts) as [Hle|Hgt]; auto. exfalso.
  assert (existsb (modified_after ts) files = true).
  { apply existsb_exists. exists v. split; auto. unfold modified_after. rewrite Hm. apply Z.ltb_lt. exact Hgt. }
  congruence.
Qed.

(* the device classes (or the whole group) dedupe partitions *)
Definition parts_of (op : dop) (files : list meta) : list (list meta) :=
  if cross_device_disallowed op then by_device files else [files].

Lemma parts_of_perm op files : Permutation (concat (parts_of op files)) files.
Proof.
  unfold parts_of. destruct (cross_device_disallowed op); [apply by_device_perm|].
  cbn [concat]. rewrite app_nil_r. apply Permutation_refl.
Qed.

Lemma group_cmds_inv op c sm glen ms x : In x (group_cmds (dedupe_group op c sm glen ms)) ->
  exists files part kept dropped cmds,
    opt_seq ms = Some files /\ In part (parts_of op files) /\
    partition c glen part = Ok (kept, dropped) /\ script_o op sm kept dropped = Ok cmds /\ In x cmds.
Proof.
  unfold dedupe_group, parts_of. destruct (opt_seq ms) as [files|]; [|intros []].
  cbn [group_cmds]. intros H. apply in_flat_map in H. destruct H as (pr & Hpr & Hx).
  apply in_map_iff in Hpr. destruct Hpr as (part & <- & Hpart). cbn [snd] in Hx.
  destruct (partition c glen part) as [[kept dropped]| |] eqn:Ep; try (destruct Hx; fail).
  destruct (script_o op sm kept dropped) as [cmds| |] eqn:Es; try (destruct Hx; fail).
  exists files, part, kept, dropped, cmds. repeat split; auto.
Qed.

Definition hist_safe (D : data) (members : list hmember) (run : gres) : Prop :=
  forall x, In x (group_cmds run) ->
    (* the file the command removes / replaces / moves still has the bytes the group was built on *)
    (exists mv, In mv members /\ stat_of mv (final D mv) = Some (cmd_victim x) /\ unchanged D mv) /\
    (* and an unchanged member with those bytes is not acted upon by any command of the run *)
    (exists mk k, In mk members /\ stat_of mk (final D mk) = Some k /\ unchanged D mk /\
                  forall y, In y (group_cmds run) -> cmd_victim y <> k) /\
    (* a link target is such a member *)
    (forall t, cmd_target x = Some t ->
       exists mt, In mt members /\ stat_of mt (final D mt) = Some t /\ unchanged D mt /\
                  forall y, In y (group_cmds run) -> cmd_victim y <> t).

Section Core.
  Variables (D : data) (members : list hmember) (op : dop) (c : dcfg) (sm : path -> path -> bool) (glen : N).
  Variables (ts tsc : Z).
  Hypothesis Hnd : NoDup (map (fun m => mpath (hbase m)) members).
  Hypothesis Hcut : mbefore c = Some tsc.
  Hypothesis Hle : tsc <= ts.
  Hypothesis Hops : forall m t o, In m members -> In (t, o) (hops m) -> ts < t.
  Let ms := map (fun m => stat_of m (final D m)) members.
  Let run := hist_run D members op c sm glen.

  Lemma files_nodup files : opt_seq ms = Some files -> NoDup files.
  Proof.
    intros H. destruct (opt_seq_some _ _ _ H) as (_ & _ & A3).
    apply (NoDup_map_inv' mpath). rewrite (A3 mpath (fun m => mpath (hbase m))); auto.
    intros m v Hv. eapply stat_of_path, Hv.
  Qed.

  (* every member the partition of a class decides on is unchanged *)
  Lemma decided_unchanged files part kept dropped v :
    opt_seq ms = Some files -> In part (parts_of op files) -> partition c glen part = Ok (kept, dropped) ->
    In v (kept ++ dropped) ->
    exists m, In m members /\ stat_of m (final D m) = Some v /\ unchanged D m.
  Proof.
    intros Hf Hpart Hp Hv.
    apply (Permutation_in _ (c08_members _ _ _ _ _ Hp)) in Hv.
    destruct (survivors_in _ _ _ _ Hv) as [Hin Hfile].
    assert (Hinf : In v files).
    { apply (Permutation_in _ (parts_of_perm op files)). apply in_concat_iff. exists part. auto. }
    destruct (opt_seq_some _ _ _ Hf) as (_ & A2 & _). destruct (A2 v Hinf) as (m & Hm & Hs).
    exists m. repeat split; auto.
    destruct (stat_of_file _ _ _ Hs Hfile) as (d & mt & Hn & Hmt).
    destruct (partition_anatomy _ _ _ _ _ Hp) as (sorted & An).
    pose proof (an_not_modified _ _ _ _ _ _ An) as Hnm. rewrite Hcut in Hnm.
    pose proof (not_modified_le _ _ _ _ Hnm Hv Hmt) as Hmtle.
    eapply (final_after ts); eauto. lia.
  Qed.

  Lemma kept_not_victim files part kept dropped k y :
    opt_seq ms = Some files -> In part (parts_of op files) -> partition c glen part = Ok (kept, dropped) ->
    In k kept -> In y (group_cmds run) -> cmd_victim y <> k.
  Proof.
    intros Hf Hpart Hp Hk Hy Heq.
    destruct (group_cmds_inv _ _ _ _ _ _ Hy) as (files' & part' & kept' & dropped' & cmds' & Hf' & Hpart' & Hp' & Hs' & Hy').
    fold ms in Hf'. rewrite Hf in Hf'. injection Hf' as <-.
    assert (Hvd : In k dropped').
    { destruct (c08_script op sm _ _ _ _ _ Hp') as (cmds2 & Hs2 & Hv2 & _). rewrite Hs' in Hs2. injection Hs2 as <-.
      rewrite <- Hv2, <- Heq. apply in_map, Hy'. }
    pose proof (files_nodup _ Hf) as Hndf.
    assert (Hndc : NoDup (concat (parts_of op files))).
    { eapply Permutation_NoDup; [apply Permutation_sym, parts_of_perm|exact Hndf]. }
    assert (Hkp : In k part).
    { apply (survivors_in c glen). apply (Permutation_in _ (c08_members _ _ _ _ _ Hp)). apply in_or_app. left. exact Hk. }
    assert (Hkp' : In k part').
    { apply (survivors_in c glen). apply (Permutation_in _ (c08_members _ _ _ _ _ Hp')). apply in_or_app. right. exact Hvd. }
    assert (part = part') as <- by (eapply nodup_concat_unique; eauto).
    rewrite Hp in Hp'. injection Hp' as <- <-.
    assert (Hndkd : NoDup (kept ++ dropped)).
    { eapply Permutation_NoDup; [apply Permutation_sym, (c08_members _ _ _ _ _ Hp)|].
      apply survivors_nodup. eapply nodup_concat_part; eauto. }
    destruct (NoDup_app_inv _ _ Hndkd) as (_ & _ & Hdisj). eapply Hdisj; eauto.
  Qed.

  Lemma hist_safe_core : hist_safe D members run.
  Proof.
    intros x Hx.
    destruct (group_cmds_inv _ _ _ _ _ _ Hx) as (files & part & kept & dropped & cmds & Hf & Hpart & Hp & Hs & Hxc).
    fold ms in Hf.
    destruct (c08_script op sm _ _ _ _ _ Hp) as (cmds2 & Hs2 & Hv2 & Ht2). rewrite Hs in Hs2. injection Hs2 as <-.
    assert (Hvd : In (cmd_victim x) dropped) by (rewrite <- Hv2; apply in_map, Hxc).
    assert (Hkne : kept <> []).
    { apply (c08_kept_nonempty _ _ _ _ _ Hp). intros E. rewrite E in Hvd. destruct Hvd. }
    destruct kept as [|k kept']; [contradiction|].
    split; [|split].
    - eapply decided_unchanged; eauto. apply in_or_app. right. exact Hvd.
    - destruct (decided_unchanged files part (k :: kept') dropped k Hf Hpart Hp (or_introl eq_refl)) as (mk & A & B & C).
      exists mk, k. repeat split; auto. intros y Hy. eapply kept_not_victim; eauto. left. reflexivity.
    - intros t Ht. destruct (Ht2 x t Hxc Ht) as [_ Hin].
      destruct (decided_unchanged files part (k :: kept') dropped t Hf Hpart Hp (in_or_app _ _ _ (or_introl Hin))) as (mt & A & B & C).
      exists mt. repeat split; auto. intros y Hy. eapply kept_not_victim; eauto.
  Qed.
End Core.

(* ------------------------------------------------------------------ the theorems *)
Lemma c04_after_report D members op c sm glen ts tsc :
  NoDup (map (fun m => mpath (hbase m)) members) ->
  mbefore c = Some tsc -> tsc <= ts ->
  (forall m t o, In m members -> In (t, o) (hops m) -> ts < t) ->
  hist_safe D members (hist_run D members op c sm glen).
Proof. intros. eapply hist_safe_core; eauto. Qed.

(* the time stamp is not later than the first read of any member: every change after a read is caught *)
Lemma c04_safe D members op c sm glen ts tsc :
  NoDup (map (fun m => mpath (hbase m)) members) ->
  mbefore c = Some tsc -> tsc <= ts ->
  (forall m, In m members -> ts <= hr m) ->
  (forall m t o, In m members -> In (t, o) (hops m) -> hr m < t) ->
  hist_safe D members (hist_run D members op c sm glen).
Proof.
  intros Hnd Hc Hle Hr Hops. eapply hist_safe_core; eauto.
  intros m t o Hm Hin. specialize (Hr m Hm). specialize (Hops m t o Hm Hin). lia.
Qed.

(* K1: a change after the member was read but not after the time stamp of the report *)
Definition K1 (members : list hmember) (ts : Z) : Prop :=
  exists m t o, In m members /\ In (t, o) (hops m) /\ hr m < t <= ts.

Lemma c04_full_except_K1 D members op c sm glen ts tsc :
  NoDup (map (fun m => mpath (hbase m)) members) ->
  mbefore c = Some tsc -> tsc <= ts ->
  (forall m t o, In m members -> In (t, o) (hops m) -> hr m < t) ->
  ~ K1 members ts ->
  hist_safe D members (hist_run D members op c sm glen).
Proof.
  intros Hnd Hc Hle Hops HK. eapply hist_safe_core; eauto.
  intros m t o Hm Hin. specialize (Hops m t o Hm Hin).
  destruct (Z.ltb_spec ts t) as [H|H]; auto. exfalso. apply HK. exists m, t, o. repeat split; auto.
Qed.

Lemma trunc_ms_le t : trunc_ms t <= t.
Proof. unfold trunc_ms. pose proof (Z.mul_div_le t 1000000 ltac:(lia)). lia. Qed.

(* witness: a = b = "AAAA" hashed at time 10; b rewritten with "BBBB" at 15; report written (and stamped)
   at 20; remove with the header's time stamp as --modified-before: b is removed, nobody holds "BBBB" *)
Definition k1_D : data := [65; 65; 65; 65]%N.
Definition k1_meta (name ino : N) : meta :=
  mkMeta [[47%N]; [name]] 1 ino 4 true (Some 1) (Some 1) (Some 1) (1, 0).
Definition k1_members : list hmember :=
  [mkHm (k1_meta 97 10) 10 1 []; mkHm (k1_meta 98 11) 10 1 [(15, HWrite [66; 66; 66; 66]%N)]].
Definition k1_cfg : dcfg := mkCfg None (fun _ => false) (fun _ => true) [] false false (Some 20) [].

Lemma c04_k1_witness :
  K1 k1_members 20 /\
  (forall m t o, In m k1_members -> In (t, o) (hops m) -> hr m < t) /\
  ~ hist_safe k1_D k1_members (hist_run k1_D k1_members OpRemove k1_cfg (fun _ _ => true) 4).
Proof.
  split; [|split].
  - eexists _, 15, _. split; [right; left; reflexivity|]. split; [left; reflexivity|]. cbn. lia.
  - intros m t o [<-|[<-|[]]]; cbn [hops]; intros []; [|contradiction]. injection H as <- <-. cbn. lia.
  - intros H. specialize (H (Remove (mkMeta [[47%N]; [98%N]] 1 11 4 true (Some 15) (Some 1) (Some 1) (1, 0)))).
    destruct H as ((mv & Hin & Hs & Hu) & _).
    + vm_compute. left. reflexivity.
    + destruct Hin as [<-|[<-|[]]]; vm_compute in Hs, Hu; discriminate.
Qed.

(* ------------------------------------------------------------------ the four guards, one by one *)
Lemma opt_seq_none_in {A} (l : list (option A)) : In None l -> opt_seq l = None.
Proof.
  induction l as [|x l IH]; cbn [opt_seq]; intros H; [contradiction|].
  destruct H as [->|H]; auto. destruct x; auto. rewrite (IH H). reflexivity.
Qed.

Lemma c04_missing_skips_group op c sm glen ms : In None ms -> group_cmds (dedupe_group op c sm glen ms) = [].
Proof. intros H. unfold dedupe_group. rewrite (opt_seq_none_in _ H). reflexivity. Qed.

Lemma c04_newer_mtime_skips_group c glen ms ts v : mbefore c = Some ts -> In v (survivors c glen ms) ->
  (match mmtime v with Some t => ts < t | None => True end) -> partition c glen ms = Err EModified.
Proof.
  intros Hc Hv Ht. unfold partition. rewrite Hc.
  assert (E : was_modified ts (survivors c glen ms) = true).
  { apply existsb_exists. exists v. split; auto. unfold modified_after. destruct (mmtime v); auto. apply Z.ltb_lt, Ht. }
  rewrite E. reflexivity.
Qed.

Lemma c04_changed_left_out c glen ms kept dropped v : partition c glen ms = Ok (kept, dropped) ->
  In v (kept ++ dropped) ->
  In v ms /\ mfile v = true /\ (no_size c = false -> mlen v = glen) /\
  (forall ts t, mbefore c = Some ts -> mmtime v = Some t -> t <= ts).
Proof.
  intros Hp Hv. apply (Permutation_in _ (c08_members _ _ _ _ _ Hp)) in Hv.
  destruct (survivors_in _ _ _ _ Hv) as [Hin Hf]. repeat split; auto.
  - intros Hns. unfold survivors in Hv. rewrite Hns in Hv. apply filter_In in Hv. destruct Hv as [_ Hv].
    apply N.eqb_eq, Hv.
  - intros ts t Hc Hm. destruct (partition_anatomy _ _ _ _ _ Hp) as (sorted & An).
    pose proof (an_not_modified _ _ _ _ _ _ An) as Hnm. rewrite Hc in Hnm. eapply not_modified_le; eauto.
Qed.
