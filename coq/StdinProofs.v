(* StdinProofs.v — a list of paths written one per line is read back exactly: every byte string without '\n' that does not end in
   '\r' (non-UTF-8 names, names ending in blanks or tabs, empty lines included). *)
From FV Require Import Base StdinModel.
Open Scope N_scope.

Definition no_nl (p : list N) : Prop := ~ In 10 p.

Lemma split_nl_line : forall p cur rest, no_nl p ->
  split_nl cur (p ++ 10 :: rest) = ((match cur with Some item => item | None => [] end) ++ p) :: split_nl None rest.
Proof.
  induction p as [|b p IH]; intros cur rest Hp.
  - cbn [app split_nl]. rewrite N.eqb_refl. rewrite app_nil_r. reflexivity.
  - cbn [app split_nl]. destruct (b =? 10) eqn:E.
    + apply N.eqb_eq in E. subst b. exfalso. apply Hp. left. reflexivity.
    + rewrite IH by (intros H; apply Hp; right; exact H). cbn. rewrite <- app_assoc. reflexivity.
Qed.

Lemma split_nl_lines : forall ps, (forall p, In p ps -> no_nl p) ->
  split_nl None (concat (map (fun p => p ++ [10]) ps)) = ps.
Proof.
  induction ps as [|p ps IH]; intros H; [reflexivity|].
  cbn [map concat]. rewrite <- app_assoc. cbn [app].
  rewrite split_nl_line by (apply H; left; reflexivity). cbn [app].
  rewrite IH by (intros q Hq; apply H; right; exact Hq). reflexivity.
Qed.

Lemma strip_cr_id p : last p 0 <> 13 -> strip_cr p = p.
Proof.
  intros H. unfold strip_cr. destruct (rev p) as [|x r] eqn:E; [reflexivity|].
  assert (Hp : p = rev r ++ [x]).
  { rewrite <- (rev_involutive p), E. reflexivity. }
  destruct (N.eq_dec x 13) as [->|Hx].
  - exfalso. apply H. rewrite Hp. apply last_last.
  - destruct x as [|x']; [reflexivity|].
    repeat (destruct x' as [x'|x'|]; try reflexivity). exfalso. apply Hx. reflexivity.
Qed.

(* every list of paths, one per line, is read back exactly *)
Theorem stdin_roundtrip : forall ps,
  (forall p, In p ps -> no_nl p /\ last p 0 <> 13) ->
  stdin_paths (concat (map (fun p => p ++ [10]) ps)) = ps.
Proof.
  intros ps H. unfold stdin_paths.
  rewrite split_nl_lines by (intros p Hp; apply H; exact Hp).
  rewrite <- (map_id ps) at 2. apply map_ext_in. intros p Hp. apply strip_cr_id. apply H. exact Hp.
Qed.

(* CRLF input: the '\r' of the terminator is not part of the path *)
Theorem stdin_roundtrip_crlf : forall ps,
  (forall p, In p ps -> no_nl p) ->
  stdin_paths (concat (map (fun p => p ++ [13; 10]) ps)) = ps.
Proof.
  intros ps H. unfold stdin_paths.
  assert (E : concat (map (fun p => p ++ [13; 10]) ps) = concat (map (fun p => p ++ [10]) (map (fun p => p ++ [13]) ps))).
  { rewrite map_map. f_equal. apply map_ext. intros p. rewrite <- app_assoc. reflexivity. }
  rewrite E. rewrite split_nl_lines.
  - rewrite map_map. rewrite <- (map_id ps) at 2. apply map_ext. intros p. unfold strip_cr. rewrite rev_app_distr. cbn.
    apply rev_involutive.
  - intros q Hq. apply in_map_iff in Hq. destruct Hq as (p & <- & Hp). intros Hin. apply in_app_or in Hin.
    destruct Hin as [Hin|[Hin|[]]]; [exact (H p Hp Hin)|discriminate].
Qed.

(* a final line without terminator is a path, too *)
Lemma split_nl_prefix : forall ps tail, (forall p, In p ps -> no_nl p) ->
  split_nl None (concat (map (fun p => p ++ [10]) ps) ++ tail) = ps ++ split_nl None tail.
Proof.
  induction ps as [|p ps IH]; intros tail H; [reflexivity|].
  cbn [map concat]. rewrite <- !app_assoc. cbn [app].
  rewrite split_nl_line by (apply H; left; reflexivity). cbn [app]. f_equal.
  apply IH. intros q Hq. apply H. right. exact Hq.
Qed.

Lemma split_nl_tail : forall p cur, no_nl p -> p <> [] ->
  split_nl cur p = [(match cur with Some item => item | None => [] end) ++ p].
Proof.
  induction p as [|b p IH]; intros cur Hp Hne; [congruence|].
  cbn [split_nl]. destruct (b =? 10) eqn:E.
  - apply N.eqb_eq in E. subst b. exfalso. apply Hp. left. reflexivity.
  - destruct p as [|b' p'].
    + cbn [split_nl]. reflexivity.
    + rewrite IH; [|intros Hin; apply Hp; right; exact Hin|discriminate].
      cbn. rewrite <- app_assoc. reflexivity.
Qed.

Theorem stdin_last_unterminated : forall ps p,
  (forall q, In q ps -> no_nl q /\ last q 0 <> 13) -> no_nl p -> p <> [] -> last p 0 <> 13 ->
  stdin_paths (concat (map (fun q => q ++ [10]) ps) ++ p) = ps ++ [p].
Proof.
  intros ps p H Hp Hne Hl. unfold stdin_paths.
  rewrite split_nl_prefix by (intros q Hq; apply H; exact Hq).
  rewrite split_nl_tail by assumption. cbn [app]. rewrite map_app. cbn [map].
  rewrite strip_cr_id by exact Hl. f_equal.
  rewrite <- (map_id ps) at 2. apply map_ext_in. intros q Hq. apply strip_cr_id. apply H. exact Hq.
Qed.

(* Non-vacuity: a Latin-1 name, a name ending in a blank and a tab, an empty line *)
Example stdin_example :
  stdin_paths ([100; 233; 10] ++ [111; 32; 9; 10] ++ [10] ++ [97; 13; 10] ++ [122]) = [[100; 233]; [111; 32; 9]; []; [97]; [122]].
Proof. vm_compute. reflexivity. Qed.
