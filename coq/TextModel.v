(* TextModel.v — engine T: executable model of the text codecs of fclones.  NO proofs here.

   Part 1 (C17): UTF-8 validation as done by std / stfu8, stfu8::encode_u8 / decode_u8 (crate
   stfu8-0.2.6, src/encode_u8.rs, src/decode.rs, src/lib.rs), arg.rs `quote`, `split`, `join`,
   and a model of bash word splitting for the syntax `quote` can emit.
   Part 2 (C10) is in the second half: report.rs text writer / reader.

   Representation.  Everything is bytes: an `OsString`, a `Vec<u8>` and a Rust `String`/`&str`
   are all `list N` (each element < 256; a `&str` is in addition valid UTF-8).  A Rust `char` is
   represented by the list of its UTF-8 bytes, so `c.len_utf8()` is `length c`, `s.chars()` is
   `str_chars s` and `append(&mut word, c)` is `word ++ c`.  Byte offsets (`pos`,
   `dollar_quote_start`) are `nat` and index the byte list exactly like `&s[a..b]` does. *)
From FV Require Import Base.
Open Scope N_scope.

(* ------------------------------------------------------------------------------------------ *)
(* UTF-8 validation step: core::str::run_utf8_validation / Utf8Chunks and the copy of it in
   stfu8/src/encode_u8.rs (UTF8_CHAR_WIDTH table, second-byte ranges, continuation bytes).     *)

Definition is_cont (b : N) : bool := (128 <=? b) && (b <? 192).

(* UTF8_CHAR_WIDTH[b] *)
Definition width (b : N) : N :=
  if b <? 128 then 1 else if b <? 194 then 0 else if b <? 224 then 2
  else if b <? 240 then 3 else if b <? 245 then 4 else 0.

Definition second3 (b0 b1 : N) : bool :=
  ((b0 =? 224) && (160 <=? b1) && (b1 <=? 191)) ||
  ((225 <=? b0) && (b0 <=? 236) && is_cont b1) ||
  ((b0 =? 237) && (128 <=? b1) && (b1 <=? 159)) ||
  ((238 <=? b0) && (b0 <=? 239) && is_cont b1).

Definition second4 (b0 b1 : N) : bool :=
  ((b0 =? 240) && (144 <=? b1) && (b1 <=? 191)) ||
  ((241 <=? b0) && (b0 <=? 243) && is_cont b1) ||
  ((b0 =? 244) && (128 <=? b1) && (b1 <=? 143)).

(* Result of looking at the head of a byte string:
   UGood n      the first n bytes are one well-formed scalar value;
   UBad k more  ill-formed: k bytes (lead + continuation bytes that did validate) belong to the
                broken sequence; more = true iff validation stopped AT a following byte that
                exists (std: that byte is looked at again; stfu8: `escape_them!` escapes it too),
                more = false iff the input ended or the lead byte itself is invalid. *)
Inductive ustep_res := UEnd | UGood (n : nat) | UBad (k : nat) (more : bool).

Definition ustep (l : list N) : ustep_res :=
  match l with
  | [] => UEnd
  | b0 :: r0 =>
    if b0 <? 128 then UGood 1 else
    if width b0 =? 2 then
      match r0 with
      | [] => UBad 1 false
      | b1 :: _ => if is_cont b1 then UGood 2 else UBad 1 true
      end
    else if width b0 =? 3 then
      match r0 with
      | [] => UBad 1 false
      | b1 :: r1 =>
        if second3 b0 b1 then
          match r1 with
          | [] => UBad 2 false
          | b2 :: _ => if is_cont b2 then UGood 3 else UBad 2 true
          end
        else UBad 1 true
      end
    else if width b0 =? 4 then
      match r0 with
      | [] => UBad 1 false
      | b1 :: r1 =>
        if second4 b0 b1 then
          match r1 with
          | [] => UBad 2 false
          | b2 :: r2 =>
            if is_cont b2 then
              match r2 with
              | [] => UBad 3 false
              | b3 :: _ => if is_cont b3 then UGood 4 else UBad 3 true
              end
            else UBad 2 true
          end
        else UBad 1 true
      end
    else UBad 1 false
  end.

(* Segmentation of a byte string into well-formed characters and ill-formed chunks.
   incl = false: std (from_utf8 / to_string_lossy): the byte validation stopped at starts the next chunk.
   incl = true : stfu8 `escape_them!`: the byte validation stopped at is part of the escaped chunk. *)
Inductive chunk := CGood (c : list N) | CBad (bs : list N).

Definition cbytes (ch : chunk) : list N := match ch with CGood c => c | CBad bs => bs end.
Definition chunk_good (ch : chunk) : bool := match ch with CGood _ => true | CBad _ => false end.

Fixpoint seg_go (incl : bool) (fuel : nat) (l : list N) : list chunk :=
  match fuel with
  | O => []
  | S f =>
    match ustep l with
    | UEnd => []
    | UGood n => CGood (firstn n l) :: seg_go incl f (skipn n l)
    | UBad k more =>
      let m := if incl && more then S k else k in
      CBad (firstn m l) :: seg_go incl f (skipn m l)
    end
  end.
Definition seg (incl : bool) (l : list N) : list chunk := seg_go incl (length l) l.

(* U+FFFD REPLACEMENT CHARACTER *)
Definition FFFD : list N := [239; 191; 189].

(* `s.chars()` of a `&str` given by its bytes; None = the bytes are not valid UTF-8 (no such &str). *)
Definition str_chars (l : list N) : option (list (list N)) :=
  let cs := seg false l in
  if forallb chunk_good cs then Some (map cbytes cs) else None.

(* OsStr::to_string_lossy / String::from_utf8_lossy, as a list of chars *)
Definition lossy (l : list N) : list (list N) :=
  map (fun ch => match ch with CGood c => c | CBad _ => FFFD end) (seg false l).

Fixpoint bytes_eqb (a b : list N) : bool :=
  match a, b with
  | [], [] => true
  | x :: a', y :: b' => (x =? y) && bytes_eqb a' b'
  | _, _ => false
  end.

(* ------------------------------------------------------------------------------------------ *)
(* stfu8::encode_u8 (Encoder::new(): tab, line feed and carriage return are escaped)           *)

Definition hexU (n : N) : N := if n <? 10 then 48 + n else 55 + n.   (* {:0>2X} digit *)

(* helpers::escape_u8 *)
Definition escape_u8 (b : N) : list N :=
  if b =? 92 then [92; 92]
  else if b =? 9 then [92; 116]
  else if b =? 10 then [92; 110]
  else if b =? 13 then [92; 114]
  else [92; 120; hexU (b / 16); hexU (b mod 16)].

(* macro maybe_ascii! *)
Definition maybe_ascii (b : N) : list N :=
  if b =? 92 then escape_u8 b
  else if (32 <=? b) && (b <=? 126) then [b]
  else escape_u8 b.

Definition enc_chunk (ch : chunk) : list N :=
  match ch with
  | CGood c => match c with [b] => maybe_ascii b | _ => c end   (* ascii case / write_them! *)
  | CBad bs => flat_map maybe_ascii bs                          (* escape_them! *)
  end.

Definition stfu8_encode (l : list N) : list N := flat_map enc_chunk (seg true l).

(* ------------------------------------------------------------------------------------------ *)
(* stfu8::decode_u8: regex  \\t|\\n|\\r|\\\\|\\x[0-9a-fA-F]{2}|\\u[0-9a-fA-F]{6}|\\ (INVALID)
   scanned left to right over the bytes of the &str; None = Err(DecodeError).                  *)

Definition unhex (c : N) : option N :=
  if (48 <=? c) && (c <=? 57) then Some (c - 48)
  else if (65 <=? c) && (c <=? 70) then Some (c - 55)
  else if (97 <=? c) && (c <=? 102) then Some (c - 87)
  else None.

Definition unhex2 (h k : N) : option N :=
  match unhex h, unhex k with Some a, Some b => Some (a * 16 + b) | _, _ => None end.

(* char::from_u32(c).is_some() *)
Definition is_scalar (c : N) : bool := (c <? 55296) || ((57344 <=? c) && (c <=? 1114111)).

(* char::encode_utf8 *)
Definition utf8_encode (c : N) : list N :=
  if c <? 128 then [c]
  else if c <? 2048 then [192 + c / 64; 128 + c mod 64]
  else if c <? 65536 then [224 + c / 4096; 128 + (c / 64) mod 64; 128 + c mod 64]
  else [240 + c / 262144; 128 + (c / 4096) mod 64; 128 + (c / 64) mod 64; 128 + c mod 64].

Definition ocons (x : N) (o : option (list N)) : option (list N) := option_map (cons x) o.

Fixpoint stfu8_decode (l : list N) : option (list N) :=
  match l with
  | [] => Some []
  | b :: r =>
    if b =? 92 then
      match r with
      | [] => None                                            (* bare backslash: UnescapedSlash *)
      | e :: r1 =>
        if e =? 116 then ocons 9 (stfu8_decode r1)
        else if e =? 110 then ocons 10 (stfu8_decode r1)
        else if e =? 114 then ocons 13 (stfu8_decode r1)
        else if e =? 92 then ocons 92 (stfu8_decode r1)
        else if e =? 120 then
          match r1 with
          | h :: k :: r2 =>
            match unhex2 h k with
            | Some v => ocons v (stfu8_decode r2)
            | None => None
            end
          | _ => None
          end
        else if e =? 117 then
          match r1 with
          | h1 :: h2 :: h3 :: h4 :: h5 :: h6 :: r2 =>
            match unhex2 h1 h2, unhex2 h3 h4, unhex2 h5 h6 with
            | Some d0, Some d1, Some d2 =>
              let c32 := d0 * 65536 + d1 * 256 + d2 in
              if is_scalar c32
              then option_map (app (utf8_encode c32)) (stfu8_decode r2)   (* pushed as a string *)
              else None                                                   (* value > u8::MAX: InvalidValue *)
            | _, _, _ => None
            end
          | _ => None
          end
        else None
      end
    else ocons b (stfu8_decode r)
  end.

(* ------------------------------------------------------------------------------------------ *)
(* arg.rs                                                                                      *)

(* const SPECIAL_CHARS: [char; 25]   (all ASCII; compared with the implementation on every run) *)
Definition SPECIAL_CHARS : list N :=
  [124; 38; 59; 60; 62; 40; 41; 123; 125; 36; 96; 92; 39; 34; 32; 9; 42; 63; 43; 91; 93; 35; 126; 61; 37].

(* c == the ASCII char b *)
Definition chr (c : list N) (b : N) : bool := match c with [x] => x =? b | _ => false end.

(* |c| c < '\u{20}' || c == '\u{7f}' || c == '\u{fffd}' || c == '\'' *)
Definition needs_dollar (c : list N) : bool :=
  match c with
  | [b] => (b <? 32) || (b =? 127) || (b =? 39)
  | _ => bytes_eqb c FFFD
  end.

Definition is_special (c : list N) : bool := existsb (chr c) SPECIAL_CHARS.

(* String::replace('\'', "\\'") *)
Definition escq (l : list N) : list N := flat_map (fun b => if b =? 39 then [92; 39] else [b]) l.

Definition quote (a : list N) : list N :=
  let lz := lossy a in
  if existsb needs_dollar lz then [36; 39] ++ escq (stfu8_encode a) ++ [39]
  else if existsb is_special lz then [39] ++ concat lz ++ [39]
  else concat lz.

Fixpoint intercalate (sep : list N) (l : list (list N)) : list N :=
  match l with
  | [] => []
  | [x] => x
  | x :: r => x ++ sep ++ intercalate sep r
  end.

Definition join (args : list (list N)) : list N := intercalate [32] (map quote args).

(* str::replace("\\'", "'") *)
Fixpoint unescq (l : list N) : list N :=
  match l with
  | [] => []
  | b :: r =>
    match r with
    | q :: r' => if (b =? 92) && (q =? 39) then 39 :: unescq r' else b :: unescq r
    | [] => [b]
    end
  end.

(* str::is_char_boundary *)
Definition is_char_boundary (s : list N) (i : nat) : bool :=
  match i with
  | O => true
  | _ => match nth_error s i with
         | Some b => negb (is_cont b)
         | None => Nat.eqb i (length s)
         end
  end.

(* &s[a..b]; None = panic *)
Definition str_slice (s : list N) (a b : nat) : option (list N) :=
  if (a <=? b)%nat && (b <=? length s)%nat && is_char_boundary s a && is_char_boundary s b
  then Some (firstn (b - a) (skipn a s)) else None.

Inductive state := Delim | Bsl | Unq | UnqBsl | SQ | DQ | DQBsl | Dollar | DolQ | DolQBsl | Comment.

Inductive sres :=
| SOk (ws : list (list N))
| SErr                      (* Err(ParseError) *)
| SPanic                    (* slice index panic *)
| SNotStr.                  (* precondition failure: the input bytes are not a &str *)

Definition is_ws3 (c : list N) : bool := chr c 9 || chr c 32 || chr c 10.

(* The loop of `split`; `words` is kept reversed.  `s` is the whole input (for slicing), `rest` the
   chars not yet consumed, `pos` the byte offset of the head of `rest`. *)
Fixpoint split_go (s : list N) (rest : list (list N)) (st : state) (pos dqs : nat)
         (word : list N) (words : list (list N)) : sres :=
  match rest with
  | [] =>
    match st with
    | Delim | Comment => SOk (rev words)
    | Bsl | UnqBsl => SOk (rev ((word ++ [92]) :: words))
    | Unq => SOk (rev (word :: words))
    | SQ | DQ | DQBsl | Dollar | DolQ | DolQBsl => SErr
    end
  | c :: r =>
    let pos' := (pos + length c)%nat in
    match st with
    | Delim =>
      if chr c 39 then split_go s r SQ pos' dqs word words
      else if chr c 34 then split_go s r DQ pos' dqs word words
      else if chr c 92 then split_go s r Bsl pos' dqs word words
      else if is_ws3 c then split_go s r Delim pos' dqs word words
      else if chr c 36 then split_go s r Dollar pos' dqs word words
      else if chr c 35 then split_go s r Comment pos' dqs word words
      else split_go s r Unq pos' dqs (word ++ c) words
    | Bsl =>
      if chr c 10 then split_go s r Delim pos' dqs word words
      else split_go s r Unq pos' dqs (word ++ c) words
    | Unq =>
      if chr c 39 then split_go s r SQ pos' dqs word words
      else if chr c 34 then split_go s r DQ pos' dqs word words
      else if chr c 92 then split_go s r UnqBsl pos' dqs word words
      else if chr c 36 then split_go s r Dollar pos' dqs word words
      else if is_ws3 c then split_go s r Delim pos' dqs [] (word :: words)
      else split_go s r Unq pos' dqs (word ++ c) words
    | UnqBsl =>
      if chr c 10 then split_go s r Unq pos' dqs word words
      else split_go s r Unq pos' dqs (word ++ c) words
    | SQ =>
      if chr c 39 then split_go s r Unq pos' dqs word words
      else split_go s r SQ pos' dqs (word ++ c) words
    | DQ =>
      if chr c 34 then split_go s r Unq pos' dqs word words
      else if chr c 92 then split_go s r DQBsl pos' dqs word words
      else split_go s r DQ pos' dqs (word ++ c) words
    | DQBsl =>
      if chr c 10 then split_go s r DQ pos' dqs word words
      else if chr c 36 || chr c 96 || chr c 34 || chr c 92
      then split_go s r DQ pos' dqs (word ++ c) words
      else split_go s r DQ pos' dqs (word ++ 92 :: c) words
    | Dollar =>
      if chr c 39 then split_go s r DolQ pos' (pos + 1)%nat word words
      else SErr
    | DolQ =>
      if chr c 92 then split_go s r DolQBsl pos' dqs word words
      else if chr c 39 then
        match str_slice s dqs pos with
        | None => SPanic
        | Some sl =>
          match stfu8_decode (unescq sl) with
          | None => SErr
          | Some d => split_go s r Unq pos' dqs (word ++ d) words
          end
        end
      else split_go s r DolQ pos' dqs word words
    | DolQBsl => split_go s r DolQ pos' dqs word words
    | Comment =>
      if chr c 10 then split_go s r Delim pos' dqs word words
      else split_go s r Comment pos' dqs word words
    end
  end.

Definition split (s : list N) : sres :=
  match str_chars s with
  | None => SNotStr
  | Some cs => split_go s cs Delim 0 0 [] []
  end.

(* ------------------------------------------------------------------------------------------ *)
(* bash (non-interactive, arguments of a simple command): word splitting and quote removal for
   exactly the syntax `quote`/`join` can emit — bare characters, '...', $'...' with the escapes
   \\ \' \n \t \r \xHH, words separated by single spaces — plus what a bare word can trigger:
   tilde expansion (and a comment) at the start of a word.  None = syntax outside this fragment
   or an expansion would change the word.                                                      *)

(* characters that are (or can be) active in an unquoted word.  The tilde is in the list because bash
   expands it not only at the start of a word but also after `=` / `:` in arguments that look like
   assignments (`f b=~` passes b=$HOME); the model conservatively gives up on any unquoted tilde. *)
Definition bash_active : list N :=
  [124; 38; 59; 60; 62; 40; 41; 123; 125; 36; 96; 92; 39; 34; 42; 63; 91; 93; 126].

Definition bare_ok (b : N) : bool :=
  (33 <=? b) && negb (b =? 127) && negb (existsb (N.eqb b) bash_active).

Inductive bstate := BDelim | BBare | BSQ | BDQ.

Fixpoint bash_go (rest : list N) (st : bstate) (word : list N) (words : list (list N))
  : option (list (list N)) :=
  match rest with
  | [] =>
    match st with
    | BDelim => Some (rev words)
    | BBare => Some (rev (word :: words))
    | BSQ | BDQ => None
    end
  | b :: r =>
    match st with
    | BDelim =>
      if b =? 32 then bash_go r BDelim word words
      else if b =? 39 then bash_go r BSQ [] words
      else if b =? 36 then
        match r with
        | q :: r' => if q =? 39 then bash_go r' BDQ [] words else None
        | [] => None
        end
      else if (b =? 126) || (b =? 35) then None          (* tilde-prefix / comment at word start *)
      else if bare_ok b then bash_go r BBare [b] words
      else None
    | BBare =>
      if b =? 32 then bash_go r BDelim [] (word :: words)
      else if b =? 39 then bash_go r BSQ word words
      else if b =? 36 then
        match r with
        | q :: r' => if q =? 39 then bash_go r' BDQ word words else None
        | [] => None
        end
      else if bare_ok b then bash_go r BBare (word ++ [b]) words
      else None
    | BSQ =>
      if b =? 39 then bash_go r BBare word words
      else bash_go r BSQ (word ++ [b]) words
    | BDQ =>
      if b =? 39 then bash_go r BBare word words
      else if b =? 92 then
        match r with
        | e :: r1 =>
          if e =? 92 then bash_go r1 BDQ (word ++ [92]) words
          else if e =? 39 then bash_go r1 BDQ (word ++ [39]) words
          else if e =? 110 then bash_go r1 BDQ (word ++ [10]) words
          else if e =? 116 then bash_go r1 BDQ (word ++ [9]) words
          else if e =? 114 then bash_go r1 BDQ (word ++ [13]) words
          else if e =? 120 then
            match r1 with
            | h :: k :: r2 =>
              match unhex2 h k with
              | Some v => if v =? 0 then None else bash_go r2 BDQ (word ++ [v]) words
              | None => None
              end
            | _ => None
            end
          else None
        | [] => None
        end
      else bash_go r BDQ (word ++ [b]) words
    end
  end.

Definition bash_words (s : list N) : option (list (list N)) := bash_go s BDelim [] [].

(* ========================================================================================== *)
(* Part 2 (C10): report.rs — write_as_text, TextReportReader::read_header, TextReportIterator,
   open_report format detection; path.rs to_escaped_string / from_escaped_string.

   External formatting that is NOT modelled but kept as parameters (section variables; their
   assumed behaviour is stated as hypotheses of the theorems and checked on every generated case):
     human   : bytesize::ByteSize Display (floating point), the text in parentheses after sizes
     TS, fmt_ts, parse_ts : chrono DateTime<FixedOffset>, format / parse_from_str with TIMESTAMP_FMT
   Integer formatting (u64/usize Display, str::parse), hex (crate hex) and std::path component
   normalisation are modelled concretely below.                                                 *)

(* string literals as bytes *)
Definition P_VERSION : list N := [35; 32; 82; 101; 112; 111; 114; 116; 32; 98; 121; 32; 102; 99; 108; 111; 110; 101; 115; 32].   (* # Report by fclones_ *)
Definition P_TIMESTAMP : list N := [35; 32; 84; 105; 109; 101; 115; 116; 97; 109; 112; 58; 32].   (* # Timestamp:_ *)
Definition P_COMMAND : list N := [35; 32; 67; 111; 109; 109; 97; 110; 100; 58; 32].   (* # Command:_ *)
Definition P_BASE_DIR : list N := [35; 32; 66; 97; 115; 101; 32; 100; 105; 114; 58; 32].   (* # Base dir:_ *)
Definition P_TOTAL : list N := [35; 32; 84; 111; 116; 97; 108; 58; 32].   (* # Total:_ *)
Definition P_REDUNDANT : list N := [35; 32; 82; 101; 100; 117; 110; 100; 97; 110; 116; 58; 32].   (* # Redundant:_ *)
Definition P_MISSING : list N := [35; 32; 77; 105; 115; 115; 105; 110; 103; 58; 32].   (* # Missing:_ *)
Definition S_B_PAREN : list N := [32; 66; 32; 40].   (* _B_( *)
Definition S_PAREN_IN : list N := [41; 32; 105; 110; 32].   (* )_in_ *)
Definition S_FILES_IN : list N := [32; 102; 105; 108; 101; 115; 32; 105; 110; 32].   (* _files_in_ *)
Definition S_GROUPS : list N := [32; 103; 114; 111; 117; 112; 115].   (* _groups *)
Definition S_FILES : list N := [32; 102; 105; 108; 101; 115].   (* _files *)
Definition S_COMMA : list N := [44; 32].   (* ,_ *)
Definition S_B : list N := [32; 66; 32].   (* _B_ *)
Definition S_STAR : list N := [42; 32].   (* star_ *)
Definition S_PAREN_STAR : list N := [41; 32; 42; 32].   (* )_star_ *)
Definition S_INDENT : list N := [32; 32; 32; 32].   (* four spaces *)
Definition NL : list N := [10].

(* ---- generic helpers ---- *)

Fixpoint strip_prefix (p l : list N) : option (list N) :=
  match p with
  | [] => Some l
  | x :: p' => match l with
               | y :: l' => if x =? y then strip_prefix p' l' else None
               | [] => None
               end
  end.

(* longest prefix whose bytes satisfy f, and the rest *)
Fixpoint span (f : N -> bool) (l : list N) : list N * list N :=
  match l with
  | [] => ([], [])
  | b :: r => if f b then let (x, y) := span f r in (b :: x, y) else ([], l)
  end.

Definition is_digit (b : N) : bool := (48 <=? b) && (b <=? 57).
Definition is_hexl (b : N) : bool := is_digit b || ((97 <=? b) && (b <=? 102)).   (* [a-f0-9] *)

(* u64 / usize Display *)
Fixpoint rdec (fuel : nat) (n : N) : list N :=
  match fuel with
  | O => []
  | S f => (48 + n mod 10) :: (if n / 10 =? 0 then [] else rdec f (n / 10))
  end.
Definition dec (n : N) : list N := rev (rdec 40 n).

(* value of a string of decimal digits; str::parse::<u64> on [0-9]+ is Ok(value) iff value <= u64::MAX *)
Fixpoint rvalue (l : list N) : N :=
  match l with [] => 0 | d :: r => (d - 48) + 10 * rvalue r end.
Definition dec_value (l : list N) : N := rvalue (rev l).
Definition U64_MAX : N := 18446744073709551615.
Definition parse_u64 (l : list N) : option N :=
  let v := dec_value l in if v <=? U64_MAX then Some v else None.

(* hex::encode (lower case) / hex::decode *)
Definition hexL (n : N) : N := if n <? 10 then 48 + n else 87 + n.
Definition hex_encode (l : list N) : list N := flat_map (fun b => [hexL (b / 16); hexL (b mod 16)]) l.
Fixpoint hex_decode (l : list N) : option (list N) :=
  match l with
  | [] => Some []
  | h :: r => match r with
              | k :: r' => match unhex2 h k with
                           | Some v => ocons v (hex_decode r')
                           | None => None
                           end
              | [] => None                      (* FromHexError::OddLength *)
              end
  end.

(* char::is_whitespace (Unicode White_Space) on the UTF-8 bytes of a char *)
Definition is_whitespace (c : list N) : bool :=
  match c with
  | [b] => ((9 <=? b) && (b <=? 13)) || (b =? 32)
  | [a; b] => (a =? 194) && ((b =? 133) || (b =? 160))
  | [a; b; d] =>
    ((a =? 225) && (b =? 154) && (d =? 128)) ||
    ((a =? 226) && (b =? 128) && (((128 <=? d) && (d <=? 138)) || (d =? 168) || (d =? 169) || (d =? 175))) ||
    ((a =? 226) && (b =? 129) && (d =? 159)) ||
    ((a =? 227) && (b =? 128) && (d =? 128))
  | _ => false
  end.

Fixpoint trim_start_cs (cs : list (list N)) : list (list N) :=
  match cs with
  | c :: r => if is_whitespace c then trim_start_cs r else cs
  | [] => []
  end.
Definition trim_end_cs (cs : list (list N)) : list (list N) := rev (trim_start_cs (rev cs)).

(* str::trim_start / str::trim on (the bytes of) a &str *)
Definition str_trim_start (l : list N) : list N :=
  match str_chars l with Some cs => concat (trim_start_cs cs) | None => l end.
Definition str_trim (l : list N) : list N :=
  match str_chars l with Some cs => concat (trim_end_cs (trim_start_cs cs)) | None => l end.

(* str::strip_suffix(c).unwrap_or(s) for an ASCII c *)
Definition strip_last (x : N) (l : list N) : list N :=
  match rev l with
  | y :: r => if y =? x then rev r else l
  | [] => l
  end.
Definition strip_eol (l : list N) : list N := strip_last 13 (strip_last 10 l).

(* BufRead::read_line on the rest of the stream: the line including its '\n' (if any) and the
   remaining stream; None = Err(InvalidData) (not valid UTF-8).  An empty line = end of file. *)
Definition read_line (st : list N) : option (list N * list N) :=
  let (l, r) := span (fun b => negb (b =? 10)) st in
  let lr := match r with [] => (l, []) | nl :: r' => (l ++ [nl], r') end in
  match str_chars (fst lr) with
  | Some _ => Some lr
  | None => None
  end.

(* ---- paths: std::path::Path::components + fclones Path::from + to_path_buf ---- *)

Fixpoint split_on (sep : N) (l : list N) : list (list N) :=
  match l with
  | [] => [[]]
  | b :: r => if b =? sep then [] :: split_on sep r
              else match split_on sep r with
                   | x :: xs => (b :: x) :: xs
                   | [] => [[b]]
                   end
  end.

Definition is_dot (c : list N) : bool := bytes_eqb c [46].
Definition nonempty (c : list N) : bool := match c with [] => false | _ => true end.

Definition path_components (p : list N) : list (list N) :=
  let has_root := match p with b :: _ => b =? 47 | [] => false end in
  let parts := filter nonempty (split_on 47 p) in
  let parts' := match parts with
                | c :: r => if negb has_root && is_dot c then c :: filter (fun x => negb (is_dot x)) r
                            else filter (fun x => negb (is_dot x)) parts
                | [] => []
                end in
  let comps := if has_root then [47] :: parts' else parts' in
  match comps with [] => [[46]] | _ => comps end.

(* PathBuf::push for each component *)
Fixpoint path_join (comps : list (list N)) (buf : list N) : list N :=
  match comps with
  | [] => buf
  | c :: r =>
    let buf' := match c with
                | 47 :: _ => c                                   (* absolute: replaces the buffer *)
                | _ => match rev buf with
                       | [] => c
                       | last :: _ => if last =? 47 then buf ++ c else buf ++ 47 :: c
                       end
                end in
    path_join r buf'
  end.

(* the bytes of Path::from(bytes).to_path_buf() *)
Definition path_norm (p : list N) : list N := path_join (path_components p) [].

Inductive pres := POk (p : list N) | PErr | PPanic.

(* Path::from_escaped_string: Err on a malformed escape, panic (CString::new(..).unwrap()) on NUL *)
Definition path_from_escaped (s : list N) : pres :=
  match stfu8_decode s with
  | None => PErr
  | Some b => if existsb (N.eqb 0) b then PPanic else POk (path_norm b)
  end.
Definition path_to_escaped (p : list N) : list N := stfu8_encode p.

(* ---- the report ---- *)

Record group := mkGroup { g_hash : list N; g_len : N; g_files : list (list N) }.
Record stats := mkStats { s_groups : N; s_total_count : N; s_total_size : N;
                          s_red_count : N; s_red_size : N; s_miss_count : N; s_miss_size : N }.

Inductive gend := GEnd | GErr | GPanic.

(* regex ^([a-f0-9]+), ([0-9]+) B [^*]* \* ([0-9]+):  — captures 1,2,3 *)
Definition re_group_header (l : list N) : option (list N * list N * list N) :=
  let (hx, r0) := span is_hexl l in
  if nonempty hx then
    match strip_prefix S_COMMA r0 with
    | None => None
    | Some r1 =>
      let (d1, r2) := span is_digit r1 in
      if nonempty d1 then
        match strip_prefix S_B r2 with
        | None => None
        | Some r3 =>
          let (x, r4) := span (fun b => negb (b =? 42)) r3 in
          (* [^*]* followed by " \* ": the run before the first star must end with a space *)
          if nonempty x && (last x 0 =? 32) then
            match strip_prefix S_STAR r4 with
            | None => None
            | Some r5 =>
              let (d2, r6) := span is_digit r5 in
              if nonempty d2 then
                match r6 with
                | c :: _ => if c =? 58 then Some (hx, d1, d2) else None
                | [] => None
                end
              else None
            end
          else None
        end
      else None
    end
  else None.

Inductive ghres := GHNone | GHErr | GHPanic | GHOk (hash : list N) (len count : N) (rest : list N).

(* read_first_non_comment_line + read_group_header *)
Fixpoint read_group_header (fuel : nat) (st : list N) : ghres :=
  match fuel with
  | O => GHErr
  | S f =>
    match read_line st with
    | None => GHErr
    | Some (line, rest) =>
      let t := str_trim line in
      match t with
      | [] => GHNone
      | b :: _ =>
        if b =? 35 then read_group_header f rest
        else match re_group_header t with
             | None => GHErr
             | Some (hx, d1, d2) =>
               match hex_decode hx, parse_u64 d1, parse_u64 d2 with
               | Some h, Some len, Some cnt => GHOk h len cnt rest
               | _, _, _ => GHPanic          (* the three .unwrap() *)
               end
             end
      end
    end
  end.

Inductive rpres := RPOk (ps : list (list N)) (rest : list N) | RPErr | RPPanic.

Fixpoint read_paths (count : nat) (st : list N) : rpres :=
  match count with
  | O => RPOk [] st
  | S k =>
    match read_line st with
    | None => RPErr
    | Some (line, rest) =>
      match line with
      | [] => RPErr                                         (* n == 0: unexpected end of file *)
      | _ =>
        if last line 0 =? 10 then                            (* path_str.ends_with('\n'), else: incomplete path *)
          match strip_prefix S_INDENT line with
          | None => RPErr
          | Some body =>
            if nonempty (str_trim line) then
              match path_from_escaped (strip_eol body) with
              | PErr => RPErr
              | PPanic => RPPanic
              | POk p =>
                match read_paths k rest with
                | RPOk ps rest' => RPOk (p :: ps) rest'
                | e => e
                end
              end
            else RPErr
          end
        else RPErr
      end
    end
  end.

(* TextReportIterator drained the way main.rs does (stop at the first Err).
   `count` is a usize in the code; reading more paths than there are bytes left fails anyway (every
   path line has at least one byte), so the model caps the unary recursion counter at the stream
   length + 1 instead of converting a possibly astronomically large number to nat. *)
Fixpoint read_groups (fuel : nat) (st : list N) : list group * gend :=
  match fuel with
  | O => ([], GErr)
  | S f =>
    match read_group_header (S (length st)) st with
    | GHNone => ([], GEnd)
    | GHErr => ([], GErr)
    | GHPanic => ([], GPanic)
    | GHOk h len cnt rest =>
      match read_paths (N.to_nat (N.min cnt (N.of_nat (S (length rest))))) rest with
      | RPErr => ([], GErr)
      | RPPanic => ([], GPanic)
      | RPOk ps rest' =>
        let (gs, e) := read_groups f rest' in (mkGroup h len ps :: gs, e)
      end
    end
  end.

(* header regexes *)
Definition take_digits (l : list N) : option (list N * list N) :=
  let (d, r) := span is_digit l in if nonempty d then Some (d, r) else None.

(* ^# Report by fclones ([0-9]+\.[0-9]+\.[0-9]+) *)
Definition re_version (l : list N) : option (list N) :=
  match strip_prefix P_VERSION l with
  | None => None
  | Some r =>
    match take_digits r with
    | Some (d1, b1 :: r1) =>
      if b1 =? 46 then
        match take_digits r1 with
        | Some (d2, b2 :: r2) =>
          if b2 =? 46 then
            match take_digits r2 with
            | Some (d3, _) => Some (d1 ++ [46] ++ d2 ++ [46] ++ d3)
            | None => None
            end
          else None
        | _ => None
        end
      else None
    | _ => None
    end
  end.

(* ^# Total: ([0-9]+) B \([^)]+\) in ([0-9]+) files in ([0-9]+) groups    (tail = " groups")
   ^# Redundant: ([0-9]+) B \([^)]+\) in ([0-9]+) files                   (no third number) *)
Definition re_size_count (prefix : list N) (l : list N) : option (list N * list N * list N) :=
  match strip_prefix prefix l with
  | None => None
  | Some r =>
    match take_digits r with
    | None => None
    | Some (d1, r1) =>
      match strip_prefix S_B_PAREN r1 with
      | None => None
      | Some r2 =>
        let (x, r3) := span (fun b => negb (b =? 41)) r2 in
        if nonempty x then
          match strip_prefix S_PAREN_IN r3 with
          | None => None
          | Some r4 =>
            match take_digits r4 with
            | None => None
            | Some (d2, r5) => Some (d1, d2, r5)
            end
          end
        else None
      end
    end
  end.

Definition re_total (l : list N) : option (list N * list N * list N) :=
  match re_size_count P_TOTAL l with
  | None => None
  | Some (d1, d2, r) =>
    match strip_prefix S_FILES_IN r with
    | None => None
    | Some r1 =>
      match take_digits r1 with
      | None => None
      | Some (d3, r2) => match strip_prefix S_GROUPS r2 with Some _ => Some (d1, d2, d3) | None => None end
      end
    end
  end.

Definition re_two (prefix : list N) (l : list N) : option (list N * list N) :=
  match re_size_count prefix l with
  | None => None
  | Some (d1, d2, r) => match strip_prefix S_FILES r with Some _ => Some (d1, d2) | None => None end
  end.

(* read_extract up to the regex: read a line, trim_start, strip the line terminator *)
Definition read_hline (st : list N) : option (list N * list N) :=
  match read_line st with
  | None => None
  | Some (line, rest) => Some (strip_eol (str_trim_start line), rest)
  end.

Section Report.
Variable human : N -> list N.
Variable TS : Type.
Variable fmt_ts : TS -> list N.
Variable parse_ts : list N -> option TS.

Record header := mkHeader { h_version : list N; h_ts : TS; h_command : list (list N);
                            h_base_dir : list N; h_stats : option stats }.

Definition size_line (prefix : list N) (size count : N) (tail : list N) : list N :=
  prefix ++ dec size ++ S_B_PAREN ++ human size ++ S_PAREN_IN ++ dec count ++ tail.

Definition write_stats (s : stats) : list N :=
  size_line P_TOTAL (s_total_size s) (s_total_count s) (S_FILES_IN ++ dec (s_groups s) ++ S_GROUPS) ++ NL ++
  size_line P_REDUNDANT (s_red_size s) (s_red_count s) S_FILES ++ NL ++
  size_line P_MISSING (s_miss_size s) (s_miss_count s) S_FILES ++ NL.

Definition write_header (h : header) : list N :=
  P_VERSION ++ h_version h ++ NL ++
  P_TIMESTAMP ++ fmt_ts (h_ts h) ++ NL ++
  P_COMMAND ++ join (h_command h) ++ NL ++
  P_BASE_DIR ++ path_to_escaped (h_base_dir h) ++ NL ++
  match h_stats h with Some s => write_stats s | None => [] end.

Definition write_path_line (p : list N) : list N := S_INDENT ++ path_to_escaped p ++ NL.

Definition write_group_header (g : group) : list N :=
  hex_encode (g_hash g) ++ S_COMMA ++ dec (g_len g) ++ S_B_PAREN ++ human (g_len g) ++ S_PAREN_STAR ++
  dec (N.of_nat (length (g_files g))) ++ [58] ++ NL.

Definition write_group (g : group) : list N :=
  write_group_header g ++ flat_map write_path_line (g_files g).

(* ReportWriter::write_as_text with color = false *)
Definition write_text (h : header) (gs : list group) : list N :=
  write_header h ++ flat_map write_group gs.

Inductive hres := HOk (h : header) (rest : list N) | HErr | HPanic.

(* TextReportReader::read_header *)
Definition read_header (st : list N) : hres :=
  match read_hline st with None => HErr | Some (l1, st1) =>
  match re_version l1 with None => HErr | Some version =>
  match read_hline st1 with None => HErr | Some (l2, st2) =>
  match strip_prefix P_TIMESTAMP l2 with None => HErr | Some tsraw =>
  match parse_ts (str_trim tsraw) with None => HErr | Some ts =>
  match read_hline st2 with None => HErr | Some (l3, st3) =>
  match strip_prefix P_COMMAND l3 with None => HErr | Some cmdraw =>
  match split cmdraw with
  | SErr | SNotStr => HErr
  | SPanic => HPanic
  | SOk command =>
  match read_hline st3 with None => HErr | Some (l4, st4) =>
  match strip_prefix P_BASE_DIR l4 with None => HErr | Some bdraw =>
  match path_from_escaped bdraw with
  | PErr => HErr
  | PPanic => HPanic
  | POk base_dir =>
  match read_hline st4 with None => HErr | Some (l5, st5) =>
  match re_total l5 with None => HErr | Some (t1, t2, t3) =>
  match parse_u64 t1, parse_u64 t2, parse_u64 t3 with
  | Some total_size, Some total_count, Some group_count =>
  match read_hline st5 with None => HErr | Some (l6, st6) =>
  match re_two P_REDUNDANT l6 with None => HErr | Some (r1, r2) =>
  match parse_u64 r1, parse_u64 r2 with
  | Some red_size, Some red_count =>
  match read_hline st6 with None => HErr | Some (l7, st7) =>
  match re_two P_MISSING l7 with None => HErr | Some (m1, m2) =>
  match parse_u64 m1, parse_u64 m2 with
  | Some miss_size, Some miss_count =>
    HOk (mkHeader version ts command base_dir
           (Some (mkStats group_count total_count total_size red_count red_size miss_count miss_size))) st7
  | _, _ => HErr end end end
  | _, _ => HErr end end end
  | _, _, _ => HErr end end end end end end end end end end end end end end.

Inductive report_res :=
| RepText (h : header) (gs : list group) (e : gend)
| RepHeaderErr | RepHeaderPanic
| RepJson                       (* handed to serde_json: not modelled *)
| RepUnknown.                   (* Err: unknown report format *)

(* open_report + read_header + read_groups drained *)
Definition read_report (st : list N) : report_res :=
  match lossy st with
  | c :: _ =>
    if chr c 123 then RepJson
    else if chr c 35 then
      match read_header st with
      | HErr => RepHeaderErr
      | HPanic => RepHeaderPanic
      | HOk h rest => let (gs, e) := read_groups (S (length rest)) rest in RepText h gs e
      end
    else RepUnknown
  | [] => RepUnknown
  end.

End Report.
