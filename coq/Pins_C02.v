(* Pins_C02.v — the statements of Props_C02.v, pinned. *)
From Coq Require Import Permutation.
From FV Require Import Base SortLib DedupeModel DedupeProofs.
From FV Require Import FsModel AtomicModel EffectsModel EffectsProofs4 EffectsProofs5 EffectsWitness Props_C02.
Open Scope N_scope.
Check C02_order_independent : forall ax e sl op c sm s r,
  run_ok ax e sl op c sm s r ->
  let cs := map (fcmd_of e) (run_cmds ax op c sm s r) in
  plan_ok sl s cs /\
  forall cs', Permutation cs cs' ->
    obs_eq s (final_fs sl cs s) (final_fs sl cs' s) /\
    Forall (fun x => x = IOk) (sresults (whole_run sl cs s)) /\ Forall (fun x => x = IOk) (sresults (whole_run sl cs' s)).
Check C02_contents_preserved_except_K2 : forall ax e sl op c sm s r,
  run_ok ax e sl op c sm s r ->
  let cs := map (fcmd_of e) (run_cmds ax op c sm s r) in
  ~ K2 s r cs ->
  forall cs', Permutation cs cs' ->
    (forall b, stored s b -> stored (final_fs sl cs' s) b) /\
    (forall p, ~ In p (rpaths r) -> (forall q, In q (rpaths r) -> p <> tmp_of e q) -> untouched s (final_fs sl cs' s) p).
Check C02_replicas_untouched : forall ax e sl op c sm s r,
  run_ok ax e sl op c sm s r ->
  let cs := map (fcmd_of e) (run_cmds ax op c sm s r) in
  forall cs' g files part kept dropped, Permutation cs cs' ->
    In g r -> group_files ax s g = Some files -> In part (group_parts op files) ->
    partition c (glen g) part = Ok (kept, dropped) ->
    exists ks ds, kept = concat ks /\ dropped = concat ds /\
      Permutation (ks ++ ds) (subgroups c (survivors c (glen g) part)) /\
      (Nat.min (nkeep c) (length (subgroups c (survivors c (glen g) part))) <= length ks)%nat /\
      forall sg m, In sg ks -> In m sg -> untouched s (final_fs sl cs' s) (mpath m).
Check C02_links_read_back_except_K7 : forall ax e sl op c sm s r,
  run_ok ax e sl op c sm s r ->
  op = OpSoftLink \/ op = OpHardLink \/ op = OpRefLink ->
  let cs := map (fcmd_of e) (run_cmds ax op c sm s r) in
  ~ K7 s cs ->
  forall cs', Permutation cs cs' ->
  forall p i d, names s p = Some (NFile i) -> inodes s i = Some d -> rread (final_fs sl cs' s) p = Some (ibytes d).
Check C02_move_safe : forall ax e dir c sm s r sl o i,
  report_ok s r -> wf s -> victims_regular s (run_cmds ax (OpMove dir) c sm s r) ->
  let cs := map (fcmd_of e) (run_cmds ax (OpMove dir) c sm s r) in
  forall cs', Permutation cs cs' ->
    let st := sfs (run_script sl o i cs' s) in
    (forall b, stored s b -> stored st b) /\
    (forall p j, ~ In p (rpaths r) -> names s p = Some (NFile j) -> untouched s st p) /\
    (forall p, names s p = Some NDir -> names st p = Some NDir) /\
    (forall m j, In m (all_kept ax (OpMove dir) c s r) -> names s (mpath m) = Some (NFile j) -> untouched s st (mpath m)).
Check C02_move_readable : forall ax e dir c sm s r sl o i,
  report_ok s r -> wf s -> victims_regular s (run_cmds ax (OpMove dir) c sm s r) ->
  let cs := map (fcmd_of e) (run_cmds ax (OpMove dir) c sm s r) in
  forall cs', Permutation cs cs' ->
  let out := run_script sl o i cs' s in
  forall fc res, In (fc, res) (combine cs' (sresults out)) -> res = IOk ->
  forall i0 d0, names s (victim fc) = Some (NFile i0) -> inodes s i0 = Some d0 ->
  exists j dj, names (sfs out) (move_target_of fc) = Some (NFile j) /\ inodes (sfs out) j = Some dj /\ ibytes dj = ibytes d0.
Check C02_K2_witness : exists ax e op c sm s r,
  (forall sl, run_ok ax e sl op c sm s r) /\
  let cs := map (fcmd_of e) (run_cmds ax op c sm s r) in
  K2 s r cs /\ exists b, stored s b /\ forall sl, ~ stored (final_fs sl cs s) b.
Check C02_K7_witness : exists ax e c sm s r p i d,
  run_ok ax e true OpHardLink c sm s r /\
  let cs := map (fcmd_of e) (run_cmds ax OpHardLink c sm s r) in
  K7 s cs /\ names s p = Some (NFile i) /\ inodes s i = Some d /\ rread (final_fs true cs s) p <> Some (ibytes d).
Check C02_order_symlink_victim_witness : exists s c1 c2 p,
  names (final_fs true [c1; c2] s) p <> names (final_fs true [c2; c1] s) p /\
  processed_count (whole_run true [c1; c2] s) <> processed_count (whole_run true [c2; c1] s).
