(* Props_C09.v — property C09: the scan selects exactly the files the options describe (engine W).
   Statements only; every proof is `exact <lemma of WalkProofs*>`.

   Model: WalkModel.v (walk.rs run/visit_path/visit_entry/visit_file/visit_link/visit_dir/resolve_link/
   absolute, group.rs scan_files size filter + deduplicate) — a pool of tasks with an explicit scheduler
   `sched` (the rayon schedule), the selector as abstract functions sel_file = matches_full_path and
   sel_dir = matches_dir, ignore files as an oracle ign1.
   Declarative reading: WalkProofs.selected _ _ _ t c false roots x = "x is reachable from an input path
   through directory entries (and, with follow_links, through links), at most `depth` directory levels
   deep, no entry visited at a level > 0 (i.e. strictly below the input path; the input path itself may be
   hidden) has a hidden name unless --hidden, no entry is matched by an ignore file collected on the way
   unless --no-ignore, every step stays on the device of
   the input path with --one-fs, and x is a regular file, or with -S a link to one, that sel_file
   accepts".  selected ... true ... is the same with the matches_dir tests of the code.
   Quantification: every tree (cycles, dangling links, duplicate keys included), every configuration,
   every list of input paths, every selector / ignore oracle, EVERY scheduler.

   Known findings (not fixed in the code, reproduced by the model):
   * N1: with follow_links the visited set is consulted before level / ignore stack / device are
     considered, so the result depends on the schedule and selected files can be lost
     (C09_N1_witness).  C09_exact is therefore stated for follow_links = false (the class N1 is exactly
     follow_links = true); C09_exact_follow_partial covers follow_links = true when nothing depends on
     the route (--no-ignore, no --one-fs, --depth larger than the tree, no directory pruned, and the
     hidden-name test — which is skipped at level 0 — never fires: --hidden or no hidden name).
     Missing for the full statement: it is false in the model and in the code.
   * N2: with follow_links pruning is applied to the directories of the route, which are not
     ancestors of the file (C09_N2_witness): conservativity of matches_dir does not help.
   * K3 (--exclude /x/b pruned /x/bar) was repaired in the code (f55c3e7); C09_exact_exclude states the
     exactness with --exclude under the component-aligned prefix hypotheses, which the correspondence
     harness evaluates on every generated case (a regression is a VIOLATION
     `exclude_prefix_prunes_sibling` with the concrete input).
   * N4 (hidden input path skipped) was fixed in the code (b49314c): the hidden test applies at level > 0. *)
From FV Require Import Base WalkModel WalkProofs WalkProofs2 WalkProofs3 WalkProofs4 WalkProofs5.
Open Scope N_scope.

(* Whatever is reported was selected — all configurations, all schedulers. *)
Theorem C09_sound :
  forall sel_file sel_dir ign1 t c sched roots l x,
    walk sel_file sel_dir ign1 t c sched roots = Done l -> In x l ->
    selected sel_file sel_dir ign1 t c true roots x /\ selected sel_file sel_dir ign1 t c false roots x.
Proof. exact stmt_sound. Qed.
Print Assumptions C09_sound.

(* Exactness of the whole scan (walk, --min/--max, deduplication) against the declarative reading,
   under pruning conservativity (C16_partial_conservative), links not followed (= outside N1/N2). *)
Theorem C09_exact :
  forall sel_file sel_dir ign1 t c sched roots l x,
    conservative sel_file sel_dir ->                       (* C16_partial_conservative *)
    c_follow c = false ->                                  (* ~ N1 *)
    scan sel_file sel_dir ign1 t c sched roots = Done l ->
    (In x l <-> selected sel_file sel_dir ign1 t c false roots x /\ size_ok t c x = true).
Proof. exact stmt_exact. Qed.
Print Assumptions C09_exact.

(* Exactness WITH --exclude (K3 is repaired: Pattern::matches_prefix stops at component boundaries).
   excl d = "some --exclude pattern matches the path d fully"; the hypotheses are the selector-level facts
   (engine P): (1) matches_dir rejects a PROPER ancestor of an accepted path only if an exclude pattern matches that
   directory or one above it (the path of a reported file or link is itself never filtered: visit_path
   filters the parent of a regular file or link since b09e022 / 81dbf73), (2) it rejects everything at or below an excluded
   path, (3) an excluded path is not accepted as a file.  The reference reading: an excluded directory
   is ignored with everything below it = pruning with `not_below excl` (which is not the code's
   matches_dir).  C09_exact is the special case excl = fun _ => false. *)
Theorem C09_exact_exclude :
  forall sel_file sel_dir ign1 t c excl sched roots l x,
    (forall p d, sel_file p = true -> prefix d p -> d <> p ->
                 sel_dir d = true \/ exists d', prefix d' d /\ excl d' = true) ->
    (forall d d', excl d' = true -> prefix d' d -> sel_dir d = false) ->
    (forall p, sel_file p = true -> excl p = false) ->
    c_follow c = false ->
    scan sel_file sel_dir ign1 t c sched roots = Done l ->
    (In x l <-> selected sel_file (not_below excl) ign1 t c true roots x /\ size_ok t c x = true).
Proof. exact stmt_exact_exclude. Qed.
Print Assumptions C09_exact_exclude.

(* With link following: exact when the options are route independent. *)
(* (the level-dependent hidden test is one more route-dependent option: an input path /r/l -> .h that is
   also reached through /r at level 1 is recorded as visited there, and its hidden target is dropped) *)
Theorem C09_exact_follow_partial :
  forall sel_file sel_dir ign1 t c sched roots l x,
    c_follow c = true -> c_no_ignore c = true -> c_one_fs c = false ->
    N.of_nat (length (keys t)) < c_depth c -> (forall p, sel_dir p = true) ->
    (c_hidden c = true \/ forall p, In p (keys t) -> name_hidden p = false) ->
    scan sel_file sel_dir ign1 t c sched roots = Done l ->
    (In x l <-> selected sel_file sel_dir ign1 t c false roots x /\ size_ok t c x = true).
Proof. exact stmt_exact_follow. Qed.
Print Assumptions C09_exact_follow_partial.

(* N1 (class: follow_links = true): a tree, a configuration with follow_links and two schedulers: one
   reports /d/f, which is selected, the other (LIFO = rayon with one thread) loses it — so the
   conclusion of C09_exact fails for the second scheduler. *)
Theorem C09_N1_witness :
  exists t c roots s1 s2 l1 l2 x,
    c_follow c = true /\ conservative all_true all_true /\
    walk all_true all_true no_ign t c s1 roots = Done l1 /\
    walk all_true all_true no_ign t c s2 roots = Done l2 /\
    In x l1 /\ selected all_true all_true no_ign t c false roots x /\ ~ In x l2.
Proof. exact stmt_N1. Qed.
Print Assumptions C09_N1_witness.

(* N2: a conservative selector, follow_links, a selected file that no tested schedule reports. *)
Theorem C09_N2_witness :
  exists sel_file sel_dir t c roots x,
    conservative sel_file sel_dir /\ c_follow c = true /\
    selected sel_file sel_dir no_ign t c false roots x /\
    walk sel_file sel_dir no_ign t c sched_lifo roots = Done [] /\
    walk sel_file sel_dir no_ign t c sched_fifo roots = Done [].
Proof. exact stmt_N2. Qed.
Print Assumptions C09_N2_witness.

(* Directory pruning is only an optimisation: with a conservative matches_dir the walk reports the
   same files as a walk that never prunes (any two schedulers). *)
Theorem C09_prune_conservative :
  forall sel_file sel_dir ign1 t c sched sched' roots l l' x,
    conservative sel_file sel_dir -> c_follow c = false ->
    walk sel_file sel_dir ign1 t c sched roots = Done l ->
    walk sel_file (fun _ => true) ign1 t c sched' roots = Done l' ->
    (In x l <-> In x l').
Proof. exact stmt_prune. Qed.
Print Assumptions C09_prune_conservative.

(* Symlink cycles (and everything else) terminate: walk_bound is enough fuel for every tree,
   configuration, scheduler; the out-of-fuel outcome is unreachable. *)
Theorem C09_cycles_terminate :
  forall sel_file sel_dir ign1 t c sched roots fuel,
    (walk_bound t c roots <= fuel)%nat ->
    exists l, run sel_file sel_dir ign1 t c sched fuel (root_tasks t c roots) [] [] = Done l.
Proof. exact stmt_terminate. Qed.
Print Assumptions C09_cycles_terminate.

(* Overlapping / repeated input paths: the final list has no duplicates, and (outside N1) nothing
   selected from any sub-list of the input paths is lost. *)
Theorem C09_overlap_no_loss :
  forall sel_file sel_dir ign1 t c sched roots l,
    scan sel_file sel_dir ign1 t c sched roots = Done l ->
    NoDup l /\
    (conservative sel_file sel_dir -> c_follow c = false ->
     forall roots0 x, incl roots0 roots -> selected sel_file sel_dir ign1 t c false roots0 x ->
                      size_ok t c x = true -> In x l).
Proof. exact stmt_overlap. Qed.
Print Assumptions C09_overlap_no_loss.

(* Non-vacuity: the hypotheses of C09_exact / C09_overlap_no_loss hold for a tree with a link, two
   overlapping input paths (/ and /d) and depth 2, and the scan reports /d/f exactly once;
   the hypotheses of C09_exact_follow_partial hold for the same tree with follow_links. *)
Example C09_exact_inhabited :
  conservative all_true all_true /\ c_follow wcfg3 = false /\
  scan all_true all_true no_ign wtree wcfg3 sched_lifo [[]; [nD]] = Done [[nD; nF]].
Proof. split; [intros ? ? ? ?; reflexivity|]. split; [reflexivity|exact ex_nofollow]. Qed.

Example C09_exact_follow_inhabited :
  c_follow wcfg2 = true /\ c_no_ignore wcfg2 = true /\ c_one_fs wcfg2 = false /\
  N.of_nat (length (keys wtree)) < c_depth wcfg2 /\
  (forall p, In p (keys wtree) -> name_hidden p = false) /\
  scan all_true all_true no_ign wtree wcfg2 sched_lifo [[]] = Done [[nD; nF]].
Proof. destruct ex_follow as (H1 & H2 & H3). repeat split; auto. Qed.

(* a hidden input path is scanned, a hidden directory below an input path is not (no --hidden) *)
Example C09_hidden_root_scanned :
  scan all_true all_true no_ign htree wcfg3 sched_lifo [[nH]] = Done [[nH; nF]] /\
  scan all_true all_true no_ign htree wcfg3 sched_lifo [[]] = Done [].
Proof. exact ex_hidden_root. Qed.

(* the hypotheses of C09_exact_exclude are satisfiable: --exclude /a on the witness tree *)
Example C09_exact_exclude_inhabited :
  (forall p d, xsel_file p = true -> prefix d p -> d <> p ->
               xsel_dir d = true \/ exists d', prefix d' d /\ xexcl d' = true) /\
  (forall d d', xexcl d' = true -> prefix d' d -> xsel_dir d = false) /\
  (forall p, xsel_file p = true -> xexcl p = false) /\
  scan xsel_file xsel_dir no_ign wtree wcfg3 sched_lifo [[]] = Done [[nD; nF]].
Proof. exact ex_exclude. Qed.

(* With --follow-links the walk itself delivers every path at most once, for every tree (cycles, several links to one
   directory, overlapping input paths), configuration and SCHEDULER: the visited set is looked up and updated in one atomic
   step and a path is sent only in the step that records it.  (The walk-level half of "no path listed twice" - C03 - and of
   "the body does not depend on the interleaving of the walker threads" - C13 - for link-following scans; splitting the
   look-up from the insert, or dropping group.rs deduplicate for "single root" scans, breaks exactly this.) *)
Theorem C09_follow_delivers_once :
  forall sel_file sel_dir ign1 t c sched roots l,
    c_follow c = true ->
    walk sel_file sel_dir ign1 t c sched roots = Done l -> NoDup l.
Proof. exact stmt_follow_walk_nodup. Qed.
Print Assumptions C09_follow_delivers_once.

(* ... so with --follow-links group.rs deduplicate has nothing to remove: the scan result is the size-filtered walk output *)
Theorem C09_follow_scan_is_walk :
  forall sel_file sel_dir ign1 t c sched roots found,
    c_follow c = true ->
    walk sel_file sel_dir ign1 t c sched roots = Done found ->
    scan sel_file sel_dir ign1 t c sched roots = Done (filter (size_ok t c) found).
Proof. exact stmt_follow_scan_is_walk. Qed.
Print Assumptions C09_follow_scan_is_walk.

(* An input path that cannot be stat-ed (vanished, dangling link) is left out alone: walk and scan are those of the remaining
   input paths, wherever it stands in the list (the walk-level half of C15 for input paths; `return` instead of `continue`
   after the failing path breaks exactly this). *)
Theorem C09_missing_input_path_ignored :
  forall sel_file sel_dir ign1 t c sched r1 bad r2,
    stat t (absolute t bad) = None ->
    walk sel_file sel_dir ign1 t c sched (r1 ++ bad :: r2) = walk sel_file sel_dir ign1 t c sched (r1 ++ r2) /\
    scan sel_file sel_dir ign1 t c sched (r1 ++ bad :: r2) = scan sel_file sel_dir ign1 t c sched (r1 ++ r2).
Proof. exact stmt_missing_root_ignored. Qed.
Print Assumptions C09_missing_input_path_ignored.

(* Non-vacuity: /d/f reachable directly and through two links is delivered once under three schedules *)
Example C09_follow_delivers_once_inhabited :
  c_follow w5cfg = true /\
  walk w5all w5all w5ign w5tree w5cfg sched_lifo [[]] = Done [[w5D; w5F]] /\
  walk w5all w5all w5ign w5tree w5cfg sched_fifo [[]] = Done [[w5D; w5F]] /\
  walk w5all w5all w5ign w5tree w5cfg (sched_rand 7) [[]] = Done [[w5D; w5F]].
Proof. exact ex_follow_two_links. Qed.
