(* SemModel.v — executable model of fclones/src/semaphore.rs (engine S, property C19).

   Modelled code:
     acquire():  let mut count = self.lock.lock().unwrap();          WantA --lock--> ChkA
                 while *count <= 0 { count = self.cvar.wait(count) } ChkA --wait(count<=0)--> Sleep
                                                                      Sleep --notified|spurious--> Woken --relock--> ChkA
                 *count -= 1;                                         ChkA --take(count>0)--> UnlA
                 (guard dropped)                                      UnlA --unlock--> Idle
     release():  *self.lock.lock().unwrap() += 1;                     WantR --lock--> IncR --inc+unlock--> NotR
                 self.cvar.notify_one();                              NotR --notify(any sleeper | none)--> Idle
   Guards (SemaphoreGuard / OwnedSemaphoreGuard) are modelled as a per-thread number of held permits;
   an owned guard may be handed to another thread (LSend) and is released by whoever drops it.

   Threads are list indices: any number of threads, any number of steps.  Every source of
   nondeterminism (scheduling, the sleeper chosen by notify_one, spurious wake-ups, when a thread
   starts its next operation) is a label; [fire] is the single definition both the proofs and the
   extracted trace validator use.  No proofs in this file. *)
From FV Require Import Base.
Open Scope Z_scope.

Inductive pc := Idle | WantA | ChkA | Sleep | Woken | UnlA | WantR | IncR | NotR.

Definition pc_eqb (a b : pc) : bool :=
  match a, b with
  | Idle, Idle | WantA, WantA | ChkA, ChkA | Sleep, Sleep | Woken, Woken
  | UnlA, UnlA | WantR, WantR | IncR, IncR | NotR, NotR => true
  | _, _ => false
  end.

Definition tid := nat.

Record st := mkSt { count : Z; mutex : option tid; pcs : list pc; held : list nat }.

Inductive label :=
| LStartA (t : tid)            (* thread t calls acquire() *)
| LLockA (t : tid)             (* ... obtains the mutex *)
| LTake (t : tid)              (* ... sees count > 0 and decrements *)
| LWait (t : tid)              (* ... sees count <= 0: atomically unlock + sleep on the condvar *)
| LUnlockA (t : tid)           (* ... drops the MutexGuard, acquire() returns *)
| LSpurious (t : tid)          (* sleeper t wakes without a notification *)
| LRelock (t : tid)            (* woken thread re-obtains the mutex inside wait() *)
| LStartR (t : tid)            (* thread t drops a guard it owns: release() *)
| LLockR (t : tid)
| LInc (t : tid)               (* increment and unlock (one statement, temporary guard) *)
| LNotify (t : tid) (u : option tid)  (* notify_one: wakes sleeper u; None only when nobody sleeps *)
| LSend (t u : tid).           (* t hands an owned guard to u *)

Definition isSleep p := match p with Sleep => true | _ => false end.
Definition isNot p := match p with NotR => true | _ => false end.
Definition isK p := match p with Woken | ChkA => true | _ => false end.
Definition isPreInc p := match p with WantR | IncR => true | _ => false end.
Definition holdsMutex p := match p with ChkA | UnlA | IncR => true | _ => false end.

Definition set_pc (s : st) (t : tid) (p : pc) : st :=
  mkSt (count s) (mutex s) (upd (pcs s) t p) (held s).

Definition mutex_free (s : st) : bool := match mutex s with None => true | Some _ => false end.

Definition at_pc (s : st) (t : tid) (p : pc) : bool :=
  match nth_error (pcs s) t with Some q => pc_eqb q p | None => false end.

Definition fire (s : st) (l : label) : option st :=
  match l with
  | LStartA t => if at_pc s t Idle then Some (set_pc s t WantA) else None
  | LLockA t => if at_pc s t WantA && mutex_free s
                then Some (mkSt (count s) (Some t) (upd (pcs s) t ChkA) (held s)) else None
  | LTake t => if at_pc s t ChkA && (0 <? count s)
               then match nth_error (held s) t with
                    | Some h => Some (mkSt (count s - 1) (mutex s) (upd (pcs s) t UnlA) (upd (held s) t (S h)))
                    | None => None
                    end
               else None
  | LWait t => if at_pc s t ChkA && (count s <=? 0)
               then Some (mkSt (count s) None (upd (pcs s) t Sleep) (held s)) else None
  | LUnlockA t => if at_pc s t UnlA
                  then Some (mkSt (count s) None (upd (pcs s) t Idle) (held s)) else None
  | LSpurious t => if at_pc s t Sleep then Some (set_pc s t Woken) else None
  | LRelock t => if at_pc s t Woken && mutex_free s
                 then Some (mkSt (count s) (Some t) (upd (pcs s) t ChkA) (held s)) else None
  | LStartR t => if at_pc s t Idle
                 then match nth_error (held s) t with
                      | Some (S h) => Some (mkSt (count s) (mutex s) (upd (pcs s) t WantR) (upd (held s) t h))
                      | _ => None
                      end
                 else None
  | LLockR t => if at_pc s t WantR && mutex_free s
                then Some (mkSt (count s) (Some t) (upd (pcs s) t IncR) (held s)) else None
  | LInc t => if at_pc s t IncR
              then Some (mkSt (count s + 1) None (upd (pcs s) t NotR) (held s)) else None
  | LNotify t (Some u) => if at_pc s t NotR && at_pc s u Sleep
                          then Some (mkSt (count s) (mutex s) (upd (upd (pcs s) u Woken) t Idle) (held s))
                          else None
  | LNotify t None => if at_pc s t NotR && (cnt isSleep (pcs s) =? 0)
                      then Some (set_pc s t Idle) else None
  | LSend t u => if at_pc s t Idle && negb (Nat.eqb t u)
                 then match nth_error (held s) t, nth_error (held s) u with
                      | Some (S h), Some k =>
                          Some (mkSt (count s) (mutex s) (pcs s) (upd (upd (held s) t h) u (S k)))
                      | _, _ => None
                      end
                 else None
  end.

Definition init (permits : Z) (n : nat) : st := mkSt permits None (repeat Idle n) (repeat 0%nat n).

Definition step (s s' : st) : Prop := exists l, fire s l = Some s'.

Inductive reachable (permits : Z) (n : nat) : st -> Prop :=
| r_init : reachable permits n (init permits n)
| r_step s s' : reachable permits n s -> step s s' -> reachable permits n s'.

(* Steps the system takes on its own once operations have been started: everything except
   starting a new operation, handing over a guard, and spurious wake-ups. *)
Definition internal (l : label) : bool :=
  match l with
  | LStartA _ | LStartR _ | LSend _ _ | LSpurious _ => false
  | _ => true
  end.

Definition istep (s s' : st) : Prop := exists l, internal l = true /\ fire s l = Some s'.

Definition holders (s : st) : Z := zsum (held s).
Definition sleepers (s : st) : Z := cnt isSleep (pcs s).

(* ---------------------------------------------------------------------------------------------
   Trace validation: the events the instrumented implementation emits, replayed on [fire]. *)
Inductive event :=
| EAcq (t : tid)                 (* harness: thread t calls acquire()/access()/access_owned() *)
| ERel (t : tid)                 (* harness: thread t drops a guard -> release() *)
| ELock (t : tid)                (* Mutex::lock granted / re-granted inside Condvar::wait *)
| EUnlock (t : tid) (v : Z)      (* MutexGuard dropped; v = protected counter at that moment *)
| EWait (t : tid) (v : Z)        (* Condvar::wait entered (mutex released); v = counter *)
| ENotify (t : tid) (u : option tid)
| ESpurious (t : tid)
| ESend (t u : tid).

Definition bind {A B} (o : option A) (f : A -> option B) : option B :=
  match o with Some a => f a | None => None end.

Definition check_count (v : Z) (s : st) : option st := if count s =? v then Some s else None.

Definition labels_of (s : st) (e : event) : list label :=
  match e with
  | EAcq t => [LStartA t]
  | ERel t => [LStartR t]
  | ELock t => match nth_error (pcs s) t with
               | Some WantA => [LLockA t]
               | Some Woken => [LRelock t]
               | Some WantR => [LLockR t]
               | _ => []
               end
  | EUnlock t _ => match nth_error (pcs s) t with
                   | Some ChkA => [LTake t; LUnlockA t]
                   | Some IncR => [LInc t]
                   | _ => []
                   end
  | EWait t _ => [LWait t]
  | ENotify t u => [LNotify t u]
  | ESpurious t => [LSpurious t]
  | ESend t u => [LSend t u]
  end.

Fixpoint fire_all (s : st) (ls : list label) : option st :=
  match ls with
  | [] => Some s
  | l :: ls => bind (fire s l) (fun s' => fire_all s' ls)
  end.

Definition apply_event (s : st) (e : event) : option st :=
  match labels_of s e with
  | [] => None
  | ls => bind (fire_all s ls)
               (fun s' => match e with
                          | EUnlock _ v | EWait _ v => check_count v s'
                          | _ => Some s'
                          end)
  end.

(* returns (index of the first rejected event, state reached) *)
Fixpoint validate (s : st) (es : list event) (i : nat) : option nat * st :=
  match es with
  | [] => (None, s)
  | e :: es => match apply_event s e with
               | Some s' => validate s' es (S i)
               | None => (Some i, s)
               end
  end.

(* Monitors evaluated by the harness on the state reached. *)
Definition quiescent (s : st) : bool :=
  forallb (fun p => match p with Idle | Sleep => true | _ => false end) (pcs s).
Definition lost_wakeup (s : st) : bool := quiescent s && (0 <? sleepers s) && (0 <? count s).
Definition over_admitted (permits : Z) (s : st) : bool := (0 <=? permits) && (permits <? holders s).
