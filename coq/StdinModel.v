(* StdinModel.v — config.rs GroupConfig::input_paths with --stdin (after fix 96dbe61): the input is split at '\n' as BYTES
   (BufRead::split: the terminator is not part of an item, a final unterminated item is an item, nothing follows a final '\n'),
   one trailing '\r' is removed from every item, every item is a path.  No decoding, no trimming, no filtering. *)
From FV Require Import Base.
Open Scope N_scope.

(* BufRead::split(b'\n'): cur = the item being collected (None: between items) *)
Fixpoint split_nl (cur : option (list N)) (bytes : list N) : list (list N) :=
  match bytes with
  | [] => match cur with Some item => [item] | None => [] end
  | b :: rest =>
    if b =? 10 then (match cur with Some item => item | None => [] end) :: split_nl None rest
    else split_nl (Some ((match cur with Some item => item | None => [] end) ++ [b])) rest
  end.

(* `if line.ends_with(b"\r") { line.pop(); }` *)
Definition strip_cr (item : list N) : list N :=
  match rev item with
  | 13 :: r => rev r
  | _ => item
  end.

Definition stdin_paths (input : list N) : list (list N) := map strip_cr (split_nl None input).
