(* CacheModel.v — executable model of the persistent hash cache (engine K, property C12).

   Modelled code (fclones/src, read as it is NOW):
     cache.rs   Key {file_id, chunk_pos, chunk_len}; CachedFileInfo {modified_timestamp_ms, file_len,
                data_len, hash}; HashCache::open  -> one sled tree per id
                     format!("hash_db:{:?}:{}", algorithm, transform.unwrap_or("<none>"))
                HashCache::key = (metadata.file_id(), chunk.pos, chunk.len)
                HashCache::put stores (timestamp_ms(mtime): whole ms since the epoch, rounded towards zero and
                     negated (wrapping) for an mtime before the epoch; file len; data_len; hash)
                HashCache::get returns None unless the stored ms and file_len equal the current ones
     hasher.rs  FileHasher::hash_file        (stat -> key -> load_hash; on a miss hash the chunk, `?` on a
                                              failed read leaves BEFORE store_hash; store (chunk.len, hash))
                FileHasher::hash_transformed (assert pos = 0; same lookup; run the transform, hash its whole
                                              output; a failed read / non-zero exit status returns Err
                                              BEFORE store_hash; store (output length, hash))
     group.rs   with a transform ONLY hash_transformed is called, without one ONLY hash_file; file
                contents are reached through these two calls only.

   State: the sled database is a map  tree id -> (Key -> CachedFileInfo); here one association list
   keyed by (tree id, key) (the newest binding of a key is the visible one; older bindings of the same
   key can only become visible again through [EvLose], which models entries lost by a crash before
   the flush).  The tree id is what the code really uses: the algorithm and the transform id string
   built by FileHasher::new_cached (command string, NUL, "--in-place" or nothing, NUL, "--no-copy" or nothing)
   or the literal "<none>".

   World: inodes (content bytes, mtime in ns since the epoch as a Z, possibly negative) and names.
   External functions are parameters: H a bytes (the hash function number a) and T conf bytes (the
   transform: None = it failed).  No proofs in this file. *)
From FV Require Import Base.
Open Scope N_scope.
Arguments N.add : simpl never.
Arguments N.sub : simpl never.
Arguments N.eqb : simpl never.
Arguments N.pred : simpl never.
Arguments Z.div : simpl never.
Arguments Z.quot : simpl never.
Arguments Z.modulo : simpl never.
Arguments Z.to_N : simpl never.

Definition bytes := list N.
Definition hashv := list N.
Definition fid := (N * N)%type.                  (* (device, inode) *)
Definition key := (fid * N * N)%type.            (* (file_id, chunk_pos, chunk_len) *)
(* transform.rs `Transform`: command_str, in_place, copy (copy = "$IN occurs in the command" and not --no-copy) *)
Record tconf := mkT { t_cmd : list N; t_inplace : bool; t_copy : bool }.
Definition treeid := (N * list N)%type.          (* (algorithm, transform id string or "<none>") *)
Definition none_str : list N := [60; 110; 111; 110; 101; 62].     (* "<none>" *)
Definition inplace_str : list N := [45; 45; 105; 110; 45; 112; 108; 97; 99; 101].   (* "--in-place" *)
Definition nocopy_str : list N := [45; 45; 110; 111; 45; 99; 111; 112; 121].        (* "--no-copy" *)
(* hasher.rs new_cached: command_str + NUL + ("--in-place" if in_place) + NUL + ("--no-copy" if !copy);
   NUL cannot occur in a command line argument, so the three parts can be read back *)
Definition transform_id (c : tconf) : list N :=
  t_cmd c ++ 0 :: (if t_inplace c then inplace_str else []) ++ 0 :: (if t_copy c then [] else nocopy_str).
Definition tree_of (a : N) (tr : option tconf) : treeid :=
  (a, match tr with None => none_str | Some c => transform_id c end).

(* e_mt: the u64 `timestamp_ms` read as a signed number (wrapping_neg of the pre-epoch value); the two
   readings agree for every mtime within 2^63 ms of the epoch *)
Record entry := mkE { e_mt : Z; e_fl : N; e_dl : N; e_h : hashv }.
Definition cache := list ((treeid * key) * entry).

Fixpoint list_eqb (x y : list N) : bool :=
  match x, y with
  | [], [] => true
  | a :: x', b :: y' => (a =? b) && list_eqb x' y'
  | _, _ => false
  end.
Definition fid_eqb (x y : fid) : bool := (fst x =? fst y) && (snd x =? snd y).
Definition key_eqb (x y : key) : bool :=
  let '(i1, p1, l1) := x in let '(i2, p2, l2) := y in fid_eqb i1 i2 && (p1 =? p2) && (l1 =? l2).
Definition tree_eqb (x y : treeid) : bool := (fst x =? fst y) && list_eqb (snd x) (snd y).

Fixpoint lookup (t : treeid) (k : key) (c : cache) : option entry :=
  match c with
  | [] => None
  | ((t', k'), e) :: c' => if tree_eqb t t' && key_eqb k k' then Some e else lookup t k c'
  end.

(* ---- metadata as the cache sees it ---- *)
Record meta := mkM { m_id : fid; m_mtime : Z; m_len : N }.

(* cache.rs timestamp_ms: whole ms since the epoch for t >= epoch, minus the whole ms of (epoch - t) before it:
   rounding TOWARDS ZERO (so every t with -1 ms < t < 1 ms gives 0) *)
Definition code_ms (mt : Z) : Z := Z.quot mt 1000000.

Definition cache_key (m : meta) (pos len : N) : key := (m_id m, pos, len).

Definition cache_get (t : treeid) (k : key) (m : meta) (c : cache) : option (N * hashv) :=
  match lookup t k c with
  | None => None
  | Some e => if negb (Z.eqb (e_mt e) (code_ms (m_mtime m))) || negb (e_fl e =? m_len m) then None
              else Some (e_dl e, e_h e)
  end.

Definition cache_put (t : treeid) (k : key) (m : meta) (dl : N) (h : hashv) (c : cache) : cache :=
  ((t, k), mkE (code_ms (m_mtime m)) (m_len m) dl h) :: c.

(* ---- the world ---- *)
Record inode := mkI { i_data : bytes; i_mtime : Z }.
Record world := mkW { w_inodes : list (fid * inode); w_names : list (N * fid) }.
Definition empty_world : world := mkW [] [].

Fixpoint nlen (l : bytes) : N := match l with [] => 0 | _ :: l' => N.succ (nlen l') end.
Fixpoint ntake (n : N) (l : bytes) : bytes :=
  match l with [] => [] | x :: l' => if n =? 0 then [] else x :: ntake (N.pred n) l' end.
Fixpoint ndrop (n : N) (l : bytes) : bytes :=
  match l with [] => [] | x :: l' => if n =? 0 then l else ndrop (N.pred n) l' end.
(* the bytes a read of `len` bytes at offset `pos` returns *)
Definition chunk (pos len : N) (d : bytes) : bytes := ntake len (ndrop pos d).

Fixpoint name_lookup (p : N) (ns : list (N * fid)) : option fid :=
  match ns with [] => None | (q, id) :: ns' => if p =? q then Some id else name_lookup p ns' end.
Fixpoint inode_lookup (id : fid) (is : list (fid * inode)) : option inode :=
  match is with [] => None | (j, i) :: is' => if fid_eqb id j then Some i else inode_lookup id is' end.
Definition inode_of (w : world) (id : fid) : option inode := inode_lookup id (w_inodes w).

(* stat + the content a read would see (the same inode: no change between stat and read) *)
Definition stat (w : world) (p : N) : option (meta * bytes) :=
  match name_lookup p (w_names w) with
  | None => None
  | Some id => match inode_of w id with
               | None => None
               | Some i => Some (mkM id (i_mtime i) (nlen (i_data i)), i_data i)
               end
  end.

Definition drop_inode (id : fid) (is : list (fid * inode)) : list (fid * inode) :=
  filter (fun x => negb (fid_eqb id (fst x))) is.
Definition drop_name (p : N) (ns : list (N * fid)) : list (N * fid) :=
  filter (fun x => negb (p =? fst x)) ns.
Definition referenced (id : fid) (ns : list (N * fid)) : bool :=
  existsb (fun x => fid_eqb id (snd x)) ns.
Definition set_inode (id : fid) (i : inode) (w : world) : world :=
  mkW ((id, i) :: drop_inode id (w_inodes w)) (w_names w).
(* remove the name; the inode is freed with its last name (its number may be reused later) *)
Definition unlink (p : N) (w : world) : world :=
  match name_lookup p (w_names w) with
  | None => w
  | Some id => let ns := drop_name p (w_names w) in
               mkW (if referenced id ns then w_inodes w else drop_inode id (w_inodes w)) ns
  end.

Inductive edit :=
| ECreate (p : N) (id : fid) (d : bytes) (mt : Z)   (* new file; `id` may be a number used before *)
| EWrite (p : N) (d : bytes) (mt : Z)               (* rewrite in place: same or other length *)
| EAppend (p : N) (x : bytes) (mt : Z)
| ETruncate (p : N) (n : N) (mt : Z)                (* shrink, or extend with zero bytes *)
| ETouch (p : N) (mt : Z)                           (* utimensat *)
| ERename (p q : N)                                 (* replaces q *)
| EUnlink (p : N)
| ELink (p q : N).                                  (* hard link *)

Definition update_file (w : world) (p : N) (f : inode -> inode) : world :=
  match name_lookup p (w_names w) with
  | None => w
  | Some id => match inode_of w id with None => w | Some i => set_inode id (f i) w end
  end.

Definition apply_edit (w : world) (e : edit) : world :=
  match e with
  | ECreate p id d mt =>
      match name_lookup p (w_names w), inode_of w id with
      | None, None => mkW ((id, mkI d mt) :: w_inodes w) ((p, id) :: w_names w)
      | _, _ => w
      end
  | EWrite p d mt => update_file w p (fun _ => mkI d mt)
  | EAppend p x mt => update_file w p (fun i => mkI (i_data i ++ x) mt)
  | ETruncate p n mt =>
      update_file w p (fun i => mkI (ntake n (i_data i ++ N.iter (n - nlen (i_data i)) (cons 0) [])) mt)
  | ETouch p mt => update_file w p (fun i => mkI (i_data i) mt)
  | ERename p q =>
      match name_lookup p (w_names w) with
      | None => w
      | Some id =>
          match name_lookup q (w_names w) with
          | Some id' => if fid_eqb id id' then w
                        else let w1 := unlink q w in mkW (w_inodes w1) ((q, id) :: drop_name p (w_names w1))
          | None => mkW (w_inodes w) ((q, id) :: drop_name p (w_names w))
          end
      end
  | EUnlink p => unlink p w
  | ELink p q =>
      match name_lookup p (w_names w), name_lookup q (w_names w) with
      | Some id, None => mkW (w_inodes w) ((q, id) :: w_names w)
      | _, _ => w
      end
  end.

(* ---- hasher calls ---- *)
(* what the I/O of one call does (the file exists and stat works): fine / open() fails (e.g. permissions) /
   every read() fails (EIO; EISDIR when the path is a directory) *)
Inductive io := IoOk | IoOpenFails | IoReadFails.
Record call := mkC { c_path : N; c_pos : N; c_len : N; c_io : io }.
(* hash_file: `scan` does not call read() at all for an empty chunk *)
Definition raw_fails (cl : call) : bool :=
  match c_io cl with IoOk => false | IoOpenFails => true | IoReadFails => negb (c_len cl =? 0) end.
(* hash_transformed: fclones opens / copies the input itself, and the transform program reads the whole
   file whatever the chunk length is; ASSUMPTION: a program that cannot read its input exits with a failure
   (a program that ignores the error and exits 0 is outside the model; the check does not generate that) *)
Definition tr_fails (cl : call) : bool :=
  match c_io cl with IoOk => false | _ => true end.
Inductive result := RHash (h : hashv) | RTHash (dl : N) (h : hashv) | RFail | RPanic.

(* a run = a program of hasher calls; what it asks next may depend on every earlier answer
   (group_files: later stages hash only what earlier stages left); it may stop anywhere. *)
Inductive prog (R : Type) : Type :=
| Ret (r : R)
| Call (c : call) (k : result -> prog R).
Arguments Ret {R} r.
Arguments Call {R} c k.

Section Hasher.
Variable H : N -> bytes -> hashv.
Variable T : tconf -> bytes -> option bytes.

(* FileHasher::hash_file / hash_transformed of a hasher WITHOUT cache *)
Definition hash_plain (a : N) (tr : option tconf) (w : world) (cl : call) : result :=
  match tr with
  | None =>
      match stat w (c_path cl) with
      | None => RFail
      | Some (m, d) => if raw_fails cl then RFail else RHash (H a (chunk (c_pos cl) (c_len cl) d))
      end
  | Some cf =>
      if negb (c_pos cl =? 0) then RPanic else
      match stat w (c_path cl) with
      | None => RFail
      | Some (m, d) => if tr_fails cl then RFail else
                       match T cf d with
                       | None => RFail
                       | Some d' => RTHash (nlen d') (H a d')
                       end
      end
  end.

(* ... of a hasher created by new_cached(a, tr): the tree is tree_of a tr *)
Definition hash_cached (a : N) (tr : option tconf) (c : cache) (w : world) (cl : call) : result * cache :=
  let t := tree_of a tr in
  match tr with
  | None =>
      match stat w (c_path cl) with
      | None => (RFail, c)
      | Some (m, d) =>
          let k := cache_key m (c_pos cl) (c_len cl) in
          match cache_get t k m c with
          | Some (_, h) => (RHash h, c)
          | None => if raw_fails cl then (RFail, c) else
                    let h := H a (chunk (c_pos cl) (c_len cl) d) in
                    (RHash h, cache_put t k m (c_len cl) h c)
          end
      end
  | Some cf =>
      if negb (c_pos cl =? 0) then (RPanic, c) else
      match stat w (c_path cl) with
      | None => (RFail, c)
      | Some (m, d) =>
          let k := cache_key m (c_pos cl) (c_len cl) in
          match cache_get t k m c with
          | Some (dl, h) => (RTHash dl h, c)
          | None => if tr_fails cl then (RFail, c) else
                    match T cf d with
                    | None => (RFail, c)
                    | Some d' => let h := H a d' in (RTHash (nlen d') h, cache_put t k m (nlen d') h c)
                    end
          end
      end
  end.

Fixpoint run_cached {R} (a : N) (tr : option tconf) (p : prog R) (c : cache) (w : world) : R * cache :=
  match p with
  | Ret r => (r, c)
  | Call cl k => let rc := hash_cached a tr c w cl in run_cached a tr (k (fst rc)) (snd rc) w
  end.

Fixpoint run_plain {R} (a : N) (tr : option tconf) (p : prog R) (w : world) : R :=
  match p with
  | Ret r => r
  | Call cl k => run_plain a tr (k (hash_plain a tr w cl)) w
  end.

(* ---- histories ---- *)
Inductive event :=
| EvEdit (e : edit)
| EvRun (a : N) (tr : option tconf) (p : prog unit)        (* `group --cache` with some configuration, possibly interrupted *)
| EvLose (keep : treeid -> key -> entry -> bool).          (* crash before the flush: any entries may be lost *)

Definition step (s : cache * world) (ev : event) : cache * world :=
  match ev with
  | EvEdit e => (fst s, apply_edit (snd s) e)
  | EvRun a tr p => (snd (run_cached a tr p (fst s) (snd s)), snd s)
  | EvLose keep => (filter (fun x => keep (fst (fst x)) (snd (fst x)) (snd x)) (fst s), snd s)
  end.

Fixpoint exec (s : cache * world) (h : list event) : cache * world :=
  match h with [] => s | ev :: h' => exec (step s ev) h' end.

(* the worlds a history goes through ("moments") and the configurations of its runs *)
Fixpoint moments (s : cache * world) (h : list event) : list world :=
  snd s :: match h with [] => [] | ev :: h' => moments (step s ev) h' end.

End Hasher.

Fixpoint confs (h : list event) : list (N * option tconf) :=
  match h with
  | [] => []
  | EvRun a tr _ :: h' => (a, tr) :: confs h'
  | _ :: h' => confs h'
  end.

(* ---- decidable forms of the provisos (the correspondence check classifies every case with them) ---- *)
Definition real_ms (mt : Z) : Z := (mt / 1000000)%Z.      (* the mtime at millisecond resolution, rounded DOWN *)
Definition all_inodes (ws : list world) : list (fid * inode) := flat_map w_inodes ws.
Definition same_code_stamp (i j : inode) : bool :=
  Z.eqb (code_ms (i_mtime i)) (code_ms (i_mtime j)) && (nlen (i_data i) =? nlen (i_data j)).
Definition same_real_stamp (i j : inode) : bool :=
  Z.eqb (real_ms (i_mtime i)) (real_ms (i_mtime j)) && (nlen (i_data i) =? nlen (i_data j)).
Definition pair_ok (same : inode -> inode -> bool) (x y : fid * inode) : bool :=
  negb (fid_eqb (fst x) (fst y) && same (snd x) (snd y)) || list_eqb (i_data (snd x)) (i_data (snd y)).
Definition determines_b (same : inode -> inode -> bool) (ws : list world) : bool :=
  let l := all_inodes ws in forallb (fun x => forallb (pair_ok same x) l) l.
(* equal (dev, ino, cache's ms, len) => equal content, at any two moments *)
Definition stamp_determines_b : list world -> bool := determines_b same_code_stamp.
(* the same with the real millisecond mtime (the wording of the property) *)
Definition mtime_determines_b : list world -> bool := determines_b same_real_stamp.
(* some mtime before the epoch is not a whole number of milliseconds (only then the two roundings differ) *)
Definition preepoch_fraction_b (ws : list world) : bool :=
  existsb (fun x => Z.ltb (i_mtime (snd x)) 0 && negb (Z.eqb (Z.modulo (i_mtime (snd x)) 1000000) 0)) (all_inodes ws).

(* the step-wise reading of the proviso: every content change of an inode, relative to the last state in which it
   existed, also changes its (ms, length) stamp.  Weaker than stamp_determines_b: a stamp may RETURN to a value
   it had two states ago (touch, then a same-size rewrite that sets the old mtime back). *)
Fixpoint find_prev (id : fid) (prev : list world) : option inode :=
  match prev with
  | [] => None
  | w :: r => match inode_of w id with Some i => Some i | None => find_prev id r end
  end.
Fixpoint stepwise_go (prev ws : list world) : bool :=
  match ws with
  | [] => true
  | w :: r =>
      forallb (fun x => match find_prev (fst x) prev with
                        | None => true
                        | Some j => negb (same_code_stamp j (snd x)) || list_eqb (i_data j) (i_data (snd x))
                        end) (w_inodes w)
      && stepwise_go (w :: prev) r
  end.
Definition stepwise_b (ws : list world) : bool := stepwise_go [] ws.
