(* GroupModel.v — executable model of the staged grouping pipeline of fclones (engine G).
   Mirrors /repo/fclones/src/group.rs (GroupMap, FileGroup::{matches, matches_strictly, missing_count,
   redundant_count, unique_count, subgroup_count, sort_by_id, sort_by_path}, FileSubGroup::group,
   partition_by_devices, rehash, group_by_size, deduplicate / remove_same_files, group_transformed,
   group_by_prefix / suffix / contents, the tail of group_files), device.rs (min/max_prefix_len,
   suffix_len, suffix_threshold), file.rs (FileHash xor, u128_prefix, FileId order), path.rs
   (derived Ord, is_prefix_of), config.rs (group_filter: replication / roots / group_by_id arrive
   as data).  No proofs here (GroupProofs*.v), so the model still extracts when a proof breaks.

   External behaviour is a parameter:
     * [oracle]  : what hash_file_or_log_err / hash_transformed_or_log_err return for a chunk.
                   The theorems instantiate it with [H (chunk data pos len)] / [H (T data)]
                   (oracle_of); the correspondence driver instantiates it with the table of
                   hashes the real FileHasher produced.
     * [nd]      : every scheduling freedom of rehash: the order in which the files of one device
                   are processed after the unstable sort by location ([order]: any permutation; it
                   also decides the runs of equal file id and their representatives = run heads),
                   the order in which results arrive at the collecting thread ([arrive]: any
                   permutation) and the read-fault oracle ([fails], for C15). *)
From FV Require Import Base ListLib.
Open Scope N_scope.

(* ---------------------------------------------------------------- basic data *)
Definition comp := list N.                 (* one path component, bytes *)
Definition path := list comp.              (* root first; an absolute path starts with ["/"] *)
Definition hash := list N.                 (* FileHash = Box<[u8]> *)
Definition fileid := (N * N)%type.         (* FileId { device, inode }, derived Ord *)

Record file := mkfile {
  fpath : path; fid : fileid;
  fdev : N;          (* index into DiskDevices (location >> 48) *)
  floc : N;          (* initial `location` = device index << 48 | inode & 0xFFFF_FFFF_FFFF, the key of deduplicate *)
  flen : N;
  fdata : list N     (* content; never inspected by the executable pipeline, only through the oracle *)
}.
Record group := mkgroup { glen : N; ghash : hash; gfiles : list file }.

Inductive replication := Over (n : N) | Under (n : N).
Inductive disk_kind := SSD | HDD | UnknownKind.
Inductive stage := StTransform | StPrefix | StSuffix | StContents.

Record gcfg := mkcfg {
  max_prefix : option N; max_suffix : option N;
  dkind : N -> disk_kind;            (* kind of device #i; device 0 is the default device *)
  repl : replication; roots : list path; by_id : bool;      (* FileGroupFilter *)
  skip_content : bool; transform : bool;
  min_size : N; max_size : option N
}.

Record oracle := mkoracle {
  o_chunk : file -> N -> N -> option hash;        (* hash_file_or_log_err (path, pos, len) *)
  o_trans : file -> option (N * hash)             (* hash_transformed_or_log_err: (output length, hash) *)
}.

Definition item := (hash * file)%type.            (* HashedFileInfo *)
Record nd := mknd {
  order  : stage -> N -> list item -> list item;
  arrive : stage -> list item -> list item;
  fails  : stage -> file -> bool
}.

(* ---------------------------------------------------------------- device.rs *)
Definition KiB := 1024.
Definition min_prefix_len (k : disk_kind) : N := 4 * KiB.
Definition max_prefix_len (k : disk_kind) : N :=
  match k with SSD => 4 * KiB | HDD => 16 * KiB | UnknownKind => 16 * KiB end.
Definition suffix_len (k : disk_kind) : N := max_prefix_len k.
Definition suffix_threshold (k : disk_kind) : N :=
  match k with HDD => 64 * KiB * KiB | SSD => 64 * KiB | UnknownKind => 64 * KiB * KiB end.

(* ---------------------------------------------------------------- orders *)
Definition bytes_cmp : list N -> list N -> comparison := lex_cmp N.compare.
Definition bytes_eqb (a b : list N) : bool := cmp_eqb (bytes_cmp a b).

(* derived Ord of Path {parent: Option<Arc<Path>>, component}: parent first (None < Some), then the
   component.  On component lists written leaf-first (rev) this is the recursion below. *)
Fixpoint rpath_cmp (p q : list comp) : comparison :=
  match p, q with
  | [], [] => Eq
  | [], _ => Lt
  | _, [] => Gt
  | c :: pp, d :: qq => match rpath_cmp pp qq with Eq => bytes_cmp c d | r => r end
  end.
Definition path_cmp (p q : path) : comparison := rpath_cmp (rev p) (rev q).
Definition path_eqb (p q : path) : bool := cmp_eqb (lex_cmp bytes_cmp p q).

(* Path::is_prefix_of: component-wise prefix *)
Fixpoint is_prefix_of (r p : path) : bool :=
  match r, p with
  | [], _ => true
  | _ :: _, [] => false
  | a :: r', b :: p' => bytes_eqb a b && is_prefix_of r' p'
  end.

Definition fid_cmp (a b : fileid) : comparison :=
  match N.compare (fst a) (fst b) with Eq => N.compare (snd a) (snd b) | c => c end.
Definition fid_eqb (a b : fileid) : bool := (fst a =? fst b) && (snd a =? snd b).
Definition same_id (f g : file) : bool := fid_eqb (fid f) (fid g).

(* key of the regrouping map: (FileLen, FileHash) *)
Definition key := (N * hash)%type.
Definition key_cmp (a b : key) : comparison :=
  match N.compare (fst a) (fst b) with Eq => bytes_cmp (snd a) (snd b) | c => c end.
Definition key_leb (a b : key) : bool := cmp_leb (key_cmp a b).
Definition key_eqb (a b : key) : bool := (fst a =? fst b) && bytes_eqb (snd a) (snd b).

(* ---------------------------------------------------------------- file.rs: FileHash *)
Definition hash0 : hash := repeat 0 16.            (* FileHash::from(0u128) *)
(* BitXor: zip_longest; where only one side has a byte the result byte is 0 *)
Fixpoint hxor (a b : hash) : hash :=
  match a with
  | [] => map (fun _ => 0) b
  | x :: a' => match b with
               | [] => map (fun _ => 0) a
               | y :: b' => N.lxor x y :: hxor a' b'
               end
  end.
(* u128_prefix: little-endian value of the first 16 bytes (the code panics on shorter hashes; every
   hash function of hasher.rs yields >= 16 bytes, which the harness asserts on every case) *)
Definition u128_prefix (h : hash) : N := fold_right (fun b acc => b + 256 * acc) 0 (firstn 16 h).

(* ---------------------------------------------------------------- FileSubGroup::group *)
Fixpoint first_root_from (i : nat) (rs : list path) (p : path) : option nat :=
  match rs with
  | [] => None
  | r :: rs' => if is_prefix_of r p then Some i else first_root_from (S i) rs' p
  end.
Definition first_root (rs : list path) (f : file) : option nat := first_root_from 0 rs (fpath f).
Definition in_root (rs : list path) (i : nat) (f : file) : bool :=
  match first_root rs f with Some j => Nat.eqb i j | None => false end.
Definition no_root (rs : list path) (f : file) : bool :=
  match first_root rs f with Some _ => false | None => true end.
Definition nonempty {A} (l : list A) : bool := match l with [] => false | _ => true end.

Definition subgroups (rs : list path) (byid : bool) (fs : list file) : list (list file) :=
  let prefix_groups := map (fun i => filter (in_root rs i) fs) (seq 0 (length rs)) in
  let rest := filter (no_root rs) fs in
  let others := if byid then classes same_id rest else map (fun f => [f]) rest in
  filter nonempty (prefix_groups ++ others).

Definition subgroup_count (c : gcfg) (fs : list file) : N :=
  N.of_nat (length (subgroups (roots c) (by_id c) fs)).

(* ---------------------------------------------------------------- FileGroup methods *)
Definition matches (c : gcfg) (g : group) : bool :=
  match repl c with Over rf => rf <? subgroup_count c (gfiles g) | Under _ => true end.
Definition matches_strictly (c : gcfg) (g : group) : bool :=
  match repl c with
  | Over rf => rf <? subgroup_count c (gfiles g)
  | Under rf => subgroup_count c (gfiles g) <? rf
  end.
Definition missing_count (c : gcfg) (g : group) : N :=
  match repl c with Over _ => 0 | Under rf => rf - subgroup_count c (gfiles g) end.   (* saturating *)
Definition nsum (l : list N) : N := fold_right N.add 0 l.
Definition redundant_count (c : gcfg) (g : group) : N :=
  match repl c with
  | Under _ => 0
  | Over rf =>
      let rf := N.max rf 1 in
      (* fast path only without roots and with --match-links, where every path is its own replica (3bd9c91) *)
      if nonempty (roots c) || by_id c then
        let sgs := subgroups (roots c) (by_id c) (gfiles g) in
        let cutoff := N.min rf (N.of_nat (length sgs)) in
        nsum (map (fun sg => N.of_nat (length sg)) (skipn (N.to_nat cutoff) sgs))
      else N.of_nat (length (gfiles g)) - rf
  end.
Definition sort_by_id (fs : list file) : list file :=
  isort (fun a b => cmp_leb (fid_cmp (fid a) (fid b))) fs.
(* unique_count: dedup_by on consecutive equal ids ("files must be sorted by id") *)
Definition unique_count (fs : list file) : N := N.of_nat (length (runs same_id fs)).
Definition sort_group_by_id (g : group) : group := mkgroup (glen g) (ghash g) (sort_by_id (gfiles g)).

Definition sort_by_path (rs : list path) (fs : list file) : list file :=
  let sorted := isort (fun a b => cmp_leb (path_cmp (fpath a) (fpath b))) fs in
  match rs with
  | [] => sorted
  | _ => concat (subgroups rs true sorted)
  end.

(* ---------------------------------------------------------------- rehash *)
(* FileInfo::new: location = device index << 48 | inode & 0x0000_FFFF_FFFF_FFFF *)
Definition initial_loc (devidx ino : N) : N := devidx * 2 ^ 48 + ino mod 2 ^ 48.

Definition set_len (f : file) (n : N) : file :=
  mkfile (fpath f) (fid f) (fdev f) (floc f) n (fdata f).

Definition hash_fn := file -> hash -> option (hash * N).   (* new hash and the (possibly updated) length *)

(* one spawned task: hash the head of the run; every member gets its hash and its length *)
(* one spawned task (repaired K5): the members of the run are tried in order, always with the old hash of the FIRST
   member; the members whose own read fails are left out; the first member that hashes is the representative: it and
   every member after it get its hash and its length.  If every member fails the run disappears. *)
Fixpoint hash_from (hf : hash_fn) (old : hash) (run : list item) : list item :=
  match run with
  | [] => []
  | x :: tl =>
      match hf (snd x) old with
      | Some (h, len) => map (fun y => (h, set_len (snd y) len)) (x :: tl)
      | None => hash_from hf old tl
      end
  end.
Definition hash_run (hf : hash_fn) (run : list item) : list item :=
  match run with
  | [] => []
  | (old, _) :: _ => hash_from hf old run
  end.

Definition item_same_id (a b : item) : bool := same_id (snd a) (snd b).

Definition rehash (n : nd) (st : stage) (pre post : group -> bool) (hf : hash_fn) (gs : list group)
  : list group :=
  let to_process := filter pre gs in
  let to_pass := filter (fun g => negb (pre g)) gs in
  let items := flat_map (fun g => map (fun f => (ghash g, f)) (gfiles g)) to_process in
  (* partition_by_devices: one vector per device, input order kept *)
  let per_dev := group_by N.leb N.eqb (fun x : item => fdev (snd x)) items in
  let hashed := flat_map (fun dv => flat_map (hash_run hf) (runs item_same_id (order n st (fst dv) (snd dv))))
                         per_dev in
  let regrouped := map (fun kv : key * list item => mkgroup (fst (fst kv)) (snd (fst kv)) (map snd (snd kv)))
                       (group_by key_leb key_eqb (fun x : item => (flen (snd x), fst x)) (arrive n st hashed)) in
  filter post (regrouped ++ to_pass).

(* ---------------------------------------------------------------- the stages *)
Definition all_files (gs : list group) : list file := flat_map gfiles gs.

(* max_device_property: maximum over the devices that hold one of the files, default device if none *)
Definition max_dev_prop (c : gcfg) (prop : disk_kind -> N) (fs : list file) : N :=
  match fs with
  | [] => prop (dkind c 0)
  | _ => fold_right N.max 0 (map (fun f => prop (dkind c (fdev f))) fs)
  end.

Definition size_ok (c : gcfg) (f : file) : bool :=
  (min_size c <=? flen f) && match max_size c with Some m => flen f <=? m | None => true end.

Definition group_by_size (c : gcfg) (fs : list file) : list group :=
  filter (matches c)
    (map (fun kv : N * list file => mkgroup (fst kv) hash0 (snd kv)) (group_by N.leb N.eqb flen fs)).

Definition same_path (f g : file) : bool := path_eqb (fpath f) (fpath g).
(* deduplicate: GroupMap keyed by location; inside a bucket unique_by path.hash128()
   (hash128 injective on the paths present is an assumption of the whole development) *)
Definition deduplicate (fs : list file) : list file :=
  flat_map (fun kv : N * list file => uniq_by same_path (snd kv)) (group_by N.leb N.eqb floc fs).

Definition remove_same_files (c : gcfg) (gs : list group) : list group :=
  filter (matches c) (map (fun g => mkgroup (glen g) (ghash g) (deduplicate (gfiles g))) gs).

Definition failing (n : nd) (st : stage) (f : file) (r : option hash) : option hash :=
  if fails n st f then None else r.

Definition prefix_len_of (c : gcfg) (gs : list group) : N :=
  match max_prefix c with Some p => p | None => max_dev_prop c max_prefix_len (all_files gs) end.

Definition pre_multi (g : group) : bool := 1 <? unique_count (gfiles g).

Definition hf_prefix (o : oracle) (c : gcfg) (n : nd) (P : N) : hash_fn :=
  fun f _ =>
    let plen := if flen f <=? P then P else min_prefix_len (dkind c (fdev f)) in
    option_map (fun h => (h, flen f)) (failing n StPrefix f (o_chunk o f 0 plen)).

Definition group_by_prefix (o : oracle) (c : gcfg) (n : nd) (P : N) (gs : list group) : list group :=
  rehash n StPrefix pre_multi (matches c) (hf_prefix o c n P) (map sort_group_by_id gs).

(* the suffix stage is skipped when the suffix would cover the whole file (f4a00ae): its hash could equal the
   prefix hash computed over the same bytes and the XOR would cancel *)
Definition pre_suffix (thr S : N) (g : group) : bool := (thr <=? glen g) && (S <? glen g) && pre_multi g.
Definition hf_suffix (o : oracle) (n : nd) (S : N) : hash_fn :=
  fun f old =>
    let s := N.min S (flen f) in
    option_map (fun h => (hxor old h, flen f)) (failing n StSuffix f (o_chunk o f (flen f - s) s)).
Definition suffix_len_of (c : gcfg) (gs : list group) : N :=
  match max_suffix c with Some s => s | None => max_dev_prop c suffix_len (all_files gs) end.
Definition suffix_threshold_of (c : gcfg) (gs : list group) : N :=
  max_dev_prop c suffix_threshold (all_files gs).

Definition group_by_suffix (o : oracle) (c : gcfg) (n : nd) (gs : list group) : list group :=
  let gs := map sort_group_by_id gs in
  rehash n StSuffix (pre_suffix (suffix_threshold_of c gs) (suffix_len_of c gs)) (matches c)
    (hf_suffix o n (suffix_len_of c gs)) gs.

Definition pre_contents (P : N) (g : group) : bool := pre_multi g && (P <=? glen g).
Definition hf_contents (o : oracle) (n : nd) : hash_fn :=
  fun f _ => option_map (fun h => (h, flen f)) (failing n StContents f (o_chunk o f 0 (flen f))).

Definition group_by_contents (o : oracle) (c : gcfg) (n : nd) (P : N) (gs : list group) : list group :=
  rehash n StContents (pre_contents P) (matches_strictly c) (hf_contents o n) (map sort_group_by_id gs).

Definition hf_transform (o : oracle) (n : nd) : hash_fn :=
  fun f _ => if fails n StTransform f then None
             else option_map (fun lh : N * hash => (snd lh, fst lh)) (o_trans o f).

Definition group_transformed (o : oracle) (c : gcfg) (n : nd) (fs : list file) : list group :=
  rehash n StTransform (fun _ => true) (matches_strictly c) (hf_transform o n) [mkgroup 0 hash0 (sort_by_id fs)].

(* final ordering: par_sort_by_key(Reverse((len, u128_prefix))) (stable), then sort_by_path *)
Definition final_before (a b : group) : bool :=
  match N.compare (glen a) (glen b) with
  | Gt => true
  | Lt => false
  | Eq => u128_prefix (ghash b) <=? u128_prefix (ghash a)
  end.
Definition finalize (c : gcfg) (gs : list group) : list group :=
  map (fun g => mkgroup (glen g) (ghash g) (sort_by_path (roots c) (gfiles g))) (isort final_before gs).

Definition pipeline (o : oracle) (c : gcfg) (n : nd) (scanned : list file) : list group :=
  let fs := filter (size_ok c) scanned in
  if transform c then group_transformed o c n (deduplicate fs)
  else
    let g1 := remove_same_files c (group_by_size c fs) in
    let P := prefix_len_of c g1 in
    let g2 := group_by_prefix o c n P g1 in
    let g3 := group_by_suffix o c n g2 in
    if skip_content c then g3 else group_by_contents o c n P g3.

Definition group_files_gen (o : oracle) (c : gcfg) (n : nd) (scanned : list file) : list group :=
  finalize c (pipeline o c n scanned).

(* ---------------------------------------------------------------- the instance the theorems speak about *)
Definition chunk (d : list N) (pos len : N) : list N := firstn (N.to_nat len) (skipn (N.to_nat pos) d).

Section WithH.
  Variable H : list N -> hash.                    (* the hash function, of exactly the chunk bytes *)
  Variable T : list N -> option (list N).         (* the transform program; None = it failed *)
  Definition oracle_of : oracle :=
    mkoracle (fun f pos len => Some (H (chunk (fdata f) pos len)))
             (fun f => match T (fdata f) with
                       | Some out => Some (N.of_nat (length out), H out)
                       | None => None
                       end).
  Definition group_files (c : gcfg) (n : nd) (scanned : list file) : list group :=
    group_files_gen oracle_of c n scanned.
End WithH.

(* ---------------------------------------------------------------- a concrete nd for the driver *)
Definition loc_leb (a b : item) : bool := floc (snd a) <=? floc (snd b).
Definition nd_of_mode (m : N) : nd :=
  match m with
  | 0 => mknd (fun _ _ l => isort loc_leb l) (fun _ l => l) (fun _ _ => false)
  | 1 => mknd (fun _ _ l => isort loc_leb (rev l)) (fun _ l => rev l) (fun _ _ => false)
  | _ => mknd (fun _ _ l => rev l) (fun _ l => isort loc_leb l) (fun _ _ => false)
  end.
