(* WalkProofs3.v — exactness of the walk against the declarative reading:
   pruning conservativity, completeness with link following under route-independent options
   (the visited-set invariant), the scan pipeline (size filter, deduplication). *)
From FV Require Import Base WalkModel WalkProofs WalkProofs2.
From Coq Require Import Permutation.
Open Scope N_scope.

Section Exact.
  Variable sel_file : path -> bool.
  Variable sel_dir : path -> bool.
  Variable ign1 : path -> path -> bool -> bool.
  Variable t : tree.
  Variable c : config.

  Notation step := (step sel_file sel_dir ign1 t c).
  Notation news0 := (news0 sel_file sel_dir ign1 t c).
  Notation outs0 := (outs0 sel_file sel_dir ign1 t c).
  Notation enters := (enters sel_dir ign1 t c).
  Notation edge := (edge sel_dir ign1 t c).
  Notation emits := (emits sel_file sel_dir ign1 t c).
  Notation visits := (visits sel_dir ign1 t c).
  Notation selected := (selected sel_file sel_dir ign1 t c).
  Notation pre_b := (pre_b sel_dir t c).

  (* engine P, C16_partial_conservative / C16_matches_dir_conservative: a directory that is a prefix
     of (or equal to) a matching path is never rejected by matches_dir *)
  Definition conservative : Prop :=
    forall p d, sel_file p = true -> prefix d p -> sel_dir d = true.

  (* ------------------------------------------------------------------------------------------ *)
  (* pruning is only an optimisation (no link following: the route to a file is its ancestors) *)

  Lemma visits_prune roots tk :
    c_follow c = false -> visits false roots tk ->
    (forall d, prefix d (t_path tk) -> sel_dir d = true) -> visits true roots tk.
  Proof.
    intros Hnf Hv. induction Hv as [tk Hin | tk tk' Hv IH Hed]; intros Hsd.
    - now apply V_root.
    - destruct Hed as [nd q He Hk Hd Hs Ho Hq Hl | nd ab tg target tnd He Hk Hf]; [|congruence].
      cbn [t_path] in Hsd.
      assert (Hpq : prefix (t_path tk) q) by (eapply children_prefix; eauto).
      assert (Hsd' : forall d, prefix d (t_path tk) -> sel_dir d = true).
      { intros d Hd'. apply Hsd. eapply prefix_trans; eauto. }
      apply V_step with (tk := tk).
      + exact (IH Hsd').
      + destruct He as (H1 & H2 & H3 & H4).
        assert (Hself : sel_dir (t_path tk) = true) by apply Hsd', prefix_refl.
        assert (Hfo : filter_ok sel_dir nd (t_path tk) = true) by (apply filter_ok_all; exact Hsd').
        assert (He' : enters true tk nd) by (repeat split; auto).
        eapply E_child; eauto.
  Qed.

  Lemma selected_prune roots x :
    conservative -> c_follow c = false -> selected false roots x -> selected true roots x.
  Proof.
    intros Hc Hnf (tk & Hv & nd & He & -> & Hs & Hk).
    assert (Hsd : forall d, prefix d (t_path tk) -> sel_dir d = true) by (intros d; now apply Hc).
    exists tk. split; [now apply visits_prune|].
    destruct He as (H1 & H2 & H3 & H4).
    assert (Hfo : filter_ok sel_dir nd (t_path tk) = true) by (apply filter_ok_all; exact Hsd).
    exists nd. split; [|auto]. repeat split; auto.
  Qed.

  (* more input paths never lose a file *)
  Lemma root_tasks_incl roots roots' tk :
    incl roots roots' -> In tk (root_tasks t c roots) -> In tk (root_tasks t c roots').
  Proof. unfold root_tasks. rewrite !in_flat_map. intros Hi (r & Hr & H). exists r. auto. Qed.

  Lemma selected_roots_mono pr roots roots' x :
    incl roots roots' -> selected pr roots x -> selected pr roots' x.
  Proof.
    intros Hi (tk & Hv & He). exists tk. split; auto.
    clear He. induction Hv; [apply V_root; eauto using root_tasks_incl|eapply V_step; eauto].
  Qed.

  (* ------------------------------------------------------------------------------------------ *)
  Section AnySched.
  Variable sched : list task -> list path -> nat.
  Notation run := (run sel_file sel_dir ign1 t c sched).
  Notation walk := (walk sel_file sel_dir ign1 t c sched).
  Notation scan := (scan sel_file sel_dir ign1 t c sched).

  Lemma walk_sound roots l x : walk roots = Done l -> In x l -> selected true roots x.
  Proof.
    unfold WalkModel.walk. intros H Hx.
    destruct (run_sound _ _ _ _ _ _ _ _ _ _ _ H x Hx) as [[] | (tk & Hin & Hp)].
    apply produces_selected. eauto.
  Qed.

  Lemma walk_exact_nofollow roots l x :
    conservative -> c_follow c = false -> walk roots = Done l -> (In x l <-> selected false roots x).
  Proof.
    intros Hc Hnf H. split.
    - intros Hx. apply selected_mono. eapply walk_sound; eauto.
    - intros Hs. apply (selected_prune _ _ Hc Hnf) in Hs. apply produces_selected in Hs.
      unfold WalkModel.walk in H. eapply run_complete_nofollow; eauto.
  Qed.

  (* ------------------------------------------------------------------------------------------ *)
  (* link following: complete when nothing depends on the route by which a path is reached first *)
  Section FollowRI.
    Hypothesis Hf : c_follow c = true.
    Hypothesis Hni : c_no_ignore c = true.
    Hypothesis Hofs : c_one_fs c = false.
    Hypothesis Hdepth : N.of_nat (length (keys t)) < c_depth c.
    Hypothesis Hsd : forall p, sel_dir p = true.
    (* the hidden-name test depends on the level of the visit (it is skipped at level 0), so it must
       not fire at all: --hidden, or no hidden name in the tree *)
    Hypothesis Hhid : c_hidden c = true \/ forall p, In p (keys t) -> name_hidden p = false.

    Definition dead (q : path) : Prop := lookup t q = None.
    Definition handled (pending : list task) (vis : list path) (q : path) : Prop :=
      In q vis \/ dead q \/ exists tk, In tk pending /\ t_path tk = q.

    Record inv (pending : list task) (vis out : list path) : Prop := {
      inv_nd : NoDup vis;
      inv_keys : forall p, In p vis -> In p (keys t);
      inv_lvl : forall tk, In tk pending -> t_level tk <= N.of_nat (length vis);
      inv_succ : forall tk tk', In (t_path tk) vis -> edge false tk tk' -> handled pending vis (t_path tk');
      inv_out : forall tk x, In (t_path tk) vis -> emits false tk x -> In x out }.

    Lemma never_hidden p nd : lookup t p = Some nd -> c_hidden c = true \/ name_hidden p = false.
    Proof. intros H. destruct Hhid as [Hh | Hh]; auto. right. eapply Hh, lookup_in_keys; eauto. Qed.

    Lemma pre_none_dead tk : pre_b tk = None -> dead (t_path tk).
    Proof.
      unfold WalkProofs.pre_b, dead. destruct (lookup t (t_path tk)) as [nd|] eqn:El; [|reflexivity].
      assert (match t_kind tk with TPath => filter_ok sel_dir nd (t_path tk) | TEntry => true end = true) as ->.
      { destruct (t_kind tk); auto. apply filter_ok_all. auto. }
      cbn [andb]. destruct (never_hidden _ _ El) as [-> | ->]; cbn; [discriminate|].
      rewrite andb_false_r. discriminate.
    Qed.

    Lemma enters_not_dead pr tk nd : enters pr tk nd -> ~ dead (t_path tk).
    Proof. intros (H1 & _) Hd. unfold dead in Hd. congruence. Qed.

    (* under the hypotheses an edge / a report depends only on the path of the visit (and level < depth) *)
    Lemma enters_transfer tk tka nd :
      t_path tk = t_path tka -> enters false tk nd -> enters true tka nd.
    Proof.
      intros Hp (H1 & _ & H3 & _). rewrite Hp in *.
      assert (Hfo : filter_ok sel_dir nd (t_path tka) = true) by (apply filter_ok_all; auto).
      repeat split; auto.
      destruct (never_hidden _ _ H1) as [Hh | Hh]; auto.
    Qed.

    Lemma edge_transfer tk tka tk' :
      t_path tk = t_path tka -> t_level tka < c_depth c -> edge false tk tk' ->
      exists tk'', edge true tka tk'' /\ t_path tk'' = t_path tk'.
    Proof.
      intros Hp Hl Hed.
      destruct Hed as [nd q He Hk Hd Hs Ho Hq Hli | nd ab tg target tnd He Hk Hfl Hr Hfk Ho].
      - eexists. split.
        + eapply E_child; eauto using enters_transfer.
          * rewrite Hofs. discriminate.
          * rewrite <- Hp. exact Hq.
        + reflexivity.
      - eexists. split.
        + eapply E_link; eauto using enters_transfer.
          * rewrite <- Hp. exact Hr.
          * rewrite Hofs. discriminate.
        + reflexivity.
    Qed.

    Lemma emits_transfer tk tka x : t_path tk = t_path tka -> emits false tk x -> emits true tka x.
    Proof.
      intros Hp (nd & He & -> & Hs & Hk). exists nd. rewrite <- Hp.
      split; [eapply enters_transfer; eauto|]. repeat split; auto.
    Qed.

    Lemma edge_level tk tk' : edge true tk tk' -> t_level tk' <= t_level tk + 1.
    Proof. intros H; destruct H; cbn [t_level]; lia. Qed.

    Lemma inv_step tk0 rest0 vis out tk rest new vis' o :
      inv (tk0 :: rest0) vis out ->
      pick sched tk0 rest0 vis = (tk, rest) -> step vis tk = (new, vis', o) ->
      inv (rest ++ new) vis' (out ++ o) /\
      (forall q, handled (tk0 :: rest0) vis q -> handled (rest ++ new) vis' q).
    Proof.
      intros HI Ep Es. pose proof (pick_perm _ _ _ _ _ _ Ep) as Hperm.
      assert (Hin_tk : In tk (tk0 :: rest0)).
      { eapply Permutation_in; [apply Permutation_sym, Hperm|now left]. }
      assert (Hin_rest : forall y, In y rest -> In y (tk0 :: rest0)).
      { intros y Hy. eapply Permutation_in; [apply Permutation_sym, Hperm|now right]. }
      (* monotonicity of `handled`, given that the processed path ends up visited or dead *)
      assert (Hmono : (forall p, In p vis -> In p vis') ->
                      (In (t_path tk) vis' \/ dead (t_path tk)) ->
                      forall q, handled (tk0 :: rest0) vis q -> handled (rest ++ new) vis' q).
      { intros Hsub Htk q [Hq | [Hq | (tk1 & Hin1 & Hp1)]].
        - left. auto.
        - right. now left.
        - apply (Permutation_in _ Hperm) in Hin1. destruct Hin1 as [<- | Hin1].
          + rewrite <- Hp1. destruct Htk; [now left|right; now left].
          + right. right. exists tk1. split; auto. apply in_app_iff. now left. }
      destruct (step_cases _ _ _ _ _ _ _ _ _ _ Es)
        as [(Hpre & -> & -> & ->) | [(nd & Hpre & _ & Hvis & -> & -> & ->) | (nd & Hpre & Hnv & -> & -> & ->)]].
      - (* not entered *)
        assert (Hm := Hmono (fun p H => H) (or_intror (pre_none_dead _ Hpre))).
        split; [|exact Hm]. rewrite !app_nil_r in *. destruct HI as [I1 I2 I3 I4 I5].
        constructor; auto.
        + intros tk1 tk1' Hp Hed. apply Hm. eapply I4; eauto.
      - (* already visited *)
        assert (Hm := Hmono (fun p H => H) (or_introl Hvis)).
        split; [|exact Hm]. rewrite !app_nil_r in *. destruct HI as [I1 I2 I3 I4 I5].
        constructor; auto.
        + intros tk1 tk1' Hp Hed. apply Hm. eapply I4; eauto.
      - (* processed and recorded *)
        rewrite Hf in *. specialize (Hnv eq_refl).
        assert (Hm := Hmono (fun p H => or_intror H) (or_introl (or_introl eq_refl))).
        split; [|exact Hm]. destruct HI as [I1 I2 I3 I4 I5].
        assert (Hk : In (t_path tk) (keys t)).
        { eapply lookup_in_keys, pre_b_lookup; eauto. }
        assert (Hlen : (length vis <= length (keys t))%nat).
        { apply NoDup_incl_length; auto. }
        assert (Hlvl : t_level tk < c_depth c).
        { specialize (I3 tk Hin_tk). lia. }
        constructor.
        + constructor; auto.
        + intros p [<- | Hp]; auto.
        + intros tk1 Hin1. cbn [length]. rewrite Nat2N.inj_succ.
          apply in_app_iff in Hin1. destruct Hin1 as [Hin1 | Hin1].
          * specialize (I3 tk1 (Hin_rest _ Hin1)). lia.
          * apply (news0_edge sel_file sel_dir ign1 t c) in Hin1. apply edge_level in Hin1.
            specialize (I3 tk Hin_tk). lia.
        + intros tk1 tk1' [Hp | Hp] Hed.
          * destruct (edge_transfer tk1 tk tk1' (eq_sym Hp) Hlvl Hed) as (tk2 & Hed2 & Hp2).
            right. right. exists tk2. split; auto.
            apply in_app_iff. right. now apply (news0_edge sel_file sel_dir ign1 t c).
          * apply Hm. eapply I4; eauto.
        + intros tk1 x [Hp | Hp] Hem.
          * apply in_app_iff. right. apply outs0_emits. exact (emits_transfer tk1 tk x (eq_sym Hp) Hem).
          * apply in_app_iff. left. eapply I5; eauto.
    Qed.

    Lemma run_inv f : forall pending vis out l,
      inv pending vis out -> run f pending vis out = Done l ->
      exists visf, inv [] visf l /\ forall q, handled pending vis q -> handled [] visf q.
    Proof.
      induction f as [|f IH]; intros pending vis out l HI H; destruct pending as [|tk0 rest0]; cbn [WalkModel.run] in H;
        try discriminate.
      - injection H as <-. exists vis. auto.
      - injection H as <-. exists vis. auto.
      - destruct (pick sched tk0 rest0 vis) as [tk rest] eqn:Ep.
        destruct (step vis tk) as [[new vis'] o] eqn:Es.
        destruct (inv_step _ _ _ _ _ _ _ _ _ HI Ep Es) as [HI' Hm].
        destruct (IH _ _ _ _ HI' H) as (visf & HIf & Hmf).
        exists visf. split; auto.
    Qed.

    Lemma walk_complete_follow roots l x :
      walk roots = Done l -> selected false roots x -> In x l.
    Proof.
      unfold WalkModel.walk. intros H (tk & Hv & Hem).
      assert (HI0 : inv (root_tasks t c roots) [] []).
      { constructor.
        - constructor.
        - intros p [].
        - intros tk0 Hin. apply root_tasks_spec in Hin. destruct Hin as (raw & nd & _ & _ & _ & ->). cbn. lia.
        - intros ? ? [].
        - intros ? ? []. }
      destruct (run_inv _ _ _ _ _ HI0 H) as (visf & HIf & Hm).
      assert (Hh : handled [] visf (t_path tk)).
      { clear Hem. induction Hv as [tk Hin | tk tk' Hv IHv Hed].
        - apply Hm. right. right. eauto.
        - destruct IHv as [Hvis | [Hd | (? & [] & _)]].
          + eapply (inv_succ _ _ _ HIf); eauto.
          + exfalso. destruct Hed as [nd q He | nd ab tg target tnd He]; eapply enters_not_dead; eauto. }
      destruct Hh as [Hvis | [Hd | (? & [] & _)]].
      - eapply (inv_out _ _ _ HIf); eauto.
      - exfalso. destruct Hem as (nd & He & _). eapply enters_not_dead; eauto.
    Qed.

    Lemma walk_exact_follow roots l x : walk roots = Done l -> (In x l <-> selected false roots x).
    Proof.
      intros H. split.
      - intros Hx. apply selected_mono. eapply walk_sound; eauto.
      - now apply walk_complete_follow.
    Qed.
  End FollowRI.

  (* ------------------------------------------------------------------------------------------ *)
  (* the scan pipeline: size filter and deduplication *)
  Lemma scan_spec roots l' :
    scan roots = Done l' ->
    exists l, walk roots = Done l /\ NoDup l' /\ forall x, In x l' <-> In x l /\ size_ok t c x = true.
  Proof.
    unfold WalkModel.scan. destruct (walk roots) as [l|]; [|discriminate].
    intros H. injection H as <-. exists l. split; auto. unfold deduplicate. split.
    - apply NoDup_nodup.
    - intros x. rewrite nodup_In, filter_In. tauto.
  Qed.

  Lemma scan_terminates roots : exists l, scan roots = Done l.
  Proof.
    unfold WalkModel.scan. destruct (walk_terminates sel_file sel_dir ign1 t c sched roots) as [l ->]. eauto.
  Qed.
  End AnySched.
End Exact.
