(* Pins_C08.v — the statements of Props_C08.v, pinned: weakening a theorem there breaks this file. *)
From Coq Require Import Permutation Sorted.
From FV Require Import Base SortLib DedupeModel DedupeProofs DedupeProofs2 Props_C08.
Check C08_subgroups : forall (c : dcfg) (files : list meta),
  let subs := subgroups c files in
  Permutation (concat subs) files /\
  (forall g, In g subs -> g <> []) /\
  (forall g a b, In g subs -> In a g -> In b files -> same_sub c a b = true -> In b g) /\
  (forall g a b, In g subs -> In a g -> In b g -> same_sub c a b = true \/ g = [a]).
Check C08_keep : forall c glen ms kept dropped, partition c glen ms = Ok (kept, dropped) ->
  forall a b, In a dropped -> In b (survivors c glen ms) -> b = a \/ same_sub c a b = true ->
  keep c (mpath b) = false.
Check C08_drop_only_matching : forall c glen ms kept dropped, partition c glen ms = Ok (kept, dropped) ->
  forall a b, In a dropped -> In b (survivors c glen ms) -> b = a \/ same_sub c a b = true ->
  may_drop c (mpath b) = true.
Check C08_atomic : forall c glen ms kept dropped, partition c glen ms = Ok (kept, dropped) ->
  (exists ks ds, kept = concat ks /\ dropped = concat ds /\
                 Permutation (ks ++ ds) (subgroups c (survivors c glen ms))) /\
  Permutation (kept ++ dropped) (survivors c glen ms) /\
  (forall a b, In b (survivors c glen ms) -> same_sub c a b = true ->
               (In a dropped -> In b dropped) /\ (In a kept -> In b kept)).
Check C08_n : forall c glen ms kept dropped, partition c glen ms = Ok (kept, dropped) ->
  exists ks ds, kept = concat ks /\ dropped = concat ds /\
                Permutation (ks ++ ds) (subgroups c (survivors c glen ms)) /\
                Nat.min (nkeep c) (length (subgroups c (survivors c glen ms))) <= length ks.
Check C08_rank : forall c glen ms kept dropped, partition c glen ms = Ok (kept, dropped) ->
  exists order : list (nat * sub),
    Permutation order (indexed (subgroups c (survivors c glen ms))) /\
    StronglySorted (lex_lt (prio c)) order /\
    let forced_kept := filter (forced c) (map snd order) in
    let droppable := filter (fun g => negb (forced c g)) (map snd order) in
    let quota := nkeep c - length forced_kept in
    dropped = concat (skipn quota droppable) /\
    kept = concat (forced_kept ++ firstn quota droppable).
Check C08_rank_unique : forall c glen ms k1 d1 k2 d2 o1 o2,
  rank_spec c glen ms k1 d1 o1 -> rank_spec c glen ms k2 d2 o2 -> o1 = o2 /\ k1 = k2 /\ d1 = d2.
Check C08_inherit : forall h c glen ms,
  n_opt c = None -> iso c = [] -> mlinks c = false -> no_size c = false -> mbefore c = None ->
  partition (merge h c) glen ms = partition (explicit h c) glen ms.
Check C08_inherit_cli_wins : forall h c,
  (forall n, n_opt c = Some n -> n_opt (merge h c) = Some n) /\
  (iso c <> [] -> iso (merge h c) = iso c) /\
  mlinks (merge h c) = (mlinks c || h_mlinks h) /\
  no_size (merge h c) = (no_size c || h_transform h) /\
  (forall t, mbefore c = Some t -> mbefore (merge h c) = Some t) /\
  (n_opt c = None -> nkeep (merge h c) = Nat.max 1 (group_rf_over h)) /\
  keep (merge h c) = keep c /\ may_drop (merge h c) = may_drop c /\ prio (merge h c) = prio c.
Check C08_no_panic : forall c glen ms, partition c glen ms <> Panic.
Check C08_script : forall op sm c glen ms kept dropped, partition c glen ms = Ok (kept, dropped) ->
  exists cmds, script_o op sm kept dropped = Ok cmds /\ map cmd_victim cmds = dropped /\
               forall x t, In x cmds -> cmd_target x = Some t -> hd_error kept = Some t /\ In t kept.
Check C08_dedupe_group : forall op c sm glen ms x, In x (group_cmds (dedupe_group op c sm glen ms)) ->
  exists files part kept dropped,
    opt_seq ms = Some files /\ (forall f, In f part -> In f files) /\
    partition c glen part = Ok (kept, dropped) /\ In (cmd_victim x) dropped /\
    (forall t, cmd_target x = Some t -> In t kept).
