(* Base.v — shared foundations (stdlib only): list update, counting, sums.
   Engines import this file; it contains small generic lemmas only. *)
From Coq Require Export List ZArith NArith Lia Bool Arith.
Export ListNotations.

Definition upd {A} (l : list A) (i : nat) (x : A) : list A :=
  firstn i l ++ x :: skipn (S i) l.

Lemma upd_length {A} (l : list A) i x y : nth_error l i = Some y -> length (upd l i x) = length l.
Proof.
  revert i; induction l as [|a l IH]; intros [|i] H; cbn in *; try discriminate; auto.
  unfold upd in *. cbn [firstn skipn app length]. f_equal. apply IH; auto.
Qed.

Lemma nth_upd_same {A} (l : list A) i x y : nth_error l i = Some y -> nth_error (upd l i x) i = Some x.
Proof.
  revert i; induction l as [|a l IH]; intros [|i] H; cbn in *; try discriminate; auto.
  unfold upd in *. cbn [firstn skipn app nth_error]. apply IH; auto.
Qed.

Lemma nth_upd_other {A} (l : list A) i j x y : nth_error l i = Some y -> i <> j ->
  nth_error (upd l i x) j = nth_error l j.
Proof.
  revert i j. induction l as [|a l IH]; intros i j Hi Hij; unfold upd.
  - destruct i; discriminate.
  - destruct i as [|i], j as [|j]; cbn [firstn skipn app nth_error] in *; try congruence; try reflexivity.
    apply (IH i j); congruence.
Qed.

Lemma nth_upd {A} (l : list A) i j x y : nth_error l i = Some y ->
  nth_error (upd l i x) j = if Nat.eqb i j then Some x else nth_error l j.
Proof.
  intros H. destruct (Nat.eqb_spec i j) as [->|Hn].
  - eapply nth_upd_same; eauto.
  - eapply nth_upd_other; eauto.
Qed.

(* counting elements that satisfy a boolean predicate, as a Z *)
Definition cnt {A} (p : A -> bool) (l : list A) : Z := Z.of_nat (length (filter p l)).

Lemma cnt_nonneg {A} (p : A -> bool) l : (0 <= cnt p l)%Z.
Proof. unfold cnt; lia. Qed.

Lemma cnt_upd {A} (p : A -> bool) l i x y : nth_error l i = Some y ->
  (cnt p (upd l i x) = cnt p l - (if p y then 1 else 0) + (if p x then 1 else 0))%Z.
Proof.
  unfold cnt. revert i. induction l as [|a l IH]; intros i Hn.
  - destruct i; discriminate.
  - destruct i as [|i].
    + cbn [nth_error] in Hn. injection Hn as ->. unfold upd.
      cbn [firstn skipn app filter].
      destruct (p y), (p x); cbn [length]; rewrite ?Nat2Z.inj_succ; lia.
    + cbn [nth_error] in Hn. specialize (IH i Hn). unfold upd in *.
      cbn [firstn skipn app filter] in *.
      destruct (p a); cbn [length]; rewrite ?Nat2Z.inj_succ; lia.
Qed.

Lemma cnt_ge1 {A} (p : A -> bool) l i y : nth_error l i = Some y -> p y = true -> (1 <= cnt p l)%Z.
Proof.
  revert i. induction l as [|a l IH]; intros i Hn Hp.
  - destruct i; discriminate.
  - unfold cnt in *. destruct i as [|i]; cbn [nth_error] in Hn.
    + injection Hn as ->. cbn [filter]. rewrite Hp. cbn [length]. rewrite Nat2Z.inj_succ. lia.
    + specialize (IH i Hn Hp). cbn [filter]. destruct (p a); cbn [length]; rewrite ?Nat2Z.inj_succ; lia.
Qed.

Lemma cnt_zero_forall {A} (p : A -> bool) l : cnt p l = 0%Z -> forall i y, nth_error l i = Some y -> p y = false.
Proof.
  intros H i y Hn. destruct (p y) eqn:E; auto.
  pose proof (cnt_ge1 p l i y Hn E). lia.
Qed.

Lemma cnt_repeat_false {A} (p : A -> bool) x n : p x = false -> cnt p (repeat x n) = 0%Z.
Proof. intros H. unfold cnt. induction n; cbn [repeat filter]; auto. rewrite H. auto. Qed.

Lemma cnt_pos_exists {A} (p : A -> bool) l : (0 < cnt p l)%Z -> exists i y, nth_error l i = Some y /\ p y = true.
Proof.
  unfold cnt. induction l as [|a l IH]; cbn [filter length]; intros H; [lia|].
  destruct (p a) eqn:E.
  - exists 0%nat, a. auto.
  - destruct (IH H) as (i & y & Hi & Hy). exists (S i), y. auto.
Qed.

(* sum of a list of naturals, as a Z *)
Fixpoint zsum (l : list nat) : Z :=
  match l with [] => 0%Z | x :: l => (Z.of_nat x + zsum l)%Z end.

Lemma zsum_nonneg l : (0 <= zsum l)%Z.
Proof. induction l as [|a l IH]; cbn [zsum]; lia. Qed.

Lemma zsum_upd l i x y : nth_error l i = Some y ->
  (zsum (upd l i x) = zsum l - Z.of_nat y + Z.of_nat x)%Z.
Proof.
  revert i; induction l as [|a l IH]; intros [|i] H; cbn [nth_error] in *; try discriminate.
  - injection H as ->. unfold upd. cbn [firstn skipn app zsum]. lia.
  - specialize (IH i H). unfold upd in *. cbn [firstn skipn app zsum] in *. lia.
Qed.

Lemma zsum_repeat0 n : zsum (repeat 0%nat n) = 0%Z.
Proof. induction n as [|n IH]; cbn [repeat zsum] in *; lia. Qed.

Lemma zsum_zero_all l : zsum l = 0%Z -> forall i y, nth_error l i = Some y -> y = 0%nat.
Proof.
  induction l as [|a l IH]; intros H [|i] y Hn; cbn [nth_error] in Hn; try discriminate;
    cbn [zsum] in H; pose proof (zsum_nonneg l).
  - injection Hn as <-. lia.
  - eapply IH; eauto. lia.
Qed.
