(* CacheProofs2.v — histories: the invariant over unbounded histories, the same-result theorem,
   soundness of the decidable provisos, and the witnesses of the three excluded classes. *)
From FV Require Import Base CacheModel CacheProofs.
Open Scope N_scope.

Section History.
Variable H : N -> bytes -> hashv.
Variable T : tconf -> bytes -> option bytes.

Notation step := (step H T).
Notation exec := (exec H T).
Notation moments := (moments H T).

Lemma moments_head s h : In (snd s) (moments s h).
Proof. destruct h; cbn [CacheModel.moments]; left; reflexivity. Qed.

Lemma moments_cons s ev h : moments s (ev :: h) = snd s :: moments (step s ev) h.
Proof. reflexivity. Qed.

Lemma moments_app_incl h1 : forall s h2, incl (moments s h1) (moments s (h1 ++ h2)).
Proof.
  induction h1 as [|ev h1 IH]; intros s h2 w Hin.
  - cbn [CacheModel.moments] in Hin. destruct Hin as [<-|[]]. apply moments_head.
  - rewrite <- app_comm_cons, moments_cons. rewrite moments_cons in Hin.
    destruct Hin as [<-|Hin]; [left; reflexivity|right; apply IH; exact Hin].
Qed.

Lemma confs_app h1 h2 : confs (h1 ++ h2) = confs h1 ++ confs h2.
Proof.
  induction h1 as [|ev h1 IH]; [reflexivity|].
  rewrite <- app_comm_cons. destruct ev; cbn [confs]; rewrite IH; reflexivity.
Qed.

Lemma exec_last_moment h : forall s, In (snd (exec s h)) (moments s h).
Proof.
  induction h as [|ev h IH]; intros s.
  - left. reflexivity.
  - rewrite moments_cons. right. cbn [CacheModel.exec]. apply IH.
Qed.

Lemma Forall_filter {A} (P : A -> Prop) f l : Forall P l -> Forall P (filter f l).
Proof.
  rewrite !Forall_forall. intros HP x Hin. apply filter_In in Hin. apply HP. tauto.
Qed.

Lemma step_inv cs ws s ev : Inv H T cs ws (fst s) -> In (snd s) ws -> incl (confs [ev]) cs ->
  Inv H T cs ws (fst (step s ev)).
Proof.
  intros Hi Iw Ic. destruct ev as [e|a tr p|keep]; cbn [CacheModel.step fst].
  - exact Hi.
  - apply run_cached_inv; auto. apply Ic. left. reflexivity.
  - apply Forall_filter. exact Hi.
Qed.

(* the moments at which a run hashes something: only these can be the origin of an entry *)
Fixpoint run_moments (s : cache * world) (h : list event) : list world :=
  match h with
  | [] => []
  | ev :: h' => (match ev with EvRun _ _ _ => [snd s] | _ => [] end) ++ run_moments (step s ev) h'
  end.

Lemma run_moments_incl h : forall s, incl (run_moments s h) (moments s h).
Proof.
  induction h as [|ev h IH]; intros s w Hw; [destruct Hw|].
  cbn [run_moments] in Hw. rewrite moments_cons. apply in_app_or in Hw. destruct Hw as [Hw|Hw].
  - destruct ev; cbn [In] in Hw; try contradiction. destruct Hw as [<-|[]]. left. reflexivity.
  - right. apply IH. exact Hw.
Qed.

Lemma run_moments_app h1 : forall s h2, incl (run_moments s h1) (run_moments s (h1 ++ h2)).
Proof.
  induction h1 as [|ev h1 IH]; intros s h2 w Hw; [destruct Hw|].
  rewrite <- app_comm_cons. cbn [run_moments] in *. apply in_or_app. apply in_app_or in Hw.
  destruct Hw as [Hw|Hw]; [left; exact Hw|right; apply IH; exact Hw].
Qed.

Lemma step_inv_run cs os s ev : Inv H T cs os (fst s) -> incl (run_moments s [ev]) os -> incl (confs [ev]) cs ->
  Inv H T cs os (fst (step s ev)).
Proof.
  intros Hi Io Ic. destruct ev as [e|a tr p|keep]; cbn [CacheModel.step fst].
  - exact Hi.
  - apply run_cached_inv; auto.
    + apply Io. left. reflexivity.
    + apply Ic. left. reflexivity.
  - apply Forall_filter. exact Hi.
Qed.

Lemma exec_inv_run cs os h : forall s, Inv H T cs os (fst s) -> incl (run_moments s h) os -> incl (confs h) cs ->
  Inv H T cs os (fst (exec s h)).
Proof.
  induction h as [|ev h IH]; intros s Hi Io Ic; [exact Hi|].
  cbn [CacheModel.exec]. cbn [run_moments] in Io.
  apply IH.
  - apply step_inv_run; auto.
    + intros w Hw. apply Io. apply in_or_app. left. cbn [run_moments] in Hw. rewrite app_nil_r in Hw. exact Hw.
    + intros x Hx. apply Ic. destruct ev; cbn [confs] in *; try contradiction.
      destruct Hx as [<-|[]]. left. reflexivity.
  - intros w Hw. apply Io. apply in_or_app. right. exact Hw.
  - intros x Hx. apply Ic. destruct ev; cbn [confs]; auto. right. exact Hx.
Qed.

Lemma exec_inv cs ws h : forall s, Inv H T cs ws (fst s) -> incl (moments s h) ws -> incl (confs h) cs ->
  Inv H T cs ws (fst (exec s h)).
Proof.
  intros s Hi Im Ic. apply exec_inv_run; auto.
  intros w Hw. apply Im. apply run_moments_incl. exact Hw.
Qed.

(* C12_entries_valid *)
Theorem entries_valid_reachable : forall (h : list event) (w0 : world),
  stamp_determines (moments ([], w0) h) -> tree_faithful T (confs h) ->
  forall h1 h2, h = h1 ++ h2 ->
  entries_valid H T (confs h) (moments ([], w0) h) (fst (exec ([], w0) h1)).
Proof.
  intros h w0 Hs Ht h1 h2 ->. apply (origin_valid H T _ (moments ([], w0) (h1 ++ h2))); auto.
  apply exec_inv.
  - constructor.
  - apply moments_app_incl.
  - rewrite confs_app. apply incl_appl. apply incl_refl.
Qed.

(* the sharp form: only collisions between a moment at which some run hashed and the present matter *)
Theorem same_result_hashed_moments : forall (h : list event) (w0 : world) (a : N) (tr : option tconf) (R : Type) (p : prog R),
  stamp_det2 (run_moments ([], w0) h) [snd (exec ([], w0) h)] ->
  tree_faithful T ((a, tr) :: confs h) -> nofail p ->
  fst (run_cached H T a tr p (fst (exec ([], w0) h)) (snd (exec ([], w0) h))) = run_plain H T a tr p (snd (exec ([], w0) h)).
Proof.
  intros h w0 a tr R p Hs Ht Hn.
  set (cur := snd (exec ([], w0) h)) in *.
  apply (run_cached_same H T ((a, tr) :: confs h) (cur :: run_moments ([], w0) h) [cur]); auto.
  - intros w1 w2 id i1 i2 I1 I2 E1 E2 Em El. destruct I2 as [<-|[]].
    destruct I1 as [<-|I1].
    + rewrite E1 in E2. injection E2 as <-. reflexivity.
    + apply (Hs w1 cur id i1 i2); auto. left. reflexivity.
  - apply exec_inv_run.
    + constructor.
    + apply incl_tl. apply incl_refl.
    + apply incl_tl. apply incl_refl.
  - left. reflexivity.
  - left. reflexivity.
  - left. reflexivity.
Qed.

(* C12_same_result *)
Theorem same_result : forall (h : list event) (w0 : world) (a : N) (tr : option tconf) (R : Type) (p : prog R),
  stamp_determines (moments ([], w0) h) -> tree_faithful T ((a, tr) :: confs h) -> nofail p ->
  fst (run_cached H T a tr p (fst (exec ([], w0) h)) (snd (exec ([], w0) h))) = run_plain H T a tr p (snd (exec ([], w0) h)).
Proof.
  intros h w0 a tr R p Hs Ht Hn. apply same_result_hashed_moments; auto.
  intros w1 w2 id i1 i2 I1 I2. destruct I2 as [<-|[]].
  apply (Hs w1 (snd (exec ([], w0) h)) id i1 i2).
  - apply run_moments_incl. exact I1.
  - apply exec_last_moment.
Qed.

(* the same with `tree_faithful` discharged: command strings are free of NUL bytes *)
Theorem entries_valid_nul_free : forall (h : list event) (w0 : world),
  stamp_determines (moments ([], w0) h) -> nul_free (confs h) ->
  forall h1 h2, h = h1 ++ h2 ->
  entries_valid H T (confs h) (moments ([], w0) h) (fst (exec ([], w0) h1)).
Proof. intros h w0 Hs Hn. apply entries_valid_reachable; auto. apply tree_faithful_nul_free. exact Hn. Qed.

Theorem same_result_nul_free : forall (h : list event) (w0 : world) (a : N) (tr : option tconf) (R : Type) (p : prog R),
  stamp_determines (moments ([], w0) h) -> nul_free ((a, tr) :: confs h) -> nofail p ->
  fst (run_cached H T a tr p (fst (exec ([], w0) h)) (snd (exec ([], w0) h))) = run_plain H T a tr p (snd (exec ([], w0) h)).
Proof. intros h w0 a tr R p Hs Hn Hnf. apply same_result; auto. apply tree_faithful_nul_free. exact Hn. Qed.

Theorem same_result_hashed_moments_nul_free : forall (h : list event) (w0 : world) (a : N) (tr : option tconf) (R : Type) (p : prog R),
  stamp_det2 (run_moments ([], w0) h) [snd (exec ([], w0) h)] ->
  nul_free ((a, tr) :: confs h) -> nofail p ->
  fst (run_cached H T a tr p (fst (exec ([], w0) h)) (snd (exec ([], w0) h))) = run_plain H T a tr p (snd (exec ([], w0) h)).
Proof. intros h w0 a tr R p Hs Hn Hnf. apply same_result_hashed_moments; auto. apply tree_faithful_nul_free. exact Hn. Qed.

(* with the mtime rounded DOWN to ms (the usual reading of "millisecond resolution") *)
Theorem same_result_rounded_down : forall (h : list event) (w0 : world) (a : N) (tr : option tconf) (R : Type) (p : prog R),
  mtime_determines (moments ([], w0) h) ->
  preepoch_whole_ms (moments ([], w0) h) ->
  nul_free ((a, tr) :: confs h) ->
  nofail p ->
  fst (run_cached H T a tr p (fst (exec ([], w0) h)) (snd (exec ([], w0) h))) = run_plain H T a tr p (snd (exec ([], w0) h)).
Proof.
  intros h w0 a tr R p Hm Hp Hn Hnf. apply same_result_nul_free; auto.
  apply stamp_of_mtime; auto.
Qed.

End History.

(* ---------- soundness of the decidable provisos ---------- *)
Lemma inode_lookup_In id is i : inode_lookup id is = Some i -> In (id, i) is.
Proof.
  induction is as [|[j x] is IH]; cbn [inode_lookup]; intros E; [discriminate|].
  destruct (fid_eqb id j) eqn:B.
  - apply fid_eqb_eq in B. injection E as ->. subst. left. reflexivity.
  - right. auto.
Qed.

Lemma determines_b_sound same ws : determines_b same ws = true ->
  forall w1 w2 id i1 i2, In w1 ws -> In w2 ws -> inode_of w1 id = Some i1 -> inode_of w2 id = Some i2 ->
    same i1 i2 = true -> i_data i1 = i_data i2.
Proof.
  unfold determines_b. intros Hb w1 w2 id i1 i2 I1 I2 E1 E2 Es.
  rewrite forallb_forall in Hb.
  assert (A1 : In (id, i1) (all_inodes ws)).
  { unfold all_inodes. apply in_flat_map. exists w1. split; auto. apply inode_lookup_In. exact E1. }
  assert (A2 : In (id, i2) (all_inodes ws)).
  { unfold all_inodes. apply in_flat_map. exists w2. split; auto. apply inode_lookup_In. exact E2. }
  specialize (Hb _ A1). rewrite forallb_forall in Hb. specialize (Hb _ A2).
  unfold pair_ok in Hb. cbn [fst snd] in Hb. rewrite fid_eqb_refl, Es in Hb. cbn [andb negb orb] in Hb.
  apply list_eqb_eq. exact Hb.
Qed.

Lemma stamp_determines_b_sound ws : stamp_determines_b ws = true -> stamp_determines ws.
Proof.
  intros Hb w1 w2 id i1 i2 I1 I2 E1 E2 Em El.
  eapply (determines_b_sound same_code_stamp ws Hb w1 w2 id); eauto.
  unfold same_code_stamp. rewrite Em, El, Z.eqb_refl, N.eqb_refl. reflexivity.
Qed.

Lemma mtime_determines_b_sound ws : mtime_determines_b ws = true -> mtime_determines ws.
Proof.
  intros Hb w1 w2 id i1 i2 I1 I2 E1 E2 Em El.
  eapply (determines_b_sound same_real_stamp ws Hb w1 w2 id); eauto.
  unfold same_real_stamp. rewrite Em, El, Z.eqb_refl, N.eqb_refl. reflexivity.
Qed.

Lemma preepoch_fraction_b_sound ws : preepoch_fraction_b ws = false -> preepoch_whole_ms ws.
Proof.
  unfold preepoch_fraction_b. intros Hb w id i Iw Ei L.
  destruct (Z.eqb (Z.modulo (i_mtime i) 1000000) 0) eqn:B; [apply Z.eqb_eq in B; exact B|].
  exfalso.
  assert (X : existsb (fun x => Z.ltb (i_mtime (snd x)) 0 && negb (Z.eqb (Z.modulo (i_mtime (snd x)) 1000000) 0))
                      (all_inodes ws) = true).
  { apply existsb_exists. exists (id, i). split.
    - unfold all_inodes. apply in_flat_map. exists w. split; auto. apply inode_lookup_In. exact Ei.
    - cbn [snd]. rewrite B. apply Z.ltb_lt in L. rewrite L. reflexivity. }
  congruence.
Qed.
