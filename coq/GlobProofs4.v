(* GlobProofs4.v — engine P, part 4: compile_glob ties the pieces together; literals
   (C16_literal); case-insensitive matching (C16_ignore_case). *)
From Coq Require Import List NArith Bool Arith Lia.
From FV Require Import Base GlobModel GlobProofs GlobProofs2 GlobProofs3.
Import ListNotations.
Open Scope N_scope.

(* ---- compile_glob ---- *)
Lemma compile_ok ci txt p : compile_glob ci txt = Ok p ->
  parse_glob txt = Ok (pat_g p) /\ pat_ci p = ci /\ wf (pat_g p) /\ seq_status (pat_g p) = CsOk.
Proof.
  unfold compile_glob. destruct (parse_glob txt) as [g| | | |] eqn:E; try discriminate.
  destruct (seq_status g) eqn:Es; try discriminate. intros H. injection H as <-. cbn.
  repeat split; auto. eapply parse_wf; eauto.
Qed.

Theorem compile_translate ci txt p : compile_glob ci txt = Ok p -> forall s,
  (pat_matches p s = true <-> gmatch ci (pat_g p) s) /\
  (rmatch ci (to_re (pat_g p)) s <-> gmatch ci (pat_g p) s).
Proof.
  intros H s. apply compile_ok in H as (_ & Hci & Hwf & _).
  unfold pat_matches, pat_re. rewrite Hci, re_match_spec.
  split; apply translate; auto.
Qed.

Theorem compile_prefix ci txt p : compile_glob ci txt = Ok p -> forall s,
  pat_matches_prefix p s = true <->
  exists s1 s2, s = s1 ++ s2 /\ gmatch ci (pat_g p) s1 /\ (s2 = [] \/ exists t, s2 = 47 :: t).
Proof.
  intros H s. apply compile_ok in H as (_ & Hci & Hwf & _).
  unfold pat_matches_prefix, pat_re. rewrite Hci, re_match_prefix_spec.
  split; intros (s1 & s2 & E & Hm & B); exists s1, s2; (split; [auto|]); (split; [apply (translate ci _ Hwf); auto|]).
  - destruct s2 as [|c t]; auto. right. cbn in B. apply N.eqb_eq in B as ->. eauto.
  - destruct B as [->|(t & ->)]; reflexivity.
Qed.

Theorem compile_text ci txt p : compile_glob ci txt = Ok p -> pat_text p = show_re (to_re (pat_g p)).
Proof. intros _. apply strip_anchors_show. Qed.

(* ---- literals ---- *)
(* characters that cannot start a glob construct at top level:  not one of  \ { ? * + @ ! [ /  *)
Definition plain (c : N) : bool :=
  negb ((c =? 92) || (c =? 123) || (c =? 63) || (c =? 42) || (c =? 43) || (c =? 64) || (c =? 33) || (c =? 91) || (c =? 47)).

(* a glob text made of plain characters and escaped characters (false, c) = c, (true, c) = \c *)
Definition tok_text (t : bool * N) : str := if fst t then [92; snd t] else [snd t].
Definition toks_text (l : list (bool * N)) : str := flat_map tok_text l.
Definition toks_ok (l : list (bool * N)) : Prop := forall c, In (false, c) l -> plain c = true.

Lemma p_token_plain f c r : plain c = true -> p_token (S f) STop (c :: r) = POk (GLit c) r.
Proof.
  unfold plain. rewrite negb_true_iff, !orb_false_iff. intros H.
  decompose [and] H. cbn [p_token]. unfold ext_of.
  repeat match goal with E : (c =? _) = false |- _ => rewrite E; clear E end. reflexivity.
Qed.

Lemma p_seq_lits : forall l f, (length l + 2 <= f)%nat -> toks_ok l ->
  p_seq f STop (toks_text l) = POk (map GLit (map snd l)) [].
Proof.
  induction l as [|[e c] l IH]; intros f Hf Hok.
  - cbn [length] in Hf. destruct f as [|[|f]]; [lia|lia|reflexivity].
  - cbn [length] in Hf. destruct f as [|[|f]]; [lia|lia|].
    assert (Hl : toks_ok l) by (intros x Hx; apply Hok; right; auto).
    assert (T : p_token (S f) STop (toks_text ((e, c) :: l)) = POk (GLit c) (toks_text l)).
    { unfold toks_text. cbn [flat_map tok_text fst snd]. destruct e; cbn [app].
      - reflexivity.
      - apply p_token_plain. apply Hok. left; auto. }
    change (p_seq (S (S f)) STop (toks_text ((e, c) :: l)))
      with (match p_token (S f) STop (toks_text ((e, c) :: l)) with
            | PFuel => PFuel | PFail => POk [] (toks_text ((e, c) :: l))
            | POk g r => match p_seq (S f) STop r with
                         | POk gs r' => POk (g :: gs) r' | PFail => PFail | PFuel => PFuel end end).
    rewrite T, IH by (auto; lia). reflexivity.
Qed.

Lemma toks_text_length l : (length l <= length (toks_text l))%nat.
Proof.
  unfold toks_text. induction l as [|t l IH]; [auto|].
  change (flat_map tok_text (t :: l)) with (tok_text t ++ flat_map tok_text l).
  rewrite app_length. cbn [length].
  assert (1 <= length (tok_text t))%nat by (unfold tok_text; destruct (fst t); cbn [length]; lia). lia.
Qed.

Lemma seq_status_lits w : seq_status (map GLit w) = CsOk.
Proof. induction w; cbn; auto. Qed.

Theorem compile_lits ci l : toks_ok l ->
  compile_glob ci (toks_text l) = Ok (mkpat ci (map GLit (map snd l))).
Proof.
  intros Hok. unfold compile_glob, parse_glob.
  rewrite p_seq_lits; auto.
  - rewrite seq_status_lits. reflexivity.
  - unfold parse_fuel. pose proof (toks_text_length l). lia.
Qed.

Lemma show_lits w : show_re (to_re (map GLit w)) = escape w.
Proof.
  induction w as [|c w IH]; [reflexivity|]. cbn [map]. rewrite show_to_re_cons, IH. reflexivity.
Qed.

Lemma gmatch_lits ci w s : gmatch ci (map GLit w) s <-> Forall2 (fun x c => ceq ci x c = true) w s.
Proof.
  revert s. induction w as [|x w IH]; intros s; cbn [map].
  - split; intros H; inversion H; subst; constructor.
  - split; intros H.
    + inversion H as [|g gs s1 s2 H1 H2]; subst. inversion H1; subst. cbn [app]. constructor; auto. apply IH; auto.
    + inversion H as [|x' c w' s' Hc Hr]; subst. change (c :: s') with ([c] ++ s'). constructor; auto. apply IH; auto.
Qed.

Lemma forall2_eq (w s : str) : Forall2 (fun x c => (x =? c) = true) w s <-> s = w.
Proof.
  split.
  - induction 1 as [|x c w s H _ IH]; auto. apply N.eqb_eq in H. congruence.
  - intros ->. induction w; constructor; auto. apply N.eqb_refl.
Qed.

(* C16_literal *)
Theorem literal_exact l : toks_ok l ->
  let w := map snd l in
  compile_glob false (toks_text l) = Ok (mkpat false (map GLit w)) /\
  pat_text (mkpat false (map GLit w)) = escape w /\
  (forall s, pat_matches (mkpat false (map GLit w)) s = true <-> s = w) /\
  (forall s, gmatch false (map GLit w) s <-> s = w).
Proof.
  intros Hok w. pose proof (compile_lits false l Hok) as C. fold w in C.
  split; [exact C|]. split.
  - rewrite (compile_text _ _ _ C). apply show_lits.
  - assert (G : forall s, gmatch false (map GLit w) s <-> s = w).
    { intros s. rewrite gmatch_lits. apply forall2_eq. }
    split; auto. intros s. rewrite <- G. apply (compile_translate _ _ _ C).
Qed.

(* ---- ignore case ---- *)
Fixpoint fold1 (g : gl) : gl :=
  match g with
  | GLit c => GLit (lower c)
  | GAlt l => GAlt (map (map fold1) l)
  | GExt k l => GExt k (map (map fold1) l)
  | x => x
  end.
Definition fold_glob (g : list gl) : list gl := map fold1 g.

Lemma set_has_lower neg b c d : lower d = lower c -> set_has true neg b d = set_has true neg b c.
Proof.
  intros H. unfold set_has. destruct (class_items b) as [l|]; auto. f_equal.
  induction l as [|it l IH]; cbn [existsb]; auto. rewrite IH. f_equal.
  unfold item_has, orbit. rewrite H. reflexivity.
Qed.

Lemma map_lower_sep s : In 47 (map lower s) <-> In 47 s.
Proof.
  rewrite in_map_iff. split.
  - intros (x & Hx & Hin). apply (proj1 (lower_sep x)) in Hx. subst x. exact Hin.
  - intros H. exists 47. split; auto.
Qed.

Lemma map_singleton {A B} (f : A -> B) s y : map f s = [y] -> exists x, s = [x] /\ f x = y.
Proof. destruct s as [|x [|? ?]]; cbn; intros H; try discriminate. injection H as <-. eauto. Qed.

(* matching with ci only depends on the case-folded pattern literals and the case-folded subject *)
Lemma ignore_case_mut :
  (forall g s, gmatch1 true g s -> forall g' s', fold1 g' = fold1 g -> map lower s' = map lower s -> gmatch1 true g' s') /\
  (forall l s, gmatch true l s -> forall l' s', fold_glob l' = fold_glob l -> map lower s' = map lower s -> gmatch true l' s').
Proof.
  apply gmatch_mutind.
  - (* lit *) intros x c Hc g' s' Hg Hs. destruct g'; cbn in Hg; try discriminate. injection Hg as Hx.
    cbn [map] in Hs. apply map_singleton in Hs as (d & -> & Hd). constructor. cbn [ceq] in *.
    rewrite Hx, Hd. auto.
  - (* one *) intros c Hc g' s' Hg Hs. destruct g'; cbn in Hg; try discriminate.
    cbn [map] in Hs. apply map_singleton in Hs as (d & -> & Hd). constructor. intros ->.
    apply Hc. apply lower_sep. rewrite <- Hd. reflexivity.
  - (* star *) intros s Hn g' s' Hg Hs. destruct g'; cbn in Hg; try discriminate. constructor.
    rewrite <- map_lower_sep, Hs, map_lower_sep. auto.
  - (* dstar *) intros s g' s' Hg Hs. destruct g'; cbn in Hg; try discriminate. constructor.
  - (* sep *) intros g' s' Hg Hs. destruct g'; cbn in Hg; try discriminate.
    cbn [map] in Hs. apply map_singleton in Hs as (d & -> & Hd). change (lower 47) with 47 in Hd.
    apply (proj1 (lower_sep d)) in Hd. subst d. constructor.
  - (* class *) intros neg b c Hc g' s' Hg Hs. destruct g'; cbn in Hg; try discriminate. injection Hg as -> ->.
    cbn [map] in Hs. apply map_singleton in Hs as (d & -> & Hd). constructor.
    rewrite (set_has_lower _ _ c d); auto.
  - (* alt *) intros alts a s Hin Ha IH g' s' Hg Hs. destruct g'; cbn in Hg; try discriminate. injection Hg as Hg.
    assert (In (map fold1 a) (map (map fold1) alts0)) as Hin'.
    { rewrite Hg. apply in_map; auto. }
    apply in_map_iff in Hin' as (a' & Ea & Hin'). econstructor; eauto.
  - (* once *) intros alts a s Hin Ha IH g' s' Hg Hs. destruct g'; cbn in Hg; try discriminate. injection Hg as -> Hg.
    assert (In (map fold1 a) (map (map fold1) alts0)) as Hin'.
    { rewrite Hg. apply in_map; auto. }
    apply in_map_iff in Hin' as (a' & Ea & Hin'). eapply GM_once; eauto.
  - (* opt0 *) intros alts g' s' Hg Hs. destruct g'; cbn in Hg; try discriminate. injection Hg as -> Hg.
    destruct s'; try discriminate. constructor.
  - (* opt1 *) intros alts a s Hin Ha IH g' s' Hg Hs. destruct g'; cbn in Hg; try discriminate. injection Hg as -> Hg.
    assert (In (map fold1 a) (map (map fold1) alts0)) as Hin'.
    { rewrite Hg. apply in_map; auto. }
    apply in_map_iff in Hin' as (a' & Ea & Hin'). eapply GM_opt1; eauto.
  - (* many0 *) intros alts g' s' Hg Hs. destruct g'; cbn in Hg; try discriminate. injection Hg as -> Hg.
    destruct s'; try discriminate. constructor.
  - (* manyS *) intros alts a s1 s2 Hin Ha IHa Hm IHm g' s' Hg Hs. destruct g'; cbn in Hg; try discriminate.
    injection Hg as -> Hg.
    assert (In (map fold1 a) (map (map fold1) alts0)) as Hin'.
    { rewrite Hg. apply in_map; auto. }
    apply in_map_iff in Hin' as (a' & Ea & Hin').
    rewrite map_app in Hs. apply map_eq_app in Hs as (t1 & t2 & -> & H1 & H2).
    eapply GM_manyS; eauto. apply IHm; auto. cbn [fold1]. rewrite Hg. reflexivity.
  - (* plus *) intros alts a s1 s2 Hin Ha IHa Hm IHm g' s' Hg Hs. destruct g'; cbn in Hg; try discriminate.
    injection Hg as -> Hg.
    assert (In (map fold1 a) (map (map fold1) alts0)) as Hin'.
    { rewrite Hg. apply in_map; auto. }
    apply in_map_iff in Hin' as (a' & Ea & Hin').
    rewrite map_app in Hs. apply map_eq_app in Hs as (t1 & t2 & -> & H1 & H2).
    eapply GM_plus; eauto. apply IHm; auto. cbn [fold1]. rewrite Hg. reflexivity.
  - (* nil *) intros l' s' Hl Hs. destruct l'; try discriminate. destruct s'; try discriminate. constructor.
  - (* cons *) intros g gs s1 s2 H1 IH1 H2 IH2 l' s' Hl Hs. destruct l' as [|g' gs']; try discriminate.
    cbn in Hl. injection Hl as Hg Hgs.
    rewrite map_app in Hs. apply map_eq_app in Hs as (t1 & t2 & -> & E1 & E2).
    constructor; auto.
Qed.

Theorem ignore_case g s g' s' :
  gmatch true g s -> fold_glob g' = fold_glob g -> map lower s' = map lower s -> gmatch true g' s'.
Proof. intros H. apply (proj2 ignore_case_mut); auto. Qed.

(* ---- patterns as values: conservativity for every well-formed pattern, also through Add ---- *)
Lemma pat_matches_gmatch pt : wf (pat_g pt) -> forall s, pat_matches pt s = true <-> gmatch (pat_ci pt) (pat_g pt) s.
Proof. intros H s. unfold pat_matches, pat_re. rewrite re_match_spec. apply translate; auto. Qed.

Theorem pattern_conservative pt p q r : wf (pat_g pt) ->
  pat_matches pt p = true -> p = q ++ r -> pat_matches_partially pt q = true.
Proof.
  intros Hwf Hm E. apply pat_matches_gmatch in Hm; auto. destruct pt as [ci g]. cbn [pat_ci pat_g] in *.
  eapply partial_conservative; eauto.
Qed.

Lemma wf_abs base pt : wf (pat_g pt) -> wf (pat_g (abs_pattern base pt)).
Proof.
  intros H. unfold abs_pattern. destruct (pat_is_absolute pt); auto.
  unfold pat_add, pat_literal. cbn [pat_g]. unfold wf. apply Forall_app. split; auto.
  apply Forall_forall. intros x Hx. apply in_map_iff in Hx as (c & <- & _). constructor.
Qed.

Theorem abs_pattern_conservative base pt p q r : wf (pat_g pt) ->
  pat_matches (abs_pattern base pt) p = true -> p = q ++ r ->
  pat_matches_partially (abs_pattern base pt) q = true.
Proof. intros H. apply pattern_conservative. apply wf_abs; auto. Qed.

(* what abs_pattern builds for a relative pattern: the escaped base dir + '/' followed by the pattern *)
Theorem abs_pattern_relative base pt : pat_is_absolute pt = false ->
  let b := append_sep (map (fun c => if c =? 65533 then 63 else c) (path_string base)) in
  abs_pattern base pt = mkpat (pat_ci pt) (map GLit b ++ pat_g pt) /\
  pat_text (abs_pattern base pt) = escape b ++ pat_text pt.
Proof.
  intros H b. unfold abs_pattern. rewrite H. fold b. split; [reflexivity|].
  unfold pat_text, pat_re, pat_add, pat_literal. cbn [pat_g]. rewrite !strip_anchors_show, show_to_re_app, show_lits.
  reflexivity.
Qed.

(* ---- selector level: matches_dir never rejects the path itself or an ancestor directory of a
        fully matching path, as far as the include patterns are concerned (excludes: K3, C09) ---- *)
Theorem matches_dir_conservative s p d :
  sel_excl s = [] -> Forall (fun q => wf (pat_g q)) (sel_paths s) ->
  matches_full_path s p = true ->
  (with_absolute s d = with_absolute s p \/
   exists r, path_string (with_absolute s p) = append_sep (path_string (with_absolute s d)) ++ r) ->
  matches_dir s d = true.
Proof.
  intros Hex Hwf Hm Hd. unfold matches_full_path in Hm. unfold matches_dir. rewrite Hex in *. cbn [forallb] in *.
  rewrite andb_true_r in *. apply andb_true_iff in Hm as [_ Hm].
  apply orb_true_iff in Hm as [Hm|Hm]; [rewrite Hm; reflexivity|].
  apply orb_true_iff. right. apply existsb_exists in Hm as (q & Hin & Hq). apply existsb_exists.
  exists q. split; auto. apply orb_true_iff. destruct Hd as [E|(r & E)].
  - right. rewrite E. auto.
  - left. rewrite Forall_forall in Hwf. eapply pattern_conservative; eauto.
Qed.

Definition no_lead_sep (c : str) : Prop := match c with x :: _ => x <> 47 | [] => True end.

Lemma path_string_snoc l c : path_string l <> [] -> no_lead_sep c ->
  path_string (l ++ [c]) = append_sep (path_string l) ++ c.
Proof.
  intros Hl Hc. unfold path_string. rewrite fold_left_app. cbn [fold_left].
  fold (path_string l). destruct (path_string l) as [|b buf] eqn:E; [congruence|].
  unfold push_comp, append_sep.
  assert (L : lead_sep c = false).
  { destruct c as [|x c]; auto. cbn in *. apply N.eqb_neq; auto. }
  rewrite L. destruct (ends_with 47 (b :: buf)); auto. rewrite <- app_assoc. reflexivity.
Qed.

Lemma append_sep_nonnil s : append_sep s <> [].
Proof. unfold append_sep. destruct (ends_with 47 s) eqn:E; destruct s; cbn in *; congruence. Qed.

Lemma append_sep_ext s : exists t, append_sep s = s ++ t.
Proof. unfold append_sep. destruct (ends_with 47 s); [exists []; rewrite app_nil_r|exists [47]]; auto. Qed.

(* a proper ancestor (component-list prefix) gives a string prefix ending in '/' *)
Theorem path_string_ancestor : forall m l, m <> [] -> Forall no_lead_sep m -> path_string l <> [] ->
  exists r, path_string (l ++ m) = append_sep (path_string l) ++ r.
Proof.
  induction m as [|c m IH]; intros l Hne Hm Hl; [congruence|].
  inversion Hm as [|c' m' Hc Hm']; subst.
  destruct m as [|c2 m].
  - exists c. apply path_string_snoc; auto.
  - assert (E : l ++ c :: c2 :: m = (l ++ [c]) ++ c2 :: m) by (rewrite <- app_assoc; reflexivity).
    rewrite E. destruct (IH (l ++ [c])) as (r & Hr); auto; try discriminate.
    + rewrite path_string_snoc; auto. intros X. apply app_eq_nil in X as [X _]. apply (append_sep_nonnil _ X).
    + rewrite Hr, path_string_snoc; auto.
      destruct (append_sep_ext (append_sep (path_string l) ++ c)) as (t & ->).
      exists (c ++ t ++ r). rewrite <- !app_assoc. reflexivity.
Qed.
