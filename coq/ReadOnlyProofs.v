(* ReadOnlyProofs.v — lemmas about ReadOnlyModel.v (engine R, property C07). *)
From FV Require Import Base ReadOnlyModel.

(* ---- small facts ------------------------------------------------------------------------------ *)
Lemma path_eqb_refl p : path_eqb p p = true.
Proof. destruct p; cbn; rewrite ?Nat.eqb_refl; reflexivity. Qed.

Lemma pclass_eqb_eq a b : pclass_eqb a b = true <-> a = b.
Proof. destruct a, b; cbn; split; intros H; try reflexivity; try discriminate. Qed.

Lemma subst_all_snoc t f toks x :
  subst_all t f (toks ++ [x]) = step_tok t f (subst_all t f toks) x.
Proof. unfold subst_all. rewrite fold_left_app. reflexivity. Qed.

(* ---- Transform::new / build_transform --------------------------------------------------------- *)
Lemma build_transform_ok fails toks ip nc evs t :
  build_transform fails toks ip nc = (evs, Ok t) ->
  t_copy t = (existsb is_in toks && negb nc)%bool /\ t_in_place t = ip /\
  evs = [Spawn [] StdinNull; Call (CMkdirAll PTmpDir)] /\
  (ip = true -> existsb is_in toks = true).
Proof.
  unfold build_transform, transform_new, windows. cbn [andb].
  rewrite andb_false_r.
  destruct (ip && negb (existsb is_in toks))%bool eqn:E1; [discriminate|].
  destruct (is_nil toks); [discriminate|].
  destruct (fails SProbe); [discriminate|].
  destruct (fails SMkTmp); [discriminate|].
  intros H. injection H as <- <-.
  destruct nc; cbn [t_copy t_in_place]; rewrite ?andb_false_r, ?andb_true_r;
    (split; [reflexivity|split; [reflexivity|split; [reflexivity|]]]);
    intros ->; cbn in E1; destruct (existsb is_in toks); auto; discriminate.
Qed.

Lemma build_transform_err_events fails toks ip nc evs e :
  build_transform fails toks ip nc = (evs, Err e) ->
  evs = [] \/ evs = [Spawn [] StdinNull] \/
  (evs = [Spawn [] StdinNull; Call (CMkdirAll PTmpDir)] /\ fails SMkTmp = true).
Proof.
  unfold build_transform, transform_new, windows. cbn [andb]. rewrite andb_false_r.
  destruct (ip && negb (existsb is_in toks))%bool; [intros H; injection H as <- _; auto|].
  destruct (is_nil toks); [intros H; injection H as <- _; auto|].
  destruct (fails SProbe); [intros H; injection H as <- _; auto|].
  destruct (fails SMkTmp) eqn:E; [intros H; injection H as <- _; auto|].
  destruct nc; discriminate.
Qed.

(* ---- make_args -------------------------------------------------------------------------------- *)
Definition ev_tmp_rm (e : event) : Prop := exists p, e = Call (CRemoveFile p) /\ class p = Tmp.

Definition wf_in (t : transform) (f : nat) (toks : list tok) (i : input) : Prop :=
  (i = InStdIn (POrig f) /\ existsb is_in toks = false) \/
  (i = InNamed (POrig f) /\ t_copy t = false /\ existsb is_in toks = true) \/
  (exists k, i = InCopied (POrig f) (PTmpIn f k) /\ t_copy t = true /\ existsb is_in toks = true).

Definition wf_out (f : nat) (o : output) : Prop := o = OutStdOut \/ o = OutNamed (PTmpOut f).

Record Inv (t : transform) (f : nat) (toks : list tok) (s : mstate) : Prop := mkInv {
  inv_in : wf_in t f toks (ms_in s);
  inv_out : wf_out f (ms_out s);
  inv_evs : Forall ev_tmp_rm (ms_evs s);
  inv_subs : forall p, In (SPath p) (ms_subs s) ->
             (p = POrig f /\ t_copy t = false /\ existsb is_in toks = true) \/ class p = Tmp;
  inv_orig : existsb is_in toks = true -> t_copy t = false -> In (SPath (POrig f)) (ms_subs s) }.

Lemma drop_input_tmp t f toks i : wf_in t f toks i -> Forall ev_tmp_rm (drop_input i).
Proof.
  intros [[-> _]|[[-> _]|[k [-> _]]]]; cbn; constructor; try constructor.
  eexists; split; reflexivity.
Qed.

Lemma drop_output_tmp f o : wf_out f o -> Forall ev_tmp_rm (drop_output o).
Proof.
  intros [->| ->]; cbn; constructor; try constructor. eexists; split; reflexivity.
Qed.

Lemma in_snoc {A} (l : list A) x y : In y (l ++ [x]) <-> In y l \/ y = x.
Proof. rewrite in_app_iff. cbn. intuition. Qed.

Lemma subst_inv t f toks : Inv t f toks (subst_all t f toks).
Proof.
  induction toks as [|x toks IH] using rev_ind.
  - constructor; cbn.
    + left; auto.
    + left; auto.
    + constructor.
    + intros p [].
    + discriminate.
  - rewrite subst_all_snoc. destruct IH as [Hin Hout Hev Hsubs Horig].
    set (s := subst_all t f toks) in *.
    assert (Hnon : forall y, is_in y = false ->
              existsb is_in (toks ++ [y]) = existsb is_in toks).
    { intros y Hy. rewrite existsb_app. cbn [existsb]. rewrite Hy. cbn. apply orb_false_r. }
    assert (Hyes : existsb is_in (toks ++ [TIn]) = true).
    { rewrite existsb_app. cbn. apply orb_true_r. }
    destruct x; cbn [step_tok].
    + (* TLit *)
      constructor; cbn [ms_in ms_out ms_evs ms_subs]; unfold wf_in in *; rewrite ?Hnon by reflexivity; auto.
      * intros p Hp. apply in_snoc in Hp. destruct Hp as [Hp|Hp]; [auto|discriminate].
      * intros H1 H2. apply in_snoc. left. auto.
    + (* TIn *)
      destruct (t_copy t) eqn:Ec.
      * constructor; cbn [ms_in ms_out ms_evs ms_subs]; auto.
        -- right; right. exists (ms_k s). auto.
        -- apply Forall_app. split; [assumption|]. eapply drop_input_tmp; eassumption.
        -- intros p Hp. apply in_snoc in Hp. destruct Hp as [Hp|Hp].
           ++ destruct (Hsubs p Hp) as [[_ [Hc _]]|Hc]; [congruence|auto].
           ++ injection Hp as ->. right. reflexivity.
        -- intros _ Hx. congruence.
      * constructor; cbn [ms_in ms_out ms_evs ms_subs]; auto.
        -- right; left. auto.
        -- apply Forall_app. split; [assumption|]. eapply drop_input_tmp; eassumption.
        -- intros p Hp. apply in_snoc in Hp. destruct Hp as [Hp|Hp].
           ++ destruct (Hsubs p Hp) as [[-> _]|Hc]; auto.
           ++ injection Hp as ->. auto.
        -- intros _ _. apply in_snoc. right. reflexivity.
    + (* TOut *)
      constructor; cbn [ms_in ms_out ms_evs ms_subs]; unfold wf_in in *; rewrite ?Hnon by reflexivity; auto.
      * right. reflexivity.
      * apply Forall_app. split; [assumption|]. eapply drop_output_tmp; eassumption.
      * intros p Hp. apply in_snoc in Hp. destruct Hp as [Hp|Hp]; [auto|].
        injection Hp as ->. right. reflexivity.
      * intros H1 H2. apply in_snoc. left. auto.
    + (* TVar *)
      constructor; cbn [ms_in ms_out ms_evs ms_subs]; unfold wf_in in *; rewrite ?Hnon by reflexivity; auto.
      * intros p Hp. apply in_snoc in Hp. destruct Hp as [Hp|Hp]; [auto|discriminate].
      * intros H1 H2. apply in_snoc. left. auto.
Qed.

(* the shape of make_args' result *)
Definition wf_out' (i : input) (f : nat) (ip : bool) (o : output) : Prop :=
  if ip then o = OutInPlace (input_path i) else wf_out f o.

Lemma make_args_spec t f toks args i o evs0 :
  make_args t f toks = (args, i, o, evs0) ->
  wf_in t f toks i /\ wf_out' i f (t_in_place t) o /\ Forall ev_tmp_rm evs0 /\
  (forall p, In (SPath p) args ->
     (p = POrig f /\ t_copy t = false /\ existsb is_in toks = true) \/ class p = Tmp) /\
  (existsb is_in toks = true -> t_copy t = false -> In (SPath (POrig f)) args).
Proof.
  unfold make_args, wf_out'. destruct (subst_inv t f toks) as [Hin Hout Hev Hsubs Horig].
  destruct (t_in_place t); intros H; injection H as <- <- <- <-; repeat split; auto.
  apply Forall_app. split; [assumption|]. eapply drop_output_tmp; eassumption.
Qed.

(* ---- events of a per-file run ------------------------------------------------------------------ *)
Lemma run_steps_in fails steps e :
  In e (fst (run_steps fails steps)) -> exists st evs, In (st, evs) steps /\ In e evs.
Proof.
  induction steps as [|[st evs] rest IH]; cbn [run_steps]; [intros []|].
  destruct (match st with Some s => fails s | None => false end).
  - cbn. intros H. exists st, evs. split; [left; reflexivity|assumption].
  - destruct (run_steps fails rest) as [e' ok] eqn:E. cbn [fst] in *.
    intros H. apply in_app_iff in H. destruct H as [H|H].
    + exists st, evs. split; [left; reflexivity|assumption].
    + destruct (IH H) as [st' [evs' [H1 H2]]]. exists st', evs'. split; [right; assumption|assumption].
Qed.

(* an event of the transform machinery for file f is "safe" *)
Definition ev_safe (t : transform) (f : nat) (toks : list tok) (e : event) : Prop :=
  match e with
  | Call c => mutating c = true -> class (target c) = Tmp
  | Spawn args sin =>
      (forall p, In (SPath p) args ->
         (p = POrig f /\ t_copy t = false /\ existsb is_in toks = true) \/ class p = Tmp) /\
      (existsb is_in toks = true -> t_copy t = false -> In (SPath (POrig f)) args) /\
      (sin = StdinNull \/ (sin = StdinFile (POrig f) /\ existsb is_in toks = false))
  end.

Lemma ev_tmp_rm_safe t f toks e : ev_tmp_rm e -> ev_safe t f toks e.
Proof. intros [p [-> Hc]]. cbn. auto. Qed.

Lemma steps_safe t f toks args i o st evs e :
  wf_in t f toks i -> wf_out' i f (t_in_place t) o ->
  (forall p, In (SPath p) args ->
     (p = POrig f /\ t_copy t = false /\ existsb is_in toks = true) \/ class p = Tmp) ->
  (existsb is_in toks = true -> t_copy t = false -> In (SPath (POrig f)) args) ->
  In (st, evs) (steps_of args i o) -> In e evs -> ev_safe t f toks e.
Proof.
  intros Hi Ho Ha1 Ha2 Hs He. unfold steps_of in Hs.
  assert (Hsp : ev_safe t f toks (Spawn args (stdin_of i))).
  { cbn. split; [assumption|split; [assumption|]].
    destruct Hi as [[-> Hn]|[[-> _]|[k [-> _]]]]; cbn; auto. }
  assert (Hoc : o = OutStdOut \/ o = OutNamed (PTmpOut f) \/ o = OutInPlace (input_path i)).
  { unfold wf_out', wf_out in Ho. destruct (t_in_place t); intuition. }
  repeat (apply in_app_iff in Hs; destruct Hs as [Hs|Hs]).
  - destruct Hi as [[-> _]|[[-> _]|[k [-> _]]]]; cbn in Hs; try contradiction;
      destruct Hs as [Hs|[]]; injection Hs as <- <-; destruct He as [<-|[]]; cbn; auto; discriminate.
  - destruct Hoc as [->|[->| ->]]; cbn in Hs; try contradiction.
    destruct Hs as [Hs|[]]. injection Hs as <- <-. destruct He as [<-|[]]. cbn. auto.
  - cbn in Hs. destruct Hs as [Hs|[]]. injection Hs as <- <-. destruct He as [<-|[]]. exact Hsp.
  - destruct Hoc as [->|[->| ->]]; cbn in Hs; try contradiction.
    + destruct Hs as [Hs|[Hs|[]]]; injection Hs as <- <-; destruct He as [<-|[]]; cbn; auto; discriminate.
    + destruct Hs as [Hs|[Hs|[]]]; injection Hs as <- <-; [destruct He|destruct He as [<-|[]]]; cbn; discriminate.
Qed.

Lemma run_file_safe t f toks fails e :
  In e (run_file t f toks fails) -> ev_safe t f toks e.
Proof.
  unfold run_file, run_file_ok.
  destruct (make_args t f toks) as [[[args i] o] evs0] eqn:E.
  destruct (make_args_spec _ _ _ _ _ _ _ E) as [Hi [Ho [Hev [Ha1 Ha2]]]].
  destruct (run_steps fails (steps_of args i o)) as [evs ok] eqn:Er. cbn [fst].
  assert (Hdi := drop_input_tmp _ _ _ _ Hi).
  assert (Hdo : Forall ev_tmp_rm (drop_output o)).
  { unfold wf_out' in Ho. destruct (t_in_place t); [rewrite Ho; constructor|eapply drop_output_tmp; eassumption]. }
  intros H. apply in_app_iff in H. destruct H as [H|H].
  { apply ev_tmp_rm_safe. eapply Forall_forall in Hev; eassumption. }
  apply in_app_iff in H. destruct H as [H|H].
  { assert (H' : In e (fst (run_steps fails (steps_of args i o)))) by (rewrite Er; exact H).
    destruct (run_steps_in _ _ _ H') as [st [evs' [H1 H2]]].
    eapply steps_safe; eassumption. }
  apply ev_tmp_rm_safe.
  destruct ok; apply in_app_iff in H; destruct H as [H|H];
    first [eapply Forall_forall in Hdi; eassumption | eapply Forall_forall in Hdo; eassumption].
Qed.

Lemma per_file_in h f files e :
  In e (per_file h f files) -> exists f' env, In env files /\ In e (h f' env).
Proof.
  revert f. induction files as [|env rest IH]; intros f; cbn [per_file]; [intros []|].
  intros H. apply in_app_iff in H. destruct H as [H|H].
  - exists f, env. split; [left; reflexivity|assumption].
  - destruct (IH _ H) as [f' [env' [H1 H2]]]. exists f', env'. split; [right; assumption|assumption].
Qed.

Lemma hash_transformed_in t cache f toks env e :
  In e (hash_transformed t cache f toks env) ->
  In e (run_file t f toks (fe_fails env)) \/ (cache = true /\ e = Call (CDbWrite PCache)).
Proof.
  unfold hash_transformed, run_file.
  destruct (cache && fe_hit env)%bool; [intros []|].
  destruct (run_file_ok t f toks (fe_fails env)) as [evs ok]. cbn [fst].
  intros H. apply in_app_iff in H. destruct H as [H|H]; [left; assumption|].
  destruct cache; cbn in H; [|contradiction]. destruct ok; cbn in H; [|contradiction].
  destruct H as [<-|[]]. right. auto.
Qed.

(* ---- C07_transform_paths ------------------------------------------------------------------------ *)
(* everything the transform machinery does for a run over any list of files *)
Definition transform_events (fails : stage -> bool) (toks : list tok) (in_place no_copy : bool)
  (files : list file_env) : list event :=
  group_run fails (mkG (Some toks) in_place no_copy false false) files.

Lemma group_run_classes fails g files c :
  In (Call c) (group_run fails g files) -> mutating c = true ->
  class (target c) = Tmp \/
  (g_cache g = true /\ class (target c) = CacheDir) \/
  (g_output g = true /\ class (target c) = OutFile).
Proof.
  unfold group_run. intros H Hm.
  assert (Hco : forall c, In (Call c) (cache_open g) -> g_cache g = true /\ class (target c) = CacheDir).
  { unfold cache_open. destruct (g_cache g); cbn; [|intros ? []].
    intros c' [H'|[H'|[]]]; injection H' as <-; auto. }
  assert (Hwr : forall c, In (Call c) (write_report g) -> g_output g = true /\ class (target c) = OutFile).
  { unfold write_report. destruct (g_output g); cbn; [|intros ? []].
    intros c' [H'|[]]; injection H' as <-; auto. }
  apply in_app_iff in H. destruct H as [H|H]; [right; right; apply Hwr; exact H|].
  destruct (g_transform g) as [toks|].
  - destruct (build_transform fails toks (g_in_place g) (g_no_copy g)) as [evs [t|er]] eqn:Eb.
    + destruct (build_transform_ok _ _ _ _ _ _ Eb) as [_ [_ [-> _]]].
      apply in_app_iff in H. destruct H as [H|H].
      { destruct H as [H|[H|[]]]; [discriminate|]. injection H as <-. left. reflexivity. }
      apply in_app_iff in H. destruct H as [H|H]; [right; left; auto|].
      apply in_app_iff in H. destruct H as [H|H].
      { destruct (per_file_in _ _ _ _ H) as [f' [env [_ H2]]].
        destruct (hash_transformed_in _ _ _ _ _ _ H2) as [H3|[Hc H3]].
        - left. apply (run_file_safe _ _ _ _ _ H3). assumption.
        - injection H3 as ->. right; left. auto. }
      apply in_app_iff in H. destruct H as [H|H]; [|right; right; auto].
      destruct H as [H|[]]. injection H as <-. left. reflexivity.
    + destruct (build_transform_err_events _ _ _ _ _ _ Eb) as [->|[->|[-> _]]].
      * destruct H.
      * destruct H as [H|[]]. discriminate.
      * destruct H as [H|[H|[]]]; [discriminate|]. injection H as <-. left. reflexivity.
  - apply in_app_iff in H. destruct H as [H|H]; [right; left; auto|].
    apply in_app_iff in H. destruct H as [H|H]; [|right; right; auto].
    destruct (per_file_in _ _ _ _ H) as [f' [env [_ H2]]]. unfold hash_plain in H2.
    destruct (g_cache g && fe_hit env)%bool; [destruct H2|].
    destruct H2 as [H2|H2]; [injection H2 as <-; discriminate|].
    destruct (g_cache g); cbn in H2; [|contradiction].
    destruct H2 as [H2|[]]. injection H2 as <-. right; left. auto.
Qed.

Lemma transform_paths fails toks in_place no_copy files c :
  In (Call c) (transform_events fails toks in_place no_copy files) ->
  mutating c = true -> class (target c) = Tmp.
Proof.
  intros H Hm. destruct (group_run_classes _ _ _ _ H Hm) as [H1|[[H1 _]|[H1 _]]]; [assumption| |]; discriminate.
Qed.

Lemma group_never_orig fails g files c :
  In (Call c) (group_run fails g files) -> mutating c = true -> class (target c) <> Orig.
Proof.
  intros H Hm. destruct (group_run_classes _ _ _ _ H Hm) as [H1|[[_ H1]|[_ H1]]]; rewrite H1; discriminate.
Qed.

(* ---- the 16-combination sweep -------------------------------------------------------------- *)
Lemma sweep_ok_true : sweep_ok = true.
Proof. vm_compute. reflexivity. Qed.

Lemma in_all_cfgs a b c d : In (a, b, c, d) all_cfgs.
Proof. destruct a, b, c, d; vm_compute; tauto. Qed.

Lemma in_fail_points s : In s (None :: map Some stages).
Proof. destruct s as [[]|]; vm_compute; tauto. Qed.

Lemma all_mutating_tmp_spec evs :
  all_mutating_tmp evs = true -> forall c, In (Call c) evs -> mutating c = true -> class (target c) = Tmp.
Proof.
  unfold all_mutating_tmp, mutating_calls, calls_of. intros H c Hc Hm.
  rewrite forallb_forall in H. apply pclass_eqb_eq. apply H.
  apply filter_In. split; [|assumption].
  apply in_flat_map. exists (Call c). split; [assumption|left; reflexivity].
Qed.

Lemma sixteen_modes has_in has_out in_place no_copy (fs : option stage) :
  let toks := cmd_of has_in has_out in
  let fails := fail_at fs in
  let evs := group_run fails (mkG (Some toks) in_place no_copy false false) [mkFE false fails] in
  (forall c, In (Call c) evs -> mutating c = true -> class (target c) = Tmp) /\
  (handed_orig evs = true -> has_in = true /\ no_copy = true) /\
  (fs = None -> handed_orig evs = (has_in && no_copy)%bool).
Proof.
  intros toks fails evs.
  pose proof sweep_ok_true as H. unfold sweep_ok in H. rewrite forallb_forall in H.
  specialize (H _ (in_all_cfgs has_in has_out in_place no_copy)). cbn beta iota in H.
  rewrite forallb_forall in H. specialize (H _ (in_fail_points fs)).
  fold toks fails evs in H.
  apply andb_true_iff in H. destruct H as [H H4].
  apply andb_true_iff in H. destruct H as [H H3].
  apply andb_true_iff in H. destruct H as [H1 H2].
  split; [apply all_mutating_tmp_spec; assumption|]. split.
  - intros Hh. rewrite Hh in H2. cbn in H2. apply andb_true_iff in H2. assumption.
  - intros ->. apply eqb_prop in H3. assumption.
Qed.

(* ---- C07_no_copy_exception -------------------------------------------------------------------- *)
Lemma no_copy_exception fails0 toks in_place no_copy evs0 t :
  build_transform fails0 toks in_place no_copy = (evs0, Ok t) ->
  forall f fails args sin, In (Spawn args sin) (run_file t f toks fails) ->
  (In (SPath (POrig f)) args <-> existsb is_in toks = true /\ no_copy = true) /\
  (forall p, In (SPath p) args -> p = POrig f \/ class p = Tmp) /\
  (sin = StdinNull \/ (sin = StdinFile (POrig f) /\ existsb is_in toks = false)).
Proof.
  intros Hb f fails args sin H.
  destruct (build_transform_ok _ _ _ _ _ _ Hb) as [Hc _].
  pose proof (run_file_safe _ _ _ _ _ H) as [H1 [H2 H3]].
  split; [|split; [|assumption]].
  - split.
    + intros Hin. destruct (H1 _ Hin) as [[_ [Hcf Hi]]|Hcl]; [|discriminate].
      split; [assumption|]. rewrite Hc, Hi in Hcf. destruct no_copy; [reflexivity|discriminate].
    + intros [Hi ->]. apply H2; [assumption|]. rewrite Hc, Hi. reflexivity.
  - intros p Hp. destruct (H1 _ Hp) as [[-> _]|Hcl]; auto.
Qed.

(* with copy = true (no --no-copy) no scanned path is ever an argument *)
Lemma copy_never_hands_orig fails0 toks in_place evs0 t :
  build_transform fails0 toks in_place false = (evs0, Ok t) ->
  forall f fails args sin p, In (Spawn args sin) (run_file t f toks fails) ->
  In (SPath p) args -> class p = Tmp.
Proof.
  intros Hb f fails args sin p H Hp.
  destruct (no_copy_exception _ _ _ _ _ _ Hb _ _ _ _ H) as [[Ho _] [Hcl _]].
  destruct (Hcl _ Hp) as [->|Hc]; [|assumption].
  destruct (Ho Hp) as [_ Hx]. discriminate.
Qed.

(* ---- C07_dry_run_pure --------------------------------------------------------------------------- *)
Lemma dry_run_pure script output :
  printed (run_dedupe true output script) = log_script script /\
  (forall c, In (Call c) (d_events (run_dedupe true output script)) -> output = true /\ c = CCreate POutFile) /\
  (forall args sin, ~ In (Spawn args sin) (d_events (run_dedupe true output script))).
Proof.
  cbn. split; [reflexivity|]. destruct output; cbn; split.
  - intros c [H|[]]. injection H as <-. auto.
  - intros args sin [H|[]]. discriminate.
  - intros c [].
  - intros args sin [].
Qed.

(* the statement is not vacuous: without --dry-run the same script does touch scanned files *)
Lemma real_run_touches g cmds rest output :
  cmds <> [] -> exists c, In (Call c) (d_events (run_dedupe false output ((g, cmds) :: rest))) /\
                          mutating c = true /\ class (target c) = Orig.
Proof.
  intros Hne. destruct cmds as [|c0 cs]; [contradiction|]. cbn.
  destruct c0; cbn; eexists; (split; [left; reflexivity|split; reflexivity]).
Qed.

(* ---- C07_tmp_cleaned ---------------------------------------------------------------------------- *)
Lemma exec_events_app prog a b st :
  exec_events prog (a ++ b) st = exec_events prog b (exec_events prog a st).
Proof. unfold exec_events. apply fold_left_app. Qed.

Lemma exec_tmp_rm_nil prog evs : Forall ev_tmp_rm evs -> exec_events prog evs [] = [].
Proof.
  induction 1 as [|e evs [p [-> _]] _ IH]; [reflexivity|]. cbn. exact IH.
Qed.

Lemma remove_path_head p st : remove_path p (p :: st) = remove_path p st.
Proof. unfold remove_path. cbn. rewrite path_eqb_refl. reflexivity. Qed.

(* per file: whatever fails, every temp file fclones itself created for the file has been removed
   again when the Execution is dropped *)
Lemma run_file_balanced t f toks fails : exec_events false (run_file t f toks fails) [] = [].
Proof.
  unfold run_file, run_file_ok.
  destruct (make_args t f toks) as [[[args i] o] evs0] eqn:E.
  destruct (make_args_spec _ _ _ _ _ _ _ E) as [Hi [Ho [Hev _]]].
  destruct (run_steps fails (steps_of args i o)) as [evs ok] eqn:Er. cbn [fst].
  rewrite exec_events_app, (exec_tmp_rm_nil _ _ Hev).
  assert (Hoc : o = OutStdOut \/ o = OutNamed (PTmpOut f) \/ o = OutInPlace (input_path i)).
  { unfold wf_out', wf_out in Ho. destruct (t_in_place t); intuition. }
  revert Er. unfold steps_of.
  destruct Hi as [[-> _]|[[-> _]|[k [-> _]]]]; destruct Hoc as [->|[->| ->]];
    cbn [app run_steps stdin_of input_path];
    repeat match goal with
           | |- context [fails ?s] => destruct (fails s)
           end;
    cbn [app]; intros Er; injection Er as <- <-;
    cbn; rewrite ?Nat.eqb_refl; cbn; rewrite ?Nat.eqb_refl; reflexivity.
Qed.

(* events that never change the set of temp paths *)
Definition inert (prog : bool) (e : event) : Prop := forall st, exec_event prog st e = st.

Lemma exec_inert prog evs st : Forall (inert prog) evs -> exec_events prog evs st = st.
Proof.
  intros H. revert st. induction H as [|e evs He _ IH]; intros st; [reflexivity|].
  cbn. rewrite He. apply IH.
Qed.

Lemma per_file_plain_inert prog cache f files : Forall (inert prog) (per_file (hash_plain cache) f files).
Proof.
  revert f. induction files as [|env rest IH]; intros f; cbn [per_file]; [constructor|].
  apply Forall_app. split; [|apply IH].
  unfold hash_plain. destruct (cache && fe_hit env)%bool; [constructor|].
  constructor; [intros st; reflexivity|].
  destruct cache; constructor; [intros st; reflexivity|constructor].
Qed.

Lemma cache_open_inert prog g : Forall (inert prog) (cache_open g).
Proof.
  unfold cache_open. destruct (g_cache g); repeat constructor.
Qed.

Lemma write_report_inert prog g : Forall (inert prog) (write_report g).
Proof.
  unfold write_report. destruct (g_output g); repeat constructor.
Qed.

Lemma exec_remove_dir_all prog a w st :
  exec_events prog (a ++ Call (CRemoveDirAll PTmpDir) :: w) st = exec_events prog w [].
Proof. rewrite exec_events_app. reflexivity. Qed.

(* whole run: after `group` (any mode, any failures except a half-failed create_dir_all of the temp
   dir itself) nothing is left under the temp dir, the dir included — even if the external program
   created a file at every temp path it was handed *)
Lemma group_run_cleaned fails g files :
  fails SMkTmp = false -> exec_events true (group_run fails g files) [] = [].
Proof.
  intros Hmk. unfold group_run, check_output.
  rewrite exec_events_app, (exec_inert _ _ _ (write_report_inert _ g)).
  destruct (g_transform g) as [toks|].
  - destruct (build_transform fails toks (g_in_place g) (g_no_copy g)) as [evs [t|er]] eqn:Eb.
    + rewrite !app_assoc. rewrite <- app_assoc. cbn [app].
      rewrite exec_remove_dir_all. apply exec_inert. apply write_report_inert.
    + destruct (build_transform_err_events _ _ _ _ _ _ Eb) as [->|[->|[_ Hx]]]; try reflexivity.
      rewrite Hmk in Hx. discriminate.
  - apply exec_inert. apply Forall_app. split; [apply cache_open_inert|].
    apply Forall_app. split; [apply per_file_plain_inert|apply write_report_inert].
Qed.

(* the temp dir does get created (so the statement above is about something) *)
Lemma group_run_creates_tmp fails g toks evs t files :
  g_transform g = Some toks ->
  build_transform fails toks (g_in_place g) (g_no_copy g) = (evs, Ok t) ->
  In (Call (CMkdirAll PTmpDir)) (group_run fails g files) /\
  In (Call (CRemoveDirAll PTmpDir)) (group_run fails g files).
Proof.
  intros Hg Hb. unfold group_run. rewrite Hg, Hb.
  destruct (build_transform_ok _ _ _ _ _ _ Hb) as [_ [_ [-> _]]].
  split; apply in_app_iff; right.
  - apply in_app_iff. left. right. left. reflexivity.
  - apply in_app_iff. right. apply in_app_iff. right. apply in_app_iff. right.
    apply in_app_iff. left. left. reflexivity.
Qed.

(* ---- the table ------------------------------------------------------------------------------- *)
Lemma mode_table_eq : mode_table =
  [ ROk false (InStdIn (POrig 0)) OutStdOut [];
    ROk false (InStdIn (POrig 0)) OutStdOut [];
    RErr EInRequired;
    RErr EInRequired;
    ROk false (InStdIn (POrig 0)) (OutNamed (PTmpOut 0))
        [CMkfifo (PTmpOut 0); COpenW (PTmpOut 0); CRemoveFile (PTmpOut 0)];
    ROk false (InStdIn (POrig 0)) (OutNamed (PTmpOut 0))
        [CMkfifo (PTmpOut 0); COpenW (PTmpOut 0); CRemoveFile (PTmpOut 0)];
    RErr EInRequired;
    RErr EInRequired;
    ROk true (InCopied (POrig 0) (PTmpIn 0 0)) OutStdOut
        [CCopy (POrig 0) (PTmpIn 0 0); CRemoveFile (PTmpIn 0 0)];
    ROk false (InNamed (POrig 0)) OutStdOut [];
    ROk true (InCopied (POrig 0) (PTmpIn 0 0)) (OutInPlace (PTmpIn 0 0))
        [CCopy (POrig 0) (PTmpIn 0 0); CRemoveFile (PTmpIn 0 0)];
    ROk false (InNamed (POrig 0)) (OutInPlace (POrig 0)) [];
    ROk true (InCopied (POrig 0) (PTmpIn 0 0)) (OutNamed (PTmpOut 0))
        [CCopy (POrig 0) (PTmpIn 0 0); CMkfifo (PTmpOut 0); COpenW (PTmpOut 0);
         CRemoveFile (PTmpIn 0 0); CRemoveFile (PTmpOut 0)];
    ROk false (InNamed (POrig 0)) (OutNamed (PTmpOut 0))
        [CMkfifo (PTmpOut 0); COpenW (PTmpOut 0); CRemoveFile (PTmpOut 0)];
    ROk true (InCopied (POrig 0) (PTmpIn 0 0)) (OutInPlace (PTmpIn 0 0))
        [CRemoveFile (PTmpOut 0); CCopy (POrig 0) (PTmpIn 0 0); CRemoveFile (PTmpIn 0 0)];
    ROk false (InNamed (POrig 0)) (OutInPlace (POrig 0)) [CRemoveFile (PTmpOut 0)] ].
Proof. vm_compute. reflexivity. Qed.

(* ---- a failing create_dir_all of the temp dir aborts the run --------------------------------- *)
Lemma tmp_dir_failure_aborts fails g toks files :
  g_transform g = Some toks -> fails SMkTmp = true ->
  (exists e, snd (build_transform fails toks (g_in_place g) (g_no_copy g)) = Err e) /\
  (forall c, In (Call c) (group_run fails g files) ->
     c = CMkdirAll PTmpDir \/ (g_output g = true /\ c = CCreate POutFile)) /\
  (forall args sin, In (Spawn args sin) (group_run fails g files) -> args = [] /\ sin = StdinNull).
Proof.
  intros Hg Hmk. unfold group_run, check_output. rewrite Hg.
  assert (Hwr : forall c, In (Call c) (write_report g) -> g_output g = true /\ c = CCreate POutFile).
  { unfold write_report. destruct (g_output g); cbn; [|intros ? []].
    intros c' [H'|[]]; injection H' as <-; auto. }
  assert (Hws : forall a s, ~ In (Spawn a s) (write_report g)).
  { unfold write_report. destruct (g_output g); cbn; intros a s H; [destruct H as [H|[]]; discriminate|exact H]. }
  destruct (build_transform fails toks (g_in_place g) (g_no_copy g)) as [evs [t|er]] eqn:Eb.
  - exfalso. revert Eb. unfold build_transform, transform_new, windows. cbn [andb]. rewrite andb_false_r.
    destruct (g_in_place g && negb (existsb is_in toks))%bool; [discriminate|].
    destruct (is_nil toks); [discriminate|]. destruct (fails SProbe); [discriminate|].
    rewrite Hmk. discriminate.
  - split; [eexists; reflexivity|].
    destruct (build_transform_err_events _ _ _ _ _ _ Eb) as [->|[->|[-> _]]]; split.
    + intros c H. apply in_app_iff in H. destruct H as [H|[]]. right. auto.
    + intros a s H. apply in_app_iff in H. destruct H as [H|[]]. destruct (Hws _ _ H).
    + intros c H. apply in_app_iff in H. destruct H as [H|[H|[]]]; [right; auto|discriminate].
    + intros a s H. apply in_app_iff in H. destruct H as [H|[H|[]]]; [destruct (Hws _ _ H)|].
      injection H as <- <-. auto.
    + intros c H. apply in_app_iff in H. destruct H as [H|[H|[H|[]]]]; [right; auto|discriminate|].
      injection H as <-. left. reflexivity.
    + intros a s H. apply in_app_iff in H. destruct H as [H|[H|[H|[]]]]; [destruct (Hws _ _ H)| |discriminate].
      injection H as <- <-. auto.
Qed.
