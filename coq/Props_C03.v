(* Props_C03.v — property C03: the reported groups partition the qualifying files: no path twice, no
   path that was not scanned, equal files are together, no class is split, a class that satisfies the
   replication filter is not dropped at any stage.  Statements only.
   Quantification: every hash function H (collision-free on the final keys of the contents present), every
   configuration c (all replication modes, roots, --match-links, prefix / suffix sizes, device kinds; the
   plain path in C03_partition, the --transform path in C03_partition_transform), every processing /
   arrival order n WITHOUT read faults (the property speaks about readable files; faults are C15), every
   scanned table with wf_ids, wf_len, wf_paths (a path scanned twice is the same entry: repeated /
   overlapping roots). *)
From FV Require Import Base ListLib GroupModel GroupProofs GroupProofs2 GroupProofs3 GroupProofs4 GroupProofs5 GroupWitness.
Open Scope N_scope.

Theorem C03_partition :
  forall (H : list N -> hash) (T : list N -> option (list N)) (c : gcfg) (n : nd) (scanned : list file),
    wf_nd n -> (forall st f, fails n st f = false) ->
    wf_ids scanned -> wf_len scanned -> wf_paths scanned ->
    collision_free H c scanned -> transform c = false -> skip_content c = false ->
    let out := group_files H T c n scanned in
    (* (i) every reported file was scanned (and passed the size limits), and occurs once in the whole report *)
    (NoDup (all_files out) /\ forall f, In f (all_files out) -> ok c scanned f) /\
    (* (ii) a scanned file with the bytes of a reported file is in the same group *)
    (forall g f f', In g out -> In f (gfiles g) -> ok c scanned f' -> fdata f' = fdata f -> In f' (gfiles g)) /\
    (* (iii) no class is split over two groups *)
    (forall g g' f f', In g out -> In g' out -> In f (gfiles g) -> In f' (gfiles g') -> fdata f = fdata f' -> g = g') /\
    (* (iv) a file whose class satisfies the final filter is reported: nothing qualifying is dropped at any stage *)
    (forall f, ok c scanned f -> qualifies c scanned f -> exists g, In g out /\ In f (gfiles g)).
Proof. exact c03_partition. Qed.
Print Assumptions C03_partition.

(* --transform: classes are the classes of the transform output; a reported entry is the scanned file with its
   length replaced by the output length (tfile); files whose transform fails are in no group.  The clauses are
   (i)-(iv) above plus "reported iff the class qualifies" and "a group lists exactly the class". *)
Theorem C03_partition_transform :
  forall (H : list N -> hash) (T : list N -> option (list N)) (c : gcfg) (n : nd) (scanned : list file),
    wf_nd n -> (forall st f, fails n st f = false) ->
    wf_ids scanned -> wf_paths scanned -> collision_free_T H T scanned -> transform c = true ->
    let out := group_files H T c n scanned in
    (NoDup (all_files out) /\
     forall g f, In g out -> In f (gfiles g) ->
       exists f0, ok' c scanned f0 /\ hasT T f0 = true /\ f = set_len f0 (glen g) /\ glen g = tlen T f0) /\
    (forall g f0 f0', In g out -> In (tfile T f0) (gfiles g) -> ok' c scanned f0 -> ok' c scanned f0' ->
                      T (fdata f0') = T (fdata f0) -> In (tfile T f0') (gfiles g)) /\
    (forall g g' f0 f0', In g out -> In g' out -> ok' c scanned f0 -> ok' c scanned f0' ->
                         In (tfile T f0) (gfiles g) -> In (tfile T f0') (gfiles g') ->
                         T (fdata f0) = T (fdata f0') -> g = g') /\
    (forall f0, ok' c scanned f0 -> hasT T f0 = true ->
       ((exists g, In g out /\ In (tfile T f0) (gfiles g)) <-> qualifiesT T c scanned f0)) /\
    (forall g f0 cl, In g out -> ok' c scanned f0 -> In (tfile T f0) (gfiles g) -> is_classT T c scanned f0 cl ->
       Permutation.Permutation (gfiles g) (map (tfile T) cl)).
Proof. exact c03_transform. Qed.
Print Assumptions C03_partition_transform.

(* filter monotonicity, the reason why intermediate pruning is safe: the replica count is monotone in the
   member set, so a superset of a qualifying class passes the permissive filter *)
Theorem C03_filter_monotone :
  forall (c : gcfg) (fs fs' : list file), NoDup fs -> incl fs fs' -> subgroup_count c fs <= subgroup_count c fs'.
Proof. exact subgroup_count_mono. Qed.
Print Assumptions C03_filter_monotone.

(* repeated / overlapping roots: path de-duplication removes exactly the repeated entries *)
Theorem C03_deduplicate :
  forall fs, NoDup (deduplicate fs) /\ (forall f, In f (deduplicate fs) -> In f fs) /\
             (wf_paths fs -> forall f, In f fs -> In f (deduplicate fs)).
Proof.
  intros fs. split; [apply deduplicate_NoDup|]. split; [intros f; apply deduplicate_incl|].
  intros Hw f. apply deduplicate_keeps. exact Hw.
Qed.
Print Assumptions C03_deduplicate.

(* Non-vacuity: the table of Props_C01 (two equal files + a hard-linked pair that differs in the last
   byte) satisfies every hypothesis; the pair of copies qualifies and is reported.  And the former K10 / K11
   counterexamples, now regression instances: --rf-under 3 on the K11 table reports both pairs (each has 2
   replicas), --transform --unique on two copies and a third file reports only the third. *)
Example C03_hypotheses_inhabited :
  wf_nd (nd_of_mode 0) /\ (forall st f, fails (nd_of_mode 0) st f = false) /\ wf_ids ex_files /\ wf_len ex_files /\
  wf_paths ex_files /\ collision_free toyH ex_cfg ex_files /\
  qualifies ex_cfg ex_files (mkf 97 1 6 [1;2;3;4;5;6]).
Proof.
  assert (Hp : paths_distinct_b ex_files = true) by (vm_compute; reflexivity).
  destruct (paths_distinct_b_sound _ Hp) as [Hnd Hwp].
  split; [exact wf_nd_mode0|]. split; [reflexivity|]. split; [exact (wf_ids_b_sound _ ex_ids)|].
  split; [exact (wf_len_b_sound _ ex_len)|]. split; [exact Hwp|]. split; [exact (cf_b_sound _ _ _ ex_cf)|].
  exists (class_list ex_cfg ex_files (mkf 97 1 6 [1;2;3;4;5;6])). split; [exact (class_list_is_class _ _ _ Hnd)|].
  vm_compute. reflexivity.
Qed.
Example C03_K10_regression :
  shows (group_files toyH idT k10_cfg (nd_of_mode 0) k10_files) = [(3, [[[47]; [99]]])].
Proof. exact k10_regression. Qed.
