(* Props_C03.v — property C03: the reported groups partition the qualifying files: no path twice, no
   path that was not scanned, equal files are together, no class is split, a class that satisfies the
   replication filter is not dropped at any stage.  Statements only.
   Quantification: every hash function H (collision-free on the final keys of the contents present), every
   configuration c without --transform (all replication modes, roots, --match-links, prefix / suffix
   sizes, device kinds), every processing / arrival order n WITHOUT read faults (the property speaks
   about readable files), every scanned table with wf_ids, wf_len, wf_paths (a path scanned twice is
   the same entry: repeated / overlapping roots).
   `_partial`: the --transform path (group_transformed) is not covered by a completeness theorem; there
   C01_transform (soundness) is proved and completeness is only observed by the correspondence check
   and the partition oracle.  Known findings: K11 (see Props_C01.v), K10 (see Props_C06.v). *)
From FV Require Import Base ListLib GroupModel GroupProofs GroupProofs2 GroupProofs3 GroupProofs4 GroupWitness.
Open Scope N_scope.

Theorem C03_partition_partial_except_K11 :
  forall (H : list N -> hash) (T : list N -> option (list N)) (c : gcfg) (n : nd) (scanned : list file),
    wf_nd n -> (forall st f, fails n st f = false) ->
    wf_ids scanned -> wf_len scanned -> wf_paths scanned ->
    collision_free H c scanned -> ~ K11 c scanned -> transform c = false -> skip_content c = false ->
    let out := group_files H T c n scanned in
    (* (i) every reported file was scanned (and passed the size limits), and occurs once in the whole report *)
    (NoDup (all_files out) /\ forall f, In f (all_files out) -> ok c scanned f) /\
    (* (ii) a scanned file with the bytes of a reported file is in the same group *)
    (forall g f f', In g out -> In f (gfiles g) -> ok c scanned f' -> fdata f' = fdata f -> In f' (gfiles g)) /\
    (* (iii) no class is split over two groups *)
    (forall g g' f f', In g out -> In g' out -> In f (gfiles g) -> In f' (gfiles g') -> fdata f = fdata f' -> g = g') /\
    (* (iv) a file whose class satisfies the final filter is reported: nothing qualifying is dropped at any stage *)
    (forall f, ok c scanned f -> qualifies c scanned f -> exists g, In g out /\ In f (gfiles g)).
Proof. exact c03_partition. Qed.
Print Assumptions C03_partition_partial_except_K11.

Theorem C03_K11_witness :
  exists (H : list N -> hash) (T : list N -> option (list N)) (c : gcfg) (n : nd) (scanned : list file),
    wf_nd n /\ (forall st f, fails n st f = false) /\ wf_ids scanned /\ wf_len scanned /\ wf_paths scanned /\
    collision_free H c scanned /\ skip_content c = false /\ transform c = false /\ K11 c scanned /\
    exists f, ok c scanned f /\ qualifies c scanned f /\ ~ exists g, In g (group_files H T c n scanned) /\ In f (gfiles g).
Proof. exact k11_witness_c03. Qed.
Print Assumptions C03_K11_witness.

(* filter monotonicity, the reason why intermediate pruning is safe: the replica count is monotone in the
   member set, so a superset of a qualifying class passes the permissive filter *)
Theorem C03_filter_monotone :
  forall (c : gcfg) (fs fs' : list file), NoDup fs -> incl fs fs' -> subgroup_count c fs <= subgroup_count c fs'.
Proof. exact subgroup_count_mono. Qed.
Print Assumptions C03_filter_monotone.

(* repeated / overlapping roots: path de-duplication removes exactly the repeated entries *)
Theorem C03_deduplicate :
  forall fs, NoDup (deduplicate fs) /\ (forall f, In f (deduplicate fs) -> In f fs) /\
             (wf_paths fs -> forall f, In f fs -> In f (deduplicate fs)).
Proof.
  intros fs. split; [apply deduplicate_NoDup|]. split; [intros f; apply deduplicate_incl|].
  intros Hw f. apply deduplicate_keeps. exact Hw.
Qed.
Print Assumptions C03_deduplicate.

(* Non-vacuity: the table of Props_C01 (two equal files + a hard-linked pair that differs in the last
   byte) satisfies every hypothesis; the pair of copies qualifies and is reported. *)
Example C03_hypotheses_inhabited :
  wf_nd (nd_of_mode 0) /\ (forall st f, fails (nd_of_mode 0) st f = false) /\ wf_ids ex_files /\ wf_len ex_files /\
  wf_paths ex_files /\ collision_free toyH ex_cfg ex_files /\ ~ K11 ex_cfg ex_files /\
  qualifies ex_cfg ex_files (mkf 97 1 6 [1;2;3;4;5;6]).
Proof.
  assert (Hp : paths_distinct_b ex_files = true) by (vm_compute; reflexivity).
  destruct (paths_distinct_b_sound _ Hp) as [Hnd Hwp].
  split; [exact wf_nd_mode0|]. split; [reflexivity|]. split; [exact (wf_ids_b_sound _ ex_ids)|].
  split; [exact (wf_len_b_sound _ ex_len)|]. split; [exact Hwp|]. split; [exact (cf_b_sound _ _ _ ex_cf)|].
  split; [exact ex_notK11|].
  exists (class_list ex_cfg ex_files (mkf 97 1 6 [1;2;3;4;5;6])). split; [exact (class_list_is_class _ _ _ Hnd)|].
  vm_compute. reflexivity.
Qed.
