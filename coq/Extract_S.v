(* Extract_S.v — extraction of the semaphore model for the correspondence harness. *)
From Coq Require Import Extraction ExtrOcamlBasic.
From FV Require Import Base SemModel.
Extraction Language OCaml.
Extraction "extracted/ex_S.ml" init validate quiescent lost_wakeup over_admitted holders sleepers count N.of_nat Z.of_N.
