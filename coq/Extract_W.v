(* Extract_W.v — extraction of the walk model for the correspondence harness. *)
From Coq Require Import Extraction ExtrOcamlBasic.
From FV Require Import Base WalkModel.
Extraction Language OCaml.
Extraction "extracted/ex_W.ml" walk scan walk_bound sched_lifo sched_fifo sched_rand absolute stat N.of_nat Z.of_N.
