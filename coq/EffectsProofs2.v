(* EffectsProofs2.v — engine X, part 2: one command as a state transformer with a footprint ([step_spec]),
   plans ([plan_ok]) and their closed-form final state in EVERY order of execution ([run_plan],
   [plan_perm]) — the frame / commutation argument engine A left open. *)
From Coq Require Import Permutation.
From FV Require Import Base FsModel AtomicModel AtomicProofs AtomicProofs2 AtomicProofs3 AtomicProofs4 EffectsModel EffectsProofs.
Open Scope N_scope.

(* ---------------------------------------------------------------- one step *)
Definition step_spec (c : fcmd) (st st' : fs) : Prop :=
  (forall p, names st' p = if wrote c p then cmd_post st c p else names st p) /\
  (forall i, i < next st -> inodes st' i = inodes st i) /\
  locks st' = locks st /\ next st <= next st' /\ (wf st -> wf st').

Lemma wf_set_none s p : wf s -> wf (set_name s p None).
Proof.
  intros [H1 H2]. split; [|exact H2]. intros q i. destruct (path_eqb_spec p q) as [->|Hn].
  - rewrite names_set_same. discriminate.
  - rewrite names_set_other by auto. apply H1.
Qed.
Definition node_lt (n : node) (b : N) : Prop := forall i, n = NFile i -> i < b.
Lemma wf_set_some s p n : wf s -> node_lt n (next s) -> wf (set_name s p (Some n)).
Proof.
  intros [H1 H2] Hn. split; [|exact H2]. intros q i. destruct (path_eqb_spec p q) as [->|Hne].
  - rewrite names_set_same. intros E. injection E as ->. apply Hn. reflexivity.
  - rewrite names_set_other by auto. apply H1.
Qed.
Lemma wf_node_lt s p n : wf s -> names s p = Some n -> node_lt n (next s).
Proof. intros [H1 _] E i ->. eapply H1; eauto. Qed.
Lemma node_lt_link t b : node_lt (NLink t) b.
Proof. intros i E. discriminate. Qed.

Lemma victim_lock_ok sl s a : victim_ok sl s a -> lock_ok sl s a.
Proof.
  intros (_ & n & Ea & _ & [->|(i & -> & L)]); [left; reflexivity|].
  right. exists a, i. split; [apply follow_file; exact Ea|exact L].
Qed.

Lemma step_remove sl a st : cmd_ok sl st (FRemove a) ->
  exists st', ev (prog_of sl (FRemove a)) st = (st', IOk) /\ step_spec (FRemove a) st st'.
Proof.
  intros Hv. pose proof (victim_lock_ok _ _ _ Hv) as Hl. destruct Hv as (Hn & n & Ea & Hnd & _).
  pose proof (clean_norm _ Hn) as Ca.
  exists (set_name st a None). split; [eapply ev_remove; eauto|].
  split; [|split; [reflexivity|split; [reflexivity|split; [cbn; lia|apply wf_set_none]]]].
  intros p. unfold wrote. cbn [cmd_writes existsb cmd_post]. rewrite orb_false_r.
  destruct (path_eqb_spec p a) as [->|Hne]; [apply names_set_same|apply names_set_other; congruence].
Qed.

Lemma link_names st a tmp na x p : a <> tmp ->
  names (set_name (set_name (set_name (set_name st a None) tmp (Some na)) a x) tmp None) p =
  if path_eqb p a || (path_eqb p tmp || false) then (if path_eqb p a then x else None) else names st p.
Proof.
  intros Hat. destruct (path_eqb_spec p a) as [->|Hpa]; cbn [orb].
  - now nsimp.
  - destruct (path_eqb_spec p tmp) as [->|Hpt]; cbn [orb]; [now nsimp|].
    rewrite !names_set_other by congruence. reflexivity.
Qed.
Lemma link_wf st a tmp na x : wf st -> node_lt na (next st) -> node_lt x (next st) ->
  wf (set_name (set_name (set_name (set_name st a None) tmp (Some na)) a (Some x)) tmp None).
Proof. intros Hw H1 H2. apply wf_set_none. apply wf_set_some; auto. apply wf_set_some; auto. now apply wf_set_none. Qed.

Lemma step_softlink sl t a tmp st : cmd_ok sl st (FSoftLink t a tmp) ->
  exists st', ev (prog_of sl (FSoftLink t a tmp)) st = (st', IOk) /\ step_spec (FSoftLink t a tmp) st st'.
Proof.
  intros (Hv & (Hnt & Etmp & Hpp & Hdir) & Hn_t & Hta & Httmp).
  pose proof (victim_lock_ok _ _ _ Hv) as Hl. destruct Hv as (Hn & na & Ea & Hnd & _).
  pose proof (clean_norm _ Hn) as Ca. pose proof (clean_norm _ Hnt) as Ctmp. pose proof (clean_norm _ Hn_t) as Ct.
  assert (Hat : a <> tmp) by congruence.
  eexists. split; [eapply ev_softlink; eauto|].
  split; [|split; [reflexivity|split; [reflexivity|split; [cbn; lia|]]]].
  - intros p. unfold wrote. cbn [cmd_writes existsb cmd_post]. apply link_names; auto.
  - intros Hw. apply link_wf; auto using node_lt_link. eapply wf_node_lt; eauto.
Qed.

Lemma step_hardlink sl t a tmp st : cmd_ok sl st (FHardLink t a tmp) ->
  exists st', ev (prog_of sl (FHardLink t a tmp)) st = (st', IOk) /\ step_spec (FHardLink t a tmp) st st'.
Proof.
  intros (Hv & (Hnt & Etmp & Hpp & Hdir) & Hn_t & Hta & Httmp & nt & Et & Hntd).
  pose proof (victim_lock_ok _ _ _ Hv) as Hl. destruct Hv as (Hn & na & Ea & Hnd & _).
  pose proof (clean_norm _ Hn) as Ca. pose proof (clean_norm _ Hnt) as Ctmp. pose proof (clean_norm _ Hn_t) as Ct.
  assert (Hat : a <> tmp) by congruence.
  eexists. split; [eapply ev_hardlink; eauto|].
  split; [|split; [reflexivity|split; [reflexivity|split; [cbn; lia|]]]].
  - intros p. unfold wrote. cbn [cmd_writes existsb cmd_post]. rewrite Et. apply link_names; auto.
  - intros Hw. apply link_wf; auto; eapply wf_node_lt; eauto.
Qed.

Lemma step_reflink sl t a tmp mt pmt now1 now2 st : cmd_ok sl st (FRefLink t a tmp mt pmt now1 now2) ->
  exists st', ev (prog_of sl (FRefLink t a tmp mt pmt now1 now2)) st = (st', IOk) /\
              step_spec (FRefLink t a tmp mt pmt now1 now2) st st'.
Proof.
  intros (Hn & (Hnt & Etmp & Hpp & Hdir) & Hn_t & Hta & Httmp & Hwf & i0 & d0 & it & dt & Ea & Ed & Et & Edt & Hii & Hb & Hmt & Hlk).
  pose proof (clean_norm _ Hn) as Ca. pose proof (clean_norm _ Hnt) as Ctmp. pose proof (clean_norm _ Hn_t) as Ct.
  assert (Hl : lock_ok sl st a).
  { destruct Hlk as [->|L]; [left; reflexivity|right; exists a, i0; split; [apply follow_file; exact Ea|exact L]]. }
  eexists. split; [eapply (ev_reflink st t a tmp mt pmt now1 now2 i0 d0 it dt); eauto|].
  assert (Hi0 : i0 < next st) by (destruct Hwf as [H _]; eapply H; eauto).
  split; [|split; [|split; [reflexivity|split; [cbn; lia|]]]].
  - intros p. rewrite reflink_final_names by auto. unfold wrote. cbn [cmd_writes existsb cmd_post]. rewrite orb_false_r.
    destruct (path_eqb_spec p tmp) as [->|Hne]; [exact Etmp|reflexivity].
  - intros i Hi. rewrite reflink_final_inodes by lia.
    destruct (N.eqb_spec i i0) as [->|Hne]; [|reflexivity].
    rewrite Ed, Hb, Hmt. destruct d0; reflexivity.
  - intros _. destruct Hwf as [H1 H2]. split.
    + intros p i. rewrite reflink_final_names by auto. intros E. specialize (H1 _ _ E). rewrite reflink_final_next. lia.
    + intros i Hi. rewrite reflink_final_next in Hi. rewrite reflink_final_inodes by lia.
      destruct (N.eqb_spec i i0) as [->|Hne]; [lia|]. apply H2. lia.
Qed.

Lemma step_ok sl c st : cmd_ok sl st c -> exists st', ev (prog_of sl c) st = (st', IOk) /\ step_spec c st st'.
Proof.
  destruct c; intros H.
  - now apply step_remove.
  - now apply step_softlink.
  - now apply step_hardlink.
  - now apply step_reflink.
  - destruct H.
Qed.

(* ---------------------------------------------------------------- footprints *)
Lemma wrote_iff c p : wrote c p = true <-> In p (cmd_writes c).
Proof.
  unfold wrote. rewrite existsb_exists. split.
  - intros (q & Hq & E). destruct (path_eqb_spec p q); [subst; auto|discriminate].
  - intros H. exists p. split; auto. apply path_eqb_refl.
Qed.

(* the writes of the commands that are not Move are victims and temps *)
Definition no_move (c : fcmd) : Prop := match c with FMove _ _ _ _ => False | _ => True end.
Lemma cmd_ok_no_move sl s c : cmd_ok sl s c -> no_move c.
Proof. destruct c; cbn; auto. Qed.
Lemma writes_sub c p : no_move c -> In p (cmd_writes c) -> p = victim c \/ cmd_tmp c = Some p.
Proof.
  destruct c; cbn [cmd_writes victim cmd_tmp no_move In]; intros Hm H; try contradiction; intuition (subst; auto).
Qed.
Lemma in_temps c cs p : In c cs -> cmd_tmp c = Some p -> In p (temps cs).
Proof. intros Hc E. unfold temps. apply in_flat_map. exists c. split; auto. rewrite E. left; reflexivity. Qed.
Lemma in_retained c cs p : In c cs -> cmd_retained c = Some p -> In p (retained cs).
Proof. intros Hc E. unfold retained. apply in_flat_map. exists c. split; auto. rewrite E. left; reflexivity. Qed.
Lemma writes_in_foot c cs p : no_move c -> In c cs -> In p (cmd_writes c) -> In p (map victim cs ++ temps cs).
Proof.
  intros Hm Hc Hp. apply in_or_app. destruct (writes_sub c p Hm Hp) as [->|E].
  - left. now apply in_map.
  - right. eapply in_temps; eauto.
Qed.

(* ---------------------------------------------------------------- stability of the preconditions *)
(* what a step of c guarantees for a path outside its footprint *)
Lemma step_names_out c st st' p : step_spec c st st' -> ~ In p (cmd_writes c) -> names st' p = names st p.
Proof.
  intros (Hn & _) Hp. rewrite Hn. destruct (wrote c p) eqn:E; [|reflexivity]. apply wrote_iff in E. contradiction.
Qed.

Lemma victim_ok_stable sl c st st' a : step_spec c st st' -> ~ In a (cmd_writes c) ->
  victim_ok sl st a -> victim_ok sl st' a.
Proof.
  intros Hs Ha (Hn & n & Ea & Hnd & Hl). split; [exact Hn|]. exists n.
  rewrite (step_names_out _ _ _ _ Hs Ha). repeat split; auto.
  destruct Hl as [->|(i & -> & L)]; [left; reflexivity|right]. exists i. split; [reflexivity|].
  destruct Hs as (_ & _ & -> & _). exact L.
Qed.

(* a directory is never in the footprint of a command that can start *)
Lemma dir_not_written sl c st d : cmd_ok sl st c -> is_dir st d = true -> ~ In d (cmd_writes c).
Proof.
  intros Hc Hd Hin. unfold is_dir in Hd.
  destruct c; cbn [cmd_ok cmd_writes In] in *.
  - destruct Hc as (_ & n & Ea & Hnd & _). destruct Hin as [<-|[]]. rewrite Ea in Hd. destruct n; congruence.
  - destruct Hc as ((_ & n & Ea & Hnd & _) & (_ & Et & _) & _). destruct Hin as [<-|[<-|[]]].
    + rewrite Ea in Hd. destruct n; congruence.
    + rewrite Et in Hd. discriminate.
  - destruct Hc as ((_ & n & Ea & Hnd & _) & (_ & Et & _) & _). destruct Hin as [<-|[<-|[]]].
    + rewrite Ea in Hd. destruct n; congruence.
    + rewrite Et in Hd. discriminate.
  - destruct Hc as (_ & (_ & Et & _) & _). destruct Hin as [<-|[]]. rewrite Et in Hd. discriminate.
  - destruct Hc.
Qed.

Lemma tmp_ok_stable sl c st st' a tmp : step_spec c st st' -> cmd_ok sl st c -> ~ In tmp (cmd_writes c) ->
  tmp_ok st a tmp -> tmp_ok st' a tmp.
Proof.
  intros Hs Hc Ht (Hn & Et & Hpp & Hd). repeat split; auto.
  - rewrite (step_names_out _ _ _ _ Hs Ht). exact Et.
  - unfold is_dir. rewrite (step_names_out _ _ _ _ Hs (dir_not_written _ _ _ _ Hc Hd)). exact Hd.
Qed.

(* c' can still start after c ran, provided c writes none of the operands of c' *)
Definition apart (c c' : fcmd) : Prop :=
  forall p, In p (cmd_writes c) -> p <> victim c' /\ cmd_tmp c' <> Some p /\ cmd_retained c' <> Some p.

Lemma cmd_ok_stable sl c c' st st' : step_spec c st st' -> cmd_ok sl st c -> cmd_ok sl st c' -> apart c c' ->
  cmd_ok sl st' c'.
Proof.
  intros Hs Hc Hc' Hd.
  assert (Hv : ~ In (victim c') (cmd_writes c)) by (intros H; destruct (Hd _ H) as (H1 & _); congruence).
  assert (Ht : forall t, cmd_tmp c' = Some t -> ~ In t (cmd_writes c)) by (intros t E H; destruct (Hd _ H) as (_ & H1 & _); congruence).
  assert (Hr : forall t, cmd_retained c' = Some t -> ~ In t (cmd_writes c)) by (intros t E H; destruct (Hd _ H) as (_ & _ & H1); congruence).
  destruct c' as [a|t a tmp|t a tmp|t a tmp mt pmt n1 n2|]; cbn [cmd_ok victim cmd_tmp cmd_retained] in *.
  - eapply victim_ok_stable; eauto.
  - destruct Hc' as (H1 & H2 & H3). split; [eapply victim_ok_stable; eauto|]. split; [eapply tmp_ok_stable; eauto|exact H3].
  - destruct Hc' as (H1 & H2 & H3 & H4 & H5 & nt & Et & Hnt).
    split; [eapply victim_ok_stable; eauto|]. split; [eapply tmp_ok_stable; eauto|]. repeat split; auto.
    exists nt. rewrite (step_names_out _ _ _ _ Hs (Hr t eq_refl)). auto.
  - destruct Hc' as (H1 & H2 & H3 & H4 & H5 & Hwf & i0 & d0 & it & dt & Ea & Ed & Et & Edt & Hii & Hb & Hmt & Hlk).
    split; [exact H1|]. split; [eapply tmp_ok_stable; eauto|]. split; [exact H3|]. split; [exact H4|]. split; [exact H5|]. split.
    + destruct Hs as (_ & _ & _ & _ & Hw). auto.
    + assert (Hi0 : i0 < next st) by (destruct Hwf as [H _]; eapply H; eauto).
      assert (Hit : it < next st) by (destruct Hwf as [H _]; eapply H; eauto).
      exists i0, d0, it, dt.
      rewrite (step_names_out _ _ _ _ Hs Hv), (step_names_out _ _ _ _ Hs (Hr t eq_refl)).
      destruct Hs as (_ & Hi & Hl & _). rewrite !Hi by auto. rewrite Hl. repeat split; auto.
  - destruct Hc'.
Qed.

(* ---------------------------------------------------------------- plans *)
Definition foot (cs : list fcmd) : list path := map victim cs ++ temps cs.
Definition own (c : fcmd) : list path := victim c :: match cmd_tmp c with Some t => [t] | None => [] end.

Lemma NoDup_app_inv {A} (a b : list A) : NoDup (a ++ b) -> NoDup a /\ NoDup b /\ forall x, In x a -> ~ In x b.
Proof.
  induction a as [|x a IH]; cbn [app]; intros H.
  - split; [constructor|]. split; [exact H|]. intros x [].
  - inversion H as [|? ? Hx Hr]; subst. destruct (IH Hr) as (Ha & Hb & Hd). split; [|split; [exact Hb|]].
    + constructor; auto. intros Hin. apply Hx. apply in_or_app. auto.
    + intros y [->|Hy]; [|auto]. intros Hin. apply Hx. apply in_or_app. auto.
Qed.

Lemma foot_cons c l : Permutation (foot (c :: l)) (own c ++ foot l).
Proof.
  unfold foot, own, temps. cbn [map flat_map app].
  destruct (cmd_tmp c) as [t|]; cbn [app].
  - constructor. apply Permutation_sym. apply Permutation_middle.
  - reflexivity.
Qed.
Lemma writes_own c p : no_move c -> In p (cmd_writes c) -> In p (own c).
Proof.
  intros Hm Hp. unfold own. destruct (writes_sub c p Hm Hp) as [-> | E]; [left; reflexivity|rewrite E; right; left; reflexivity].
Qed.
Lemma own_foot c l p : In c l -> In p (own c) -> In p (foot l).
Proof.
  intros Hc [<-|Hp]; unfold foot; apply in_or_app.
  - left. now apply in_map.
  - right. destruct (cmd_tmp c) as [t|] eqn:E; [|destruct Hp]. destruct Hp as [<-|[]]. eapply in_temps; eauto.
Qed.
Lemma foot_split c l : NoDup (foot (c :: l)) -> NoDup (foot l) /\ forall p, In p (own c) -> ~ In p (foot l).
Proof.
  intros H. pose proof (Permutation_NoDup (foot_cons c l) H) as H'.
  destruct (NoDup_app_inv _ _ H') as (_ & Hb & Hd). auto.
Qed.

Lemma plan_cons_inv sl s c l : plan_ok sl s (c :: l) ->
  cmd_ok sl s c /\ Forall (cmd_ok sl s) l /\ NoDup (foot l) /\ (forall p, In p (own c) -> ~ In p (foot l)) /\
  (forall c', In c' l -> apart c c') /\
  (forall a t, In a (foot l) -> In t (retained l) -> a <> t).
Proof.
  intros (HF & HN & H3). inversion HF as [|? ? Hc Hl]; subst.
  destruct (foot_split c l HN) as (HNl & Hown).
  split; [exact Hc|]. split; [exact Hl|]. split; [exact HNl|]. split; [exact Hown|]. split.
  - intros c' Hc' p Hp. pose proof (writes_own c p (cmd_ok_no_move _ _ _ Hc) Hp) as Ho.
    assert (Hpf : In p (foot (c :: l))).
    { apply (Permutation_in _ (Permutation_sym (foot_cons c l))). apply in_or_app. left. exact Ho. }
    split; [|split].
    + intros ->. apply (Hown _ Ho). unfold foot. apply in_or_app. left. now apply in_map.
    + intros E. apply (Hown _ Ho). unfold foot. apply in_or_app. right. eapply in_temps; eauto.
    + intros E. apply (H3 p p); auto. unfold retained. cbn [flat_map]. apply in_or_app. right.
      apply in_flat_map. exists c'. split; auto. rewrite E. left; reflexivity.
  - intros a t Ha Ht. apply H3.
    + apply (Permutation_in _ (Permutation_sym (foot_cons c l))). apply in_or_app. right. exact Ha.
    + unfold retained. cbn [flat_map]. apply in_or_app. right. exact Ht.
Qed.

Lemma plan_tail sl st c l st' : plan_ok sl st (c :: l) -> step_spec c st st' -> plan_ok sl st' l.
Proof.
  intros Hp Hs. destruct (plan_cons_inv _ _ _ _ Hp) as (Hc & Hl & HN & Hown & Hap & H3).
  split; [|split; [exact HN|exact H3]].
  rewrite Forall_forall in *. intros c' Hc'. eapply cmd_ok_stable; eauto.
Qed.

Lemma plan_names_cons s c l p : plan_names s (c :: l) p = if wrote c p then cmd_post s c p else plan_names s l p.
Proof. unfold plan_names. cbn [find]. destruct (wrote c p); reflexivity. Qed.

Lemma cmd_post_stable c c' st st' p : step_spec c st st' -> apart c c' -> cmd_post st' c' p = cmd_post st c' p.
Proof.
  intros Hs Ha. destruct c'; cbn [cmd_post]; try reflexivity.
  - destruct (path_eqb p a); [|reflexivity]. apply (step_names_out _ _ _ _ Hs).
    intros Hin. destruct (Ha _ Hin) as (_ & _ & Hr). cbn in Hr. congruence.
  - (* Move: never in a plan, but the statement is about any c' *)
    destruct (path_eqb p (norm tgt)); [|reflexivity]. apply (step_names_out _ _ _ _ Hs).
    intros Hin. destruct (Ha _ Hin) as (Hv & _). cbn in Hv. congruence.
Qed.

Theorem run_plan sl : forall l st, plan_ok sl st l ->
  let r := ev_script sl l st in
  (forall p, names (fst r) p = plan_names st l p) /\
  (forall i, i < next st -> inodes (fst r) i = inodes st i) /\
  locks (fst r) = locks st /\ next st <= next (fst r) /\ (wf st -> wf (fst r)) /\
  Forall (fun x => x = IOk) (snd r).
Proof.
  induction l as [|c l IH]; intros st Hp; cbn [ev_script fst snd].
  - split; [reflexivity|]. split; [reflexivity|]. split; [reflexivity|]. split; [lia|]. split; [auto|constructor].
  - destruct (plan_cons_inv _ _ _ _ Hp) as (Hc & Hl & HN & Hown & Hap & H3).
    destruct (step_ok sl c st Hc) as (st' & Hev & Hs).
    rewrite Hev. cbn [fst snd].
    pose proof (plan_tail _ _ _ _ _ Hp Hs) as Hp'.
    destruct (IH st' Hp') as (Hn & Hi & Hlk & Hnx & Hwf & Hres).
    pose proof Hs as (Hsn & Hsi & Hsl & Hsx & Hsw).
    split; [|split; [|split; [congruence|split; [lia|split; [auto|constructor; auto]]]]].
    + intros p. rewrite Hn, plan_names_cons. unfold plan_names.
      destruct (wrote c p) eqn:Ew.
      * (* p belongs to c: nobody else writes it *)
        assert (Hf : find (fun c0 => wrote c0 p) l = None).
        { destruct (find (fun c0 => wrote c0 p) l) as [c'|] eqn:Ef; [|reflexivity]. exfalso.
          apply find_some in Ef. destruct Ef as [Hc' Ew'].
          apply wrote_iff in Ew. apply wrote_iff in Ew'.
          apply (Hown p).
          - apply writes_own; auto. eapply cmd_ok_no_move; eauto.
          - eapply own_foot; eauto. apply writes_own; auto. rewrite Forall_forall in Hl. eapply cmd_ok_no_move; eauto. }
        rewrite Hf, Hsn, Ew. reflexivity.
      * destruct (find (fun c0 => wrote c0 p) l) as [c'|] eqn:Ef.
        -- apply find_some in Ef. destruct Ef as [Hc' _]. eapply cmd_post_stable; eauto.
        -- rewrite Hsn, Ew. reflexivity.
    + intros i Hi'. rewrite Hi by lia. apply Hsi. exact Hi'.
Qed.

(* ---------------------------------------------------------------- permutations *)
Lemma temps_perm l l' : Permutation l l' -> Permutation (temps l) (temps l').
Proof. intros H. unfold temps. induction H; cbn [flat_map]; auto using Permutation_app_head, Permutation_app. 
  - rewrite !app_assoc. apply Permutation_app_tail. apply Permutation_app_comm.
  - eapply Permutation_trans; eauto.
Qed.
Lemma retained_perm l l' : Permutation l l' -> Permutation (retained l) (retained l').
Proof. intros H. unfold retained. induction H; cbn [flat_map]; auto using Permutation_app_head, Permutation_app.
  - rewrite !app_assoc. apply Permutation_app_tail. apply Permutation_app_comm.
  - eapply Permutation_trans; eauto.
Qed.
Lemma foot_perm l l' : Permutation l l' -> Permutation (foot l) (foot l').
Proof. intros H. unfold foot. apply Permutation_app; [now apply Permutation_map|now apply temps_perm]. Qed.

Lemma plan_perm sl s cs cs' : Permutation cs cs' -> plan_ok sl s cs -> plan_ok sl s cs'.
Proof.
  intros HP (HF & HN & H3). split; [|split].
  - rewrite Forall_forall in *. intros c Hc. apply HF. eapply Permutation_in; [apply Permutation_sym|]; eauto.
  - eapply Permutation_NoDup; [apply (foot_perm _ _ HP)|exact HN].
  - intros a t Ha Ht. apply H3.
    + eapply Permutation_in; [apply Permutation_sym, (foot_perm _ _ HP)|exact Ha].
    + eapply Permutation_in; [apply Permutation_sym, (retained_perm _ _ HP)|exact Ht].
Qed.

(* at most one command of a plan writes a given path *)
Lemma writer_unique sl s : forall cs c1 c2 p, plan_ok sl s cs -> In c1 cs -> In c2 cs ->
  wrote c1 p = true -> wrote c2 p = true -> c1 = c2.
Proof.
  induction cs as [|c l IH]; intros c1 c2 p Hp H1 H2 W1 W2; [destruct H1|].
  destruct (plan_cons_inv _ _ _ _ Hp) as (Hc & Hl & HN & Hown & Hap & H3).
  assert (Hpl : plan_ok sl s l).
  { split; [exact Hl|]. split; [exact HN|exact H3]. }
  assert (Hcross : forall c', In c' l -> wrote c p = true -> wrote c' p = true -> False).
  { intros c' Hc' Wc Wc'. apply wrote_iff in Wc. apply wrote_iff in Wc'. apply (Hown p).
    - apply writes_own; auto. eapply cmd_ok_no_move; eauto.
    - eapply own_foot; eauto. apply writes_own; auto. rewrite Forall_forall in Hl. eapply cmd_ok_no_move; eauto. }
  destruct H1 as [<-|H1], H2 as [<-|H2]; auto.
  - exfalso. eapply Hcross; eauto.
  - exfalso. eapply Hcross; eauto.
  - eapply IH; eauto.
Qed.

Lemma plan_names_perm sl s cs cs' p : Permutation cs cs' -> plan_ok sl s cs -> plan_names s cs p = plan_names s cs' p.
Proof.
  intros HP Hp. unfold plan_names.
  destruct (find (fun c => wrote c p) cs) as [c1|] eqn:E1, (find (fun c => wrote c p) cs') as [c2|] eqn:E2; auto.
  - apply find_some in E1. apply find_some in E2. destruct E1 as [I1 W1], E2 as [I2 W2].
    assert (c1 = c2).
    { eapply (writer_unique sl s cs); eauto. eapply Permutation_in; [apply Permutation_sym|]; eauto. }
    subst. reflexivity.
  - exfalso. apply find_some in E1. destruct E1 as [I1 W1].
    pose proof (find_none _ _ E2 c1 (Permutation_in _ HP I1)) as H. cbn in H. congruence.
  - exfalso. apply find_some in E2. destruct E2 as [I2 W2].
    pose proof (find_none _ _ E1 c2 (Permutation_in _ (Permutation_sym HP) I2)) as H. cbn in H. congruence.
Qed.

(* the final state of a plan does not depend on the order of execution *)
Theorem plan_order_independent sl s cs cs' : plan_ok sl s cs -> Permutation cs cs' ->
  obs_eq s (fst (ev_script sl cs s)) (fst (ev_script sl cs' s)) /\
  Forall (fun x => x = IOk) (snd (ev_script sl cs s)) /\ Forall (fun x => x = IOk) (snd (ev_script sl cs' s)).
Proof.
  intros Hp HP. pose proof (plan_perm _ _ _ _ HP Hp) as Hp'.
  destruct (run_plan sl cs s Hp) as (Hn & Hi & Hl & _ & _ & Hr).
  destruct (run_plan sl cs' s Hp') as (Hn' & Hi' & Hl' & _ & _ & Hr').
  split; [|split; assumption]. split; [|split].
  - intros p. rewrite Hn, Hn'. eapply plan_names_perm; eauto.
  - intros i Hlt. rewrite Hi, Hi' by auto. reflexivity.
  - intros i. rewrite Hl, Hl'. reflexivity.
Qed.
