(* Extract_P.v — extraction of the pattern model (engine P) for the correspondence harness. *)
From Coq Require Import Extraction ExtrOcamlBasic.
From FV Require Import Base GlobModel.
Extraction Language OCaml.
Extraction "extracted/ex_P.ml" compile_glob pat_text pat_matches pat_matches_prefix pat_matches_partially
  get_fixed_prefix lower path_of_string path_string sel_new include_names include_paths exclude_paths
  matches_full_path matches_dir slash_prefixes ancestors N.of_nat Z.of_N.
