(* ScriptProofs4.v — engine X (C11), part 4: the statements of Props_C11.v assembled from parts 1-3. *)
From Coq Require Import Permutation.
From FV Require Import Base SortLib TextModel.
From FV Require Import DedupeModel DedupeProofs.
From FV Require Import FsModel AtomicModel AtomicProofs AtomicProofs2 AtomicProofs3 AtomicProofs4.
From FV Require Import EffectsModel EffectsProofs EffectsProofs2 EffectsProofs3 EffectsProofs4 EffectsProofs5 EffectsWitness
  ScriptModel ScriptProofs ScriptProofs2 ScriptProofs3.
Open Scope N_scope.

Lemma c11_one_script ax e sl op c sm r s arrival order :
  exists script, script = script_items ax op c sm s r /\
    run_dedupe true ax e sl op c sm r s arrival order = DryRun (log_script (sfx e) (arrival (indexed_from 0 script))) /\
    run_dedupe false ax e sl op c sm r s arrival order =
      (let cs := order (concat script) in
       RealRun (whole_run sl (map (fcmd_of e) cs) s) (reclaimed cs (sresults (whole_run sl (map (fcmd_of e) cs) s)))).
Proof. eexists. split; [reflexivity|]. split; reflexivity. Qed.

Lemma c11_same_effect e sl now s x : printable x -> cmd_paths_wf (sfx e) x -> cmd_ok sl s (fcmd_of e x) ->
  map bash_words (render (sfx e) x) = map Some (shell_words (sfx e) x) /\
  sh_run now (render (sfx e) x) s = Some (fst (exec sl (fcmd_of e x) s)).
Proof.
  intros Hp Hw Hok. split; [now apply render_bash|]. rewrite exec_ev. now apply script_same_effect.
Qed.

Lemma c11_order sfx (script : list (list cmd)) arrivals : Permutation arrivals (indexed_from 0 script) ->
  lines (log_script sfx arrivals) = flat_map (render sfx) (concat script).
Proof. intros HP. apply (log_script_spec sfx script arrivals HP). Qed.

(* a path whose last component is  a=~  is printed quoted, and bash reads it back unchanged *)
Definition tilde_path : path := [root_c; [120]; [97; 61; 126]].
Lemma c11_tilde : render (fun _ => [116]) (Remove (mkMeta tilde_path 1 1 1 true None None None (0%Z, 0%Z)))
                  = [[114; 109; 32; 39; 47; 120; 47; 97; 61; 126; 39]] /\
                  bash_words [114; 109; 32; 39; 47; 120; 47; 97; 61; 126; 39] = Some [W_rm; path_bytes tilde_path].
Proof. vm_compute. split; reflexivity. Qed.

(* the hypotheses of C11_same_commands hold for the link command of the example state *)
Ltac comp_ok_tac := split; [discriminate|repeat (apply Forall_cons; [repeat split; first [discriminate | reflexivity]|]); apply Forall_nil].
Ltac wf_path_tac := eexists; split; [reflexivity|split; [discriminate|repeat (apply Forall_cons; [comp_ok_tac|]); apply Forall_nil]].
Lemma c11_ex_hyps sl : printable (ex_cmd OpHardLink) /\ cmd_paths_wf (sfx w_env) (ex_cmd OpHardLink) /\
  cmd_ok sl ex_s (fcmd_of w_env (ex_cmd OpHardLink)).
Proof.
  split; [exact I|]. split.
  - split; [|split]; cbn; wf_path_tac.
  - pose proof (clause_plan w_ax w_env sl OpHardLink (w_cfg []) w_sm ex_s ex_r (ex_run_ok sl OpHardLink eq_refl)) as (HF & _).
    rewrite ex_run_cmds in HF. inversion HF; subst. assumption.
Qed.
