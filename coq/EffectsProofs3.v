(* EffectsProofs3.v — engine X, part 3: what a plan guarantees about its final state (the clauses of C02 at the
   level of command lists): everything outside the footprint is untouched, contents survive if every victim has
   an untouched keeper, link victims read back the same bytes. *)
From Coq Require Import Permutation.
From FV Require Import Base FsModel AtomicModel AtomicProofs AtomicProofs2 AtomicProofs3 AtomicProofs4 EffectsModel EffectsProofs EffectsProofs2.
Open Scope N_scope.

Lemma rresolve_file fuel s p i : names s p = Some (NFile i) -> rresolve fuel s p = RRFile p i.
Proof. intros E. destruct fuel; cbn [rresolve]; now rewrite E. Qed.
Lemma rread_names s p b : rread s p = Some b -> exists n, names s p = Some n /\ n <> NDir.
Proof.
  unfold rread, LINK_FUEL. change (rresolve 40 s p) with (match names s p with
  | None => RRNone | Some NDir => RRDir | Some (NFile i) => RRFile p i
  | Some (NLink t) => rresolve 39 s (link_dest p t) end).
  destruct (names s p) as [[i| |t]|]; try discriminate; intros _; eexists; split; eauto; discriminate.
Qed.
Lemma rread_file s p i : names s p = Some (NFile i) -> rread s p = option_map ibytes (inodes s i).
Proof. intros E. unfold rread. now rewrite (rresolve_file _ _ _ _ E). Qed.
Lemma rread_regular s p i b : rread s p = Some b -> names s p = Some (NFile i) ->
  exists d, inodes s i = Some d /\ ibytes d = b.
Proof.
  intros H E. rewrite (rread_file _ _ _ E) in H.
  destruct (inodes s i) as [d|]; [|discriminate]. exists d. cbn in H. split; congruence.
Qed.
Lemma rresolve_found fuel s : forall p q i, rresolve fuel s p = RRFile q i -> names s q = Some (NFile i).
Proof.
  induction fuel as [|f IH]; intros p q i; cbn [rresolve]; destruct (names s p) as [[j| |t]|] eqn:E; try discriminate.
  - intros H; injection H as <- <-. exact E.
  - intros H; injection H as <- <-. exact E.
  - apply IH.
Qed.
Lemma rresolve_S f s p : rresolve (S f) s p =
  match names s p with
  | None => RRNone | Some NDir => RRDir | Some (NFile i) => RRFile p i
  | Some (NLink t) => rresolve f s (link_dest p t)
  end.
Proof. reflexivity. Qed.
Lemma rread_link_abs s p t i : names s p = Some (NLink t) -> is_abs t = true -> norm t = t -> names s t = Some (NFile i) ->
  rread s p = option_map ibytes (inodes s i).
Proof.
  intros Ep Ha Hn Et. unfold rread, LINK_FUEL. rewrite rresolve_S, Ep. unfold link_dest. rewrite Ha, Hn.
  now rewrite (rresolve_file _ _ _ _ Et).
Qed.

Lemma no_writer_outside_foot sl s cs p : plan_ok sl s cs -> ~ In p (foot cs) -> find (fun c => wrote c p) cs = None.
Proof.
  intros (HF & _) Hp. destruct (find (fun c => wrote c p) cs) as [c|] eqn:E; [|reflexivity]. exfalso.
  apply find_some in E. destruct E as [Hc W]. apply wrote_iff in W. apply Hp.
  eapply own_foot; eauto. apply writes_own; auto. rewrite Forall_forall in HF. eapply cmd_ok_no_move; eauto.
Qed.

(* frame: a path outside the footprint names the same inode with the same bytes and mtime, in every order *)
Theorem plan_untouched sl s cs p : plan_ok sl s cs -> wf s -> ~ In p (foot cs) ->
  untouched s (fst (ev_script sl cs s)) p.
Proof.
  intros Hp Hw Hnp. destruct (run_plan sl cs s Hp) as (Hn & Hi & _).
  split.
  - rewrite Hn. unfold plan_names. now rewrite (no_writer_outside_foot _ _ _ _ Hp Hnp).
  - intros i E. apply Hi. destruct Hw as [H _]. eapply H; eauto.
Qed.

Lemma temps_free sl s cs t : Forall (cmd_ok sl s) cs -> In t (temps cs) -> names s t = None.
Proof.
  intros HF Ht. unfold temps in Ht. apply in_flat_map in Ht. destruct Ht as (c & Hc & Ht).
  rewrite Forall_forall in HF. specialize (HF c Hc).
  destruct c; cbn [cmd_tmp cmd_ok] in *; try destruct Ht as [<-|[]]; try (destruct Ht; fail).
  - destruct HF as (_ & (_ & E & _) & _). exact E.
  - destruct HF as (_ & (_ & E & _) & _). exact E.
  - destruct HF as (_ & (_ & E & _) & _). exact E.
Qed.

(* a keeper for a victim: an untouched regular file with the same bytes *)
Definition has_keeper (s : fs) (cs : list fcmd) (a : path) : Prop :=
  forall i d, names s a = Some (NFile i) -> inodes s i = Some d ->
  exists k j dk, ~ In k (foot cs) /\ names s k = Some (NFile j) /\ inodes s j = Some dk /\ ibytes dk = ibytes d.

Theorem plan_contents sl s cs : plan_ok sl s cs -> wf s -> (forall a, In a (map victim cs) -> has_keeper s cs a) ->
  forall b, stored s b -> stored (fst (ev_script sl cs s)) b.
Proof.
  intros Hp Hw Hk b (p & i & d & Ep & Ed & Eb).
  assert (Hun : forall q j dq, ~ In q (foot cs) -> names s q = Some (NFile j) -> inodes s j = Some dq ->
                 stored (fst (ev_script sl cs s)) (ibytes dq)).
  { intros q j dq Hq Eq Edq. destruct (plan_untouched sl s cs q Hp Hw Hq) as [Hn Hi].
    exists q, j, dq. split; [congruence|]. split; [|reflexivity]. rewrite (Hi j Eq). exact Edq. }
  destruct (in_dec (fun x y => match path_eqb_spec x y with ReflectT _ e => left e | ReflectF _ n => right n end) p (foot cs)) as [Hin|Hout].
  - unfold foot in Hin. apply in_app_or in Hin. destruct Hin as [Hv|Ht].
    + destruct (Hk p Hv i d Ep Ed) as (k & j & dk & Hkf & Ek & Edk & Ebk). rewrite <- Eb, <- Ebk. eapply Hun; eauto.
    + destruct Hp as (HF & _). rewrite (temps_free _ _ _ _ HF Ht) in Ep. discriminate.
  - rewrite <- Eb. eapply Hun; eauto.
Qed.

(* link commands whose victim and retained file are regular files with the same bytes *)
Definition link_equal (s : fs) (c : fcmd) : Prop :=
  match cmd_retained c with
  | Some t => exists i0 d0 it dt, names s (victim c) = Some (NFile i0) /\ inodes s i0 = Some d0 /\
                                  names s t = Some (NFile it) /\ inodes s it = Some dt /\ ibytes dt = ibytes d0
  | None => False
  end.

Lemma retained_outside sl s cs c t : plan_ok sl s cs -> In c cs -> cmd_retained c = Some t -> ~ In t (foot cs).
Proof.
  intros (_ & _ & H3) Hc E Hin. apply (H3 t t); auto. eapply in_retained; eauto.
Qed.

Lemma victim_writer sl s cs c : plan_ok sl s cs -> In c cs -> wrote c (victim c) = true ->
  find (fun c0 => wrote c0 (victim c)) cs = Some c.
Proof.
  intros Hp Hc W. destruct (find (fun c0 => wrote c0 (victim c)) cs) as [c'|] eqn:E.
  - apply find_some in E. destruct E as [Hc' W']. f_equal. eapply writer_unique; eauto.
  - pose proof (find_none _ _ E c Hc) as H. cbn in H. congruence.
Qed.

Lemma victim_inj_in cs : forall c1 c2, NoDup (map victim cs) -> In c1 cs -> In c2 cs -> victim c1 = victim c2 -> c1 = c2.
Proof.
  induction cs as [|x l IH]; intros c1 c2 HN H1 H2 E; [destruct H1|].
  cbn [map] in HN. inversion HN as [|y l' Hx Hr]. 
  destruct H1 as [H1|H1], H2 as [H2|H2].
  - congruence.
  - exfalso. apply Hx. rewrite H1, E. now apply in_map.
  - exfalso. apply Hx. rewrite H2, <- E. now apply in_map.
  - apply IH; auto.
Qed.

Theorem plan_link_reads_back sl s cs c : plan_ok sl s cs -> wf s -> In c cs -> link_equal s c ->
  (forall t, cmd_retained c = Some t -> is_abs t = true) ->
  rread (fst (ev_script sl cs s)) (victim c) = rread s (victim c).
Proof.
  intros Hp Hw Hc Hle Habs. unfold link_equal in Hle. destruct (cmd_retained c) as [t|] eqn:Er; [|destruct Hle].
  destruct Hle as (i0 & d0 & it & dt & Ea & Ed & Et & Edt & Eb). specialize (Habs t eq_refl).
  set (st := fst (ev_script sl cs s)).
  destruct (run_plan sl cs s Hp) as (Hn & Hi & _). fold st in Hn, Hi.
  pose proof (retained_outside _ _ _ _ _ Hp Hc Er) as Hto.
  destruct (plan_untouched sl s cs t Hp Hw Hto) as [Htn Hti]. fold st in Htn, Hti.
  assert (Eit : inodes st it = Some dt) by (rewrite (Hti it Et); exact Edt).
  assert (Hnt : norm t = t).
  { destruct Hp as (HF & _). rewrite Forall_forall in HF. specialize (HF c Hc).
    destruct c; cbn [cmd_retained cmd_ok] in *; try discriminate; injection Er as ->; tauto. }
  rewrite (rread_file s _ i0 Ea), Ed. cbn [option_map]. rewrite <- Eb.
  destruct c as [a|t' a tmp|t' a tmp|t' a tmp mt pmt n1 n2|]; cbn [cmd_retained victim] in *; try discriminate; injection Er as ->.
  - (* SoftLink *)
    assert (W : wrote (FSoftLink t a tmp) a = true) by (unfold wrote; cbn [cmd_writes existsb]; now rewrite path_eqb_refl).
    assert (En : names st a = Some (NLink t)).
    { rewrite Hn. unfold plan_names. pose proof (victim_writer _ _ _ _ Hp Hc W) as Hvw. cbn [victim] in Hvw. rewrite Hvw.
      cbn [cmd_post]. rewrite path_eqb_refl. auto. }
    rewrite (rread_link_abs st a t it En Habs Hnt) by congruence. now rewrite Eit.
  - (* HardLink *)
    assert (W : wrote (FHardLink t a tmp) a = true) by (unfold wrote; cbn [cmd_writes existsb]; now rewrite path_eqb_refl).
    assert (En : names st a = Some (NFile it)).
    { rewrite Hn. unfold plan_names. pose proof (victim_writer _ _ _ _ Hp Hc W) as Hvw. cbn [victim] in Hvw. rewrite Hvw.
      cbn [cmd_post]. rewrite path_eqb_refl. auto. }
    now rewrite (rread_file st a it En), Eit.
  - (* RefLink: the path keeps its inode, whose bytes are (identically) rewritten *)
    assert (En : names st a = Some (NFile i0)).
    { rewrite Hn. unfold plan_names.
      destruct (find (fun c0 => wrote c0 a) cs) as [c'|] eqn:E; [|exact Ea]. exfalso.
      apply find_some in E. destruct E as [Hc' W'].
      (* a is a victim, so the only commands that could write it are commands with victim a or temp a *)
      destruct Hp as (HF & HN & _). apply wrote_iff in W'.
      rewrite Forall_forall in HF.
      destruct (writes_sub c' a (cmd_ok_no_move _ _ _ (HF c' Hc')) W') as [Ev|Et'].
      - (* same victim: then c' is the reflink itself (NoDup), which does not write a *)
        assert (c' = FRefLink t a tmp mt pmt n1 n2).
        { apply NoDup_app_inv in HN. destruct HN as (HNv & _). eapply victim_inj_in; eauto. }
        subst c'. cbn [cmd_writes In] in W'. destruct W' as [W'|[]].
        specialize (HF _ Hc). cbn [cmd_ok] in HF. destruct HF as (_ & (_ & Etm & _) & _). rewrite W' in Etm. congruence.
      - pose proof (temps_free sl s cs a) as Hf. rewrite Hf in Ea; [discriminate| |].
        + rewrite Forall_forall. exact HF.
        + eapply in_temps; eauto. }
    assert (Ei0 : inodes st i0 = Some d0).
    { rewrite Hi; [exact Ed|]. destruct Hw as [H _]. eapply H; eauto. }
    rewrite (rread_file st a i0 En), Ei0. cbn [option_map]. now rewrite Eb.
Qed.
