(* DedupeProofs2.v — C08_rank: the stable sorts of `partition`, applied from the last priority to
   the first, produce the lexicographic order of the priority list (ties by report order) when
   the code sorts by: the list cut after its first top/bottom (K9 repaired by /repo 7054be1). *)
From Coq Require Import Permutation Sorted.
From FV Require Import Base SortLib DedupeModel DedupeProofs.

(* ------------------------------------------------------------------ the comparison of one priority *)
Lemma kle_total a b : kle a b = true \/ kle b a = true.
Proof.
  unfold kle. destruct a as [a1 a2], b as [b1 b2]. cbn [fst snd].
  destruct (Z.ltb_spec a1 b1), (Z.ltb_spec b1 a1), (Z.eqb_spec a1 b1), (Z.eqb_spec b1 a1),
    (Z.leb_spec a2 b2), (Z.leb_spec b2 a2); cbn [orb andb]; auto; lia.
Qed.
Lemma kle_trans a b c : kle a b = true -> kle b c = true -> kle a c = true.
Proof.
  unfold kle. destruct a as [a1 a2], b as [b1 b2], c as [c1 c2]. cbn [fst snd].
  destruct (Z.ltb_spec a1 b1), (Z.ltb_spec b1 c1), (Z.ltb_spec a1 c1), (Z.eqb_spec a1 b1), (Z.eqb_spec b1 c1),
    (Z.eqb_spec a1 c1), (Z.leb_spec a2 b2), (Z.leb_spec b2 c2), (Z.leb_spec a2 c2); cbn [orb andb]; auto; try lia;
    intros; try discriminate; lia.
Qed.

Lemma ple_total p : total (ple p).
Proof.
  intros a b. unfold ple. destruct (pkey p a) as [x|], (pkey p b) as [y|]; auto.
  destruct (prev p); [destruct (kle_total y x)|destruct (kle_total x y)]; auto.
Qed.
Lemma ple_trans p : transitive (ple p).
Proof.
  intros a b c. unfold ple. destruct (pkey p a) as [x|], (pkey p b) as [y|], (pkey p c) as [z|]; auto; try discriminate.
  destruct (prev p); intros H1 H2; eapply kle_trans; eauto.
Qed.

(* ------------------------------------------------------------------ the lexicographic reading *)
Definition plt (p : priority) (a b : sub) : Prop := ple p a b = true /\ ple p b a = false.
Definition peq (p : priority) (a b : sub) : Prop := ple p a b = true /\ ple p b a = true.

(* [lex_lt ps (i,a) (j,b)]: sub-group a (i-th in report order) ranks strictly before b.
   First priority most significant; `top` = reversed report order, `bottom` and the end of the
   list = report order (these are total on positions, so nothing after them matters). *)
Fixpoint lex_lt (ps : list priority) (a b : nat * sub) : Prop :=
  match ps with
  | [] => fst a < fst b
  | Top :: _ => fst b < fst a
  | Bottom :: _ => fst a < fst b
  | p :: ps' => plt p (snd a) (snd b) \/ (peq p (snd a) (snd b) /\ lex_lt ps' a b)
  end.

(* top / bottom occur at most as the last element *)
Definition tb_last (ps : list priority) : Prop :=
  forall i p, nth_error ps i = Some p -> is_tb p = true -> S i = length ps.

Lemma tb_last_tail p ps : tb_last (p :: ps) -> tb_last ps.
Proof.
  intros H i q Hn Hq. specialize (H (S i) q Hn Hq). cbn [length] in H. lia.
Qed.
Lemma tb_last_head_tb p ps : tb_last (p :: ps) -> is_tb p = true -> ps = [].
Proof.
  intros H Hp. specialize (H 0 p eq_refl Hp). cbn [length] in H. destruct ps; [reflexivity|cbn [length] in H; lia].
Qed.

Lemma lex_lt_cons p ps a b : is_tb p = false ->
  (lex_lt (p :: ps) a b <-> lexprod (fun x y => ple p (snd x) (snd y)) (lex_lt ps) a b).
Proof.
  intros Hp. unfold lexprod. destruct p; try discriminate Hp; cbn [lex_lt]; unfold plt, peq; tauto.
Qed.

Lemma lex_lt_asym ps a b : lex_lt ps a b -> lex_lt ps b a -> False.
Proof.
  induction ps as [|p ps IH]; cbn [lex_lt]; [lia|].
  destruct p; try lia; unfold plt, peq; intros [[H1 H2]|[[H1 H2] H3]] [[H4 H5]|[[H4 H5] H6]]; try congruence; auto.
Qed.

(* ------------------------------------------------------------------ the sorts compute that order *)
Lemma sort_by_key_order p l l' (order : list (nat * sub)) (T : nat * sub -> nat * sub -> Prop) :
  is_tb p = false -> sort_by p l = Some l' -> map snd order = l -> StronglySorted T order ->
  exists order', map snd order' = l' /\ Permutation order' order /\
                 StronglySorted (lexprod (fun x y => ple p (snd x) (snd y)) T) order'.
Proof.
  intros Hp Hs Hm Ho.
  assert (E : l' = ssort (ple p) l).
  { unfold sort_by in Hs. destruct p; try discriminate Hp;
      (destruct (_ && _); [discriminate|injection Hs as <-; reflexivity]). }
  exists (ssort (fun x y => ple p (snd x) (snd y)) order). split; [|split].
  - rewrite ssort_map, Hm. auto.
  - apply ssort_perm.
  - apply ssort_lex; auto.
    + intros x y. apply ple_total.
    + intros x y z. apply ple_trans.
Qed.

Lemma sort_all_order ps subs sorted : tb_last ps -> sort_all ps subs = Some sorted ->
  exists order, map snd order = sorted /\ Permutation order (indexed subs) /\
                StronglySorted (lex_lt ps) order.
Proof.
  revert sorted. induction ps as [|p ps IH]; intros sorted Htb Hs.
  - cbn in Hs. injection Hs as <-. exists (indexed subs). split; [apply indexed_snd|]. split; auto.
    apply indexed_sorted.
  - cbn [sort_all fold_right] in Hs. fold (sort_all ps subs) in Hs.
    destruct (is_tb p) eqn:Hp.
    + pose proof (tb_last_head_tb _ _ Htb Hp) as ->. cbn [sort_all fold_right] in Hs.
      destruct p; try discriminate Hp; cbn [sort_by] in Hs; injection Hs as <-.
      * exists (rev (indexed subs)). split; [rewrite map_rev, indexed_snd; reflexivity|]. split.
        -- apply Permutation_sym, Permutation_rev.
        -- cbn [lex_lt]. apply (StronglySorted_rev (fun a b : nat * sub => fst a < fst b)), indexed_sorted.
      * exists (indexed subs). split; [apply indexed_snd|]. split; auto. cbn [lex_lt]. apply indexed_sorted.
    + destruct (sort_all ps subs) as [l|] eqn:El; [|discriminate].
      destruct (IH l (tb_last_tail _ _ Htb) eq_refl) as (order & Hm & Hperm & Hsorted).
      destruct (sort_by_key_order p l sorted order (lex_lt ps) Hp Hs Hm Hsorted) as (order' & Hm' & Hperm' & Hs').
      exists order'. split; auto. split; [eapply perm_trans; eauto|].
      eapply StronglySorted_impl; [|exact Hs']. intros a b _ _ H. apply lex_lt_cons; auto.
Qed.

(* the list the code sorts by, [decisive ps], has top/bottom at most last and reads lexicographically like ps *)
Lemma decisive_tb_last ps : tb_last (decisive ps).
Proof.
  induction ps as [|p ps IH]; intros i q Hn Hq; cbn [decisive] in *.
  - destruct i; discriminate.
  - destruct (is_tb p) eqn:Hp.
    + destruct i as [|i]; [reflexivity|]. destruct i; discriminate.
    + destruct i as [|i]; cbn [nth_error] in Hn.
      * injection Hn as <-. congruence.
      * cbn [length]. f_equal. eapply IH; eauto.
Qed.

Lemma lex_lt_decisive ps a b : lex_lt (decisive ps) a b <-> lex_lt ps a b.
Proof.
  induction ps as [|p ps IH]; cbn [decisive]; [tauto|].
  destruct p; cbn [is_tb lex_lt]; try tauto.
Qed.

(* ------------------------------------------------------------------ C08_rank *)
Definition rank_spec (c : dcfg) (glen : N) (ms kept dropped : list meta) (order : list (nat * sub)) : Prop :=
  Permutation order (indexed (subgroups c (survivors c glen ms))) /\
  StronglySorted (lex_lt (prio c)) order /\
  let forced_kept := filter (forced c) (map snd order) in
  let droppable := filter (fun g => negb (forced c g)) (map snd order) in
  let quota := nkeep c - length forced_kept in
  dropped = concat (skipn quota droppable) /\
  kept = concat (forced_kept ++ firstn quota droppable).

Lemma c08_rank c glen ms kept dropped : partition c glen ms = Ok (kept, dropped) ->
  exists order, rank_spec c glen ms kept dropped order.
Proof.
  intros H. destruct (partition_anatomy _ _ _ _ _ H) as (sorted & An).
  destruct (sort_all_order _ _ _ (decisive_tb_last (prio c)) (an_sorted _ _ _ _ _ _ An)) as (order & Hm & Hp & Hs).
  exists order. split; [exact Hp|]. split.
  - eapply StronglySorted_impl; [|exact Hs]. intros a b _ _ Hab. apply lex_lt_decisive, Hab.
  - cbn zeta. rewrite Hm. split; apply An.
Qed.

Lemma rank_order_unique c glen ms k1 d1 k2 d2 o1 o2 :
  rank_spec c glen ms k1 d1 o1 -> rank_spec c glen ms k2 d2 o2 -> o1 = o2 /\ k1 = k2 /\ d1 = d2.
Proof.
  intros (P1 & S1 & D1 & K1) (P2 & S2 & D2 & K2).
  assert (o1 = o2) as <-.
  { eapply sorted_perm_unique; eauto.
    - apply lex_lt_asym.
    - eapply perm_trans; [exact P1|apply Permutation_sym, P2]. }
  cbn zeta in *. split; auto. split; congruence.
Qed.

(* ------------------------------------------------------------------ K9 *)
Definition k9_file (name : N) (ino : N) (btime : Z) : meta :=
  mkMeta [[47%N]; [name]] 1 ino 4 true (Some 100%Z) (Some 100%Z) (Some btime) (5%Z, 0%Z).
Definition k9_cfg : dcfg :=
  mkCfg None (fun _ => false) (fun _ => true) [] false false None [Top; Newest].
(* report order a, b, c; created in the order c, b, a *)
Definition k9_group : list meta := [k9_file 97 10 30; k9_file 98 11 20; k9_file 99 12 10].

(* K9 was: `--priority top --priority newest` kept a (newest first, then reversed).  Since 7054be1 `top` sees the
   original order: c is kept, b and a are dropped - the lexicographic reading. *)
Lemma c08_k9_regression :
  partition k9_cfg 4 k9_group = Ok ([k9_file 99 12 10], [k9_file 98 11 20; k9_file 97 10 30]) /\
  exists order, rank_spec k9_cfg 4 k9_group [k9_file 99 12 10] [k9_file 98 11 20; k9_file 97 10 30] order.
Proof.
  assert (H : partition k9_cfg 4 k9_group = Ok ([k9_file 99 12 10], [k9_file 98 11 20; k9_file 97 10 30]))
    by (vm_compute; reflexivity).
  split; [exact H|]. eapply c08_rank, H.
Qed.
