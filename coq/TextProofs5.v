(* TextProofs5.v — engine T, proofs part 5 (C10): the text report reader inverts the writer
   (groups and header), for all well-formed reports. *)
From FV Require Import Base TextModel TextProofs TextProofs2 TextProofs3 TextProofs4.
Open Scope N_scope.

#[local] Opaque dec.
#[local] Arguments h_version {TS} _.
#[local] Arguments h_ts {TS} _.
#[local] Arguments h_command {TS} _.
#[local] Arguments h_base_dir {TS} _.
#[local] Arguments h_stats {TS} _.
#[local] Arguments mkHeader {TS} _ _ _ _ _.
#[local] Arguments write_header _ {TS} _ _.
#[local] Arguments write_text _ {TS} _ _ _.
#[local] Arguments read_header {TS} _ _.
#[local] Arguments read_report {TS} _ _.
#[local] Arguments HOk {TS} _ _.
#[local] Arguments HErr {TS}.
#[local] Arguments HPanic {TS}.
#[local] Arguments RepText {TS} _ _ _.
#[local] Arguments RepHeaderErr {TS}.
#[local] Arguments RepHeaderPanic {TS}.
#[local] Arguments RepJson {TS}.
#[local] Arguments RepUnknown {TS}.

(* ------------------------------------------------------------------------------------------ *)
(* well-formed report data *)

Definition digits_ne (d : list N) : Prop := d <> [] /\ Forall (fun b => is_digit b = true) d.
Definition version_ok (v : list N) : Prop :=
  exists d1 d2 d3, v = d1 ++ [46] ++ d2 ++ [46] ++ d3 /\ digits_ne d1 /\ digits_ne d2 /\ digits_ne d3.
(* a path as fclones holds it: bytes, NUL-free, absolute, in std::path normal form *)
Definition path_ok (p : list N) : Prop :=
  is_bytes p /\ nul_free p /\ (exists r, p = 47 :: r) /\ path_norm p = p.
Definition u64 (n : N) : Prop := n <= U64_MAX.
Definition stats_ok (s : stats) : Prop :=
  u64 (s_groups s) /\ u64 (s_total_count s) /\ u64 (s_total_size s) /\ u64 (s_red_count s) /\
  u64 (s_red_size s) /\ u64 (s_miss_count s) /\ u64 (s_miss_size s).
Definition group_ok (g : group) : Prop :=
  g_hash g <> [] /\ is_bytes (g_hash g) /\ u64 (g_len g) /\ Forall path_ok (g_files g) /\
  u64 (N.of_nat (length (g_files g))).

(* ------------------------------------------------------------------------------------------ *)
(* paths *)

Lemma encode_slash r : stfu8_encode (47 :: r) = 47 :: stfu8_encode r.
Proof.
  unfold stfu8_encode. change (47 :: r) with ([47] ++ r).
  rewrite (seg_cons_good true [47] r (wf_ascii 47 ltac:(lia))). reflexivity.
Qed.

Lemma path_decode_encode p : path_ok p -> path_from_escaped (path_to_escaped p) = POk p.
Proof.
  intros (Hb & Hz & _ & Hn). unfold path_from_escaped, path_to_escaped.
  rewrite (stfu8_roundtrip p Hb).
  replace (existsb (N.eqb 0) p) with false; [rewrite Hn; reflexivity|].
  symmetry. destruct (existsb (N.eqb 0) p) eqn:E; [|reflexivity].
  apply existsb_exists in E as [x [Hx Ex]]. apply N.eqb_eq in Ex. subst x.
  unfold nul_free in Hz. rewrite Forall_forall in Hz. specialize (Hz 0 Hx). contradiction.
Qed.

Lemma trim_start_suffix cs : exists pre, cs = pre ++ trim_start_cs cs.
Proof.
  induction cs as [|c cs [pre IH]]; [exists []; reflexivity|]. cbn [trim_start_cs].
  destruct (is_whitespace c); [exists (c :: pre); cbn; f_equal; exact IH|exists []; reflexivity].
Qed.

Lemma trim_end_prefix cs : exists suf, cs = trim_end_cs cs ++ suf.
Proof.
  unfold trim_end_cs. destruct (trim_start_suffix (rev cs)) as [pre E]. exists (rev pre).
  rewrite <- rev_app_distr, <- E, rev_involutive. reflexivity.
Qed.

(* a line "    /..." is not blank *)
Lemma str_trim_indent_line e : is_str e -> str_trim (S_INDENT ++ (47 :: e) ++ [10]) <> [].
Proof.
  intros [cs [W E]]. unfold str_trim.
  assert (Ec : S_INDENT ++ (47 :: e) ++ [10] = concat ([[32]; [32]; [32]; [32]; [47]] ++ cs ++ [[10]])).
  { rewrite !concat_app, E. reflexivity. }
  rewrite Ec, str_chars_of_chars.
  2:{ apply Forall_app. split; [repeat constructor; apply wf_ascii; lia|].
      apply Forall_app. split; [assumption|repeat constructor; apply wf_ascii; lia]. }
  cbn [app trim_start_cs]. change (is_whitespace [32]) with true. change (is_whitespace [47]) with false. cbv iota.
  set (L := [47] :: cs ++ [[10]]).
  destruct (trim_end_prefix L) as [suf Es].
  pose proof (trim_end_nonempty [] [47] (cs ++ [[10]]) eq_refl) as Hne. cbn [app] in Hne. fold L in Hne.
  destruct (trim_end_cs L) as [|c t]; [contradiction|].
  unfold L in Es. cbn [app] in Es. injection Es as E1 _. subst c. discriminate.
Qed.

Section ReportProofs.
Variable human : N -> list N.
Variable TS : Type.
Variable fmt_ts : TS -> list N.
Variable parse_ts : list N -> option TS.
Variable ts_ok : TS -> Prop.

(* bytesize: printable ASCII without the characters the reader's regexes stop at *)
Hypothesis human_ok : forall n, human n <> [] /\
  Forall (fun b => 32 <= b < 127 /\ b <> 42 /\ b <> 41 /\ b <> 58) (human n).
(* chrono: the formatted timestamp is printable ASCII and parses back to the same value *)
Hypothesis ts_roundtrip : forall t, ts_ok t ->
  Forall (fun b => 32 <= b < 127) (fmt_ts t) /\ parse_ts (str_trim (fmt_ts t)) = Some t.

Notation header := (header TS).
Local Notation write_group_header := (TextModel.write_group_header human).
Local Notation write_group := (TextModel.write_group human).
Local Notation write_header := (TextModel.write_header human fmt_ts).
Local Notation write_text := (TextModel.write_text human fmt_ts).
Local Notation read_header := (TextModel.read_header parse_ts).
Local Notation read_report := (TextModel.read_report parse_ts).

Definition header_ok (h : header) : Prop :=
  version_ok (h_version h) /\ ts_ok (h_ts h) /\ Forall arg_ok (h_command h) /\ path_ok (h_base_dir h) /\
  exists s, h_stats h = Some s /\ stats_ok s.

(* ---- path lines ---- *)

Lemma path_line_props p : path_ok p ->
  exists e, path_to_escaped p = 47 :: e /\ is_str e /\ no_ctl (47 :: e).
Proof.
  intros (Hb & _ & [r ->] & _). unfold path_to_escaped. rewrite encode_slash.
  inversion Hb as [|? ? _ Hr]; subst. destruct (encode_props r Hr) as [E1 E2].
  exists (stfu8_encode r). repeat split; [assumption|]. constructor; [lia|assumption].
Qed.

Lemma read_path_line p st k : path_ok p ->
  read_paths (S k) (write_path_line p ++ st) =
  match read_paths k st with RPOk ps r => RPOk (p :: ps) r | e => e end.
Proof.
  intros Hp. cbn [read_paths]. unfold write_path_line.
  destruct (path_line_props p Hp) as (e & Ee & Se & Ne). rewrite Ee.
  set (content := S_INDENT ++ 47 :: e).
  assert (Hc : no_ctl content).
  { apply no_ctl_app. split; [repeat constructor; lia|assumption]. }
  assert (Hs : is_str content).
  { apply is_str_app; [apply is_str_ascii; repeat constructor; lia|].
    change (47 :: e) with ([47] ++ e). apply is_str_app; [apply is_str_ascii; repeat constructor; lia|assumption]. }
  assert (E0 : (S_INDENT ++ (47 :: e) ++ NL) ++ st = content ++ 10 :: st).
  { unfold content, NL. rewrite <- !app_assoc. cbn [app]. rewrite <- ?app_assoc. reflexivity. }
  rewrite E0.
  rewrite read_line_full; [|apply no_ctl_not_in; [assumption|lia]|assumption].
  assert (El : content ++ [10] = S_INDENT ++ (47 :: e) ++ [10]).
  { unfold content. rewrite <- app_assoc. reflexivity. }
  assert (Ell : last (content ++ [10]) 0 = 10) by apply last_last. rewrite Ell. change (10 =? 10) with true. cbv iota.
  rewrite El. rewrite strip_prefix_app.
  pose proof (str_trim_indent_line e Se) as Ht.
  destruct (str_trim (S_INDENT ++ (47 :: e) ++ [10])) as [|t0 t1] eqn:Et; [contradiction|].
  cbn [nonempty].
  rewrite strip_eol_line; [|apply no_ctl_not_in; [assumption|lia]].
  rewrite <- Ee, (path_decode_encode p Hp).
  destruct (S_INDENT ++ path_to_escaped p ++ [10]) eqn:Ez; [|reflexivity].
  cbn in Ez. discriminate.
Qed.

Lemma read_paths_ok files rest : Forall path_ok files ->
  read_paths (length files) (flat_map write_path_line files ++ rest) = RPOk files rest.
Proof.
  induction 1 as [|p files Hp Hf IH]; [reflexivity|].
  cbn [length flat_map]. rewrite <- app_assoc, (read_path_line p _ _ Hp), IH. reflexivity.
Qed.

(* ---- group header ---- *)

Definition gh_text (g : group) : list N :=
  hex_encode (g_hash g) ++ S_COMMA ++ dec (g_len g) ++ S_B_PAREN ++ human (g_len g) ++ S_PAREN_STAR ++
  dec (N.of_nat (length (g_files g))) ++ [58].

Lemma write_group_header_eq g : write_group_header g = gh_text g ++ [10].
Proof. unfold write_group_header, gh_text, NL. rewrite <- !app_assoc. reflexivity. Qed.

Lemma human_props n :
  Forall (fun b => 32 <= b < 127) (human n) /\ Forall (fun b => negb (b =? 42) = true) (human n) /\
  Forall (fun b => negb (b =? 41) = true) (human n) /\ ~ In 58 (human n) /\ human n <> [].
Proof.
  destruct (human_ok n) as [Hne H]. repeat split; try assumption.
  - eapply Forall_weaken; [|exact H]. cbv beta. intros b (A & _). exact A.
  - eapply Forall_weaken; [|exact H]. cbv beta. intros b (_ & A & _). apply negb_true_iff, N.eqb_neq. exact A.
  - eapply Forall_weaken; [|exact H]. cbv beta. intros b (_ & _ & A & _). apply negb_true_iff, N.eqb_neq. exact A.
  - intros Hi. rewrite Forall_forall in H. destruct (H 58 Hi) as (_ & _ & _ & A). contradiction.
Qed.

Lemma digits_range d : Forall (fun b => is_digit b = true) d -> Forall (fun b => 48 <= b <= 57) d.
Proof. apply Forall_weaken. intros b H. unfold is_digit in H. b2p. lia. Qed.

Lemma re_group_header_ok g tail : group_ok g ->
  re_group_header (gh_text g ++ tail) =
  Some (hex_encode (g_hash g), dec (g_len g), dec (N.of_nat (length (g_files g)))).
Proof.
  intros (Hne & Hb & _). unfold re_group_header, gh_text.
  destruct (human_props (g_len g)) as (_ & H42 & _ & _ & Hhne).
  destruct (dec_props (g_len g)) as [D1 D2].
  destruct (dec_props (N.of_nat (length (g_files g)))) as [C1 C2].
  rewrite <- !app_assoc.
  rewrite (span_app is_hexl (hex_encode (g_hash g))); [|apply hex_encode_hexl; assumption|reflexivity].
  pose proof (hex_encode_ne _ Hne) as Hxne.
  destruct (hex_encode (g_hash g)) as [|x0 xr] eqn:Ex; [contradiction|]. cbn [nonempty].
  rewrite strip_prefix_app.
  rewrite (span_app is_digit (dec (g_len g))); [|assumption|reflexivity].
  destruct (dec (g_len g)) as [|d0 dr] eqn:Ed; [contradiction|]. cbn [nonempty].
  replace (S_B_PAREN ++ human (g_len g) ++ S_PAREN_STAR ++ dec (N.of_nat (length (g_files g))) ++ [58] ++ tail)
    with (S_B ++ ([40] ++ human (g_len g) ++ [41; 32]) ++ S_STAR ++ dec (N.of_nat (length (g_files g))) ++ [58] ++ tail)
    by (rewrite <- !app_assoc; reflexivity).
  rewrite strip_prefix_app.
  rewrite (span_app (fun b => negb (b =? 42)) ([40] ++ human (g_len g) ++ [41; 32])).
  2:{ apply Forall_app. split; [repeat constructor|]. apply Forall_app. split; [assumption|repeat constructor]. }
  2:{ reflexivity. }
  assert (Hl : last ([40] ++ human (g_len g) ++ [41; 32]) 0 = 32).
  { rewrite app_assoc. change [41; 32] with ([41] ++ [32]). rewrite app_assoc. apply last_last. }
  rewrite Hl. cbn [app nonempty]. change (32 =? 32) with true. cbn [andb].
  rewrite strip_prefix_app.
  rewrite (span_app is_digit (dec (N.of_nat (length (g_files g))))); [|assumption|reflexivity].
  destruct (dec (N.of_nat (length (g_files g)))) as [|c0 cr] eqn:Ec; [contradiction|]. cbn [nonempty].
  cbn [app]. change (58 =? 58) with true. reflexivity.
Qed.

Lemma gh_text_shape g : group_ok g ->
  exists b x, gh_text g = b :: x ++ [58] /\ is_hexl b = true /\ Forall (fun y => 32 <= y < 128) (b :: x ++ [58]) /\
              ~ In 58 (b :: x).
Proof.
  intros (Hne & Hb & _). unfold gh_text.
  destruct (human_props (g_len g)) as (Hh & _ & _ & H58 & _).
  pose proof (hex_encode_hexl _ Hb) as Hx. pose proof (hex_encode_ne _ Hne) as Hxne.
  destruct (dec_props (g_len g)) as [_ D2]. destruct (dec_props (N.of_nat (length (g_files g)))) as [_ C2].
  apply digits_range in D2, C2.
  destruct (hex_encode (g_hash g)) as [|x0 xr] eqn:Ex; [contradiction|].
  inversion Hx as [|? ? Hx0 Hxr]; subst.
  exists x0, (xr ++ S_COMMA ++ dec (g_len g) ++ S_B_PAREN ++ human (g_len g) ++ S_PAREN_STAR ++
              dec (N.of_nat (length (g_files g)))).
  assert (Hr : Forall (fun y => 48 <= y < 128) xr).
  { eapply Forall_weaken; [|exact Hxr]. intros b. apply is_hexl_lt. }
  pose proof (is_hexl_lt _ Hx0) as R0.
  repeat split.
  - cbn [app]. rewrite <- !app_assoc. reflexivity.
  - assumption.
  - constructor; [lia|].
    apply Forall_app; split; [|repeat constructor; lia].
    apply Forall_app; split; [eapply Forall_weaken; [|exact Hr]; cbv beta; intros; lia|].
    apply Forall_app; split; [repeat constructor; lia|].
    apply Forall_app; split; [eapply Forall_weaken; [|exact D2]; cbv beta; intros; lia|].
    apply Forall_app; split; [repeat constructor; lia|].
    apply Forall_app; split; [eapply Forall_weaken; [|exact Hh]; cbv beta; intros; lia|].
    apply Forall_app; split; [repeat constructor; lia|].
    eapply Forall_weaken; [|exact C2]. cbv beta. intros; lia.
  - intros [E|Hi]; [subst x0; vm_compute in Hx0; discriminate|].
    repeat (apply in_app_or in Hi; destruct Hi as [Hi|Hi]).
    + rewrite Forall_forall in Hr. specialize (Hr 58 Hi). unfold is_hexl, is_digit in Hxr.
      rewrite Forall_forall in Hxr. specialize (Hxr 58 Hi). vm_compute in Hxr. discriminate.
    + cbn in Hi. intuition discriminate.
    + rewrite Forall_forall in D2. specialize (D2 58 Hi). lia.
    + cbn in Hi. intuition discriminate.
    + contradiction.
    + cbn in Hi. intuition discriminate.
    + rewrite Forall_forall in C2. specialize (C2 58 Hi). lia.
Qed.

Lemma ws_false_range b : 33 <= b < 128 -> is_whitespace [b] = false.
Proof.
  intros H. rewrite ws_ascii. apply orb_false_iff. split; [|apply N.eqb_neq; lia].
  apply andb_false_iff. right. apply N.leb_gt. lia.
Qed.

Lemma read_group_header_ok g rest fuel : group_ok g ->
  read_group_header (S fuel) (write_group_header g ++ rest) =
  GHOk (g_hash g) (g_len g) (N.of_nat (length (g_files g))) rest.
Proof.
  intros Hg. destruct (gh_text_shape g Hg) as (b & x & Eg & Hxb & Hasc & _).
  pose proof Hg as (Hne & Hb & Hlen & _ & Hcnt).
  rewrite write_group_header_eq, <- app_assoc. cbn [app read_group_header].
  rewrite read_line_full.
  2:{ apply no_ctl_not_in; [|lia]. rewrite Eg. eapply Forall_weaken; [|exact Hasc]. cbv beta. intros; lia. }
  2:{ apply is_str_ascii. rewrite Eg. eapply Forall_weaken; [|exact Hasc]. cbv beta. intros; lia. }
  pose proof (is_hexl_lt _ Hxb) as Rb.
  rewrite Eg, str_trim_ascii_line.
  2:{ eapply Forall_weaken; [|exact Hasc]. cbv beta. intros; lia. }
  2:{ apply ws_false_range. lia. }
  2:{ apply ws_false_range. lia. }
  replace (b =? 35) with false.
  2:{ symmetry. apply N.eqb_neq. intros ->. vm_compute in Hxb. discriminate. }
  rewrite <- Eg, <- (app_nil_r (gh_text g)), (re_group_header_ok g [] Hg).
  rewrite (hex_roundtrip _ Hb), (parse_u64_dec _ Hlen), (parse_u64_dec _ Hcnt). reflexivity.
Qed.

(* ---- groups ---- *)

Lemma path_lines_length files : (length files <= length (flat_map write_path_line files))%nat.
Proof.
  induction files as [|p files IH]; [cbn; lia|]. cbn [flat_map length]. rewrite app_length.
  unfold write_path_line at 1. rewrite !app_length. cbn [length S_INDENT]. lia.
Qed.

Lemma read_group_ok g rest fuel : group_ok g ->
  read_groups (S fuel) (write_group g ++ rest) =
  let (gs, e) := read_groups fuel rest in (g :: gs, e).
Proof.
  intros Hg. pose proof Hg as (_ & _ & _ & Hp & _).
  cbn [read_groups]. unfold write_group. rewrite <- app_assoc.
  rewrite (read_group_header_ok g _ _ Hg).
  replace (N.to_nat (N.min (N.of_nat (length (g_files g)))
                           (N.of_nat (S (length (flat_map write_path_line (g_files g) ++ rest))))))
    with (length (g_files g)).
  2:{ rewrite N.min_l; [rewrite Nat2N.id; reflexivity|].
      pose proof (path_lines_length (g_files g)). rewrite app_length. lia. }
  rewrite (read_paths_ok _ _ Hp). destruct g as [h l f]. reflexivity.
Qed.

Lemma read_groups_end fuel : read_groups (S fuel) [] = ([], GEnd).
Proof. reflexivity. Qed.

Lemma read_groups_ok gs : Forall group_ok gs -> forall fuel, (length gs < fuel)%nat ->
  read_groups fuel (flat_map write_group gs) = (gs, GEnd).
Proof.
  induction 1 as [|g gs Hg Hgs IH]; intros fuel Hf.
  - destruct fuel; [lia|]. reflexivity.
  - destruct fuel; [cbn in Hf; lia|]. cbn [flat_map]. rewrite (read_group_ok g _ _ Hg).
    rewrite IH; [reflexivity|cbn in Hf; lia].
Qed.

Lemma write_group_ne g : write_group g <> [].
Proof. unfold write_group. rewrite write_group_header_eq. destruct (gh_text g); discriminate. Qed.

Lemma groups_length gs : (length gs <= length (flat_map write_group gs))%nat.
Proof.
  induction gs as [|g gs IH]; [cbn; lia|]. cbn [flat_map length]. rewrite app_length.
  pose proof (write_group_ne g). destruct (write_group g); [contradiction|]. cbn [length]. lia.
Qed.

(* ---- header ---- *)

Lemma read_hline_ok P body rest :
  (exists P', P = 35 :: P' /\ Forall (fun b => 32 <= b < 128) P') -> no_ctl body -> is_str body ->
  read_hline ((P ++ body) ++ 10 :: rest) = Some (P ++ body, rest).
Proof.
  intros (P' & -> & HP) Hn Hs. unfold read_hline.
  assert (Hc : no_ctl (35 :: P' ++ body)).
  { constructor; [lia|]. apply no_ctl_app. split; [|assumption]. eapply Forall_weaken; [|exact HP]. cbv beta. intros; lia. }
  assert (Hs' : is_str (P' ++ body)).
  { apply is_str_app; [|assumption]. apply is_str_ascii. eapply Forall_weaken; [|exact HP]. cbv beta. intros; lia. }
  cbn [app]. change (35 :: (P' ++ body) ++ 10 :: rest) with ((35 :: P' ++ body) ++ 10 :: rest).
  rewrite read_line_full.
  - cbn [app]. rewrite str_trim_start_id; [|lia|reflexivity|].
    + change (35 :: (P' ++ body) ++ [10]) with ((35 :: P' ++ body) ++ [10]).
      rewrite strip_eol_line; [reflexivity|]. apply no_ctl_not_in; [assumption|lia].
    + apply is_str_app; [assumption|apply is_str_ascii; repeat constructor; lia].
  - apply no_ctl_not_in; [assumption|lia].
  - change (35 :: P' ++ body) with ([35] ++ P' ++ body). apply is_str_app; [|assumption].
    apply is_str_ascii. repeat constructor; lia.
Qed.

Lemma take_digits_app d r : digits_ne d -> hd_fails is_digit r -> take_digits (d ++ r) = Some (d, r).
Proof.
  intros [Hne Hd] Hr. unfold take_digits. rewrite (span_app _ _ _ Hd Hr). destruct d; [contradiction|reflexivity].
Qed.

Lemma re_version_ok v : version_ok v -> re_version (P_VERSION ++ v) = Some v.
Proof.
  intros (d1 & d2 & d3 & -> & H1 & H2 & H3). unfold re_version. rewrite strip_prefix_app.
  rewrite (take_digits_app d1 _ H1) by reflexivity. cbn [app]. change (46 =? 46) with true. cbv iota.
  rewrite (take_digits_app d2 _ H2) by reflexivity. change (46 =? 46) with true. cbv iota.
  rewrite <- (app_nil_r d3) at 1. rewrite (take_digits_app d3 [] H3) by exact I. reflexivity.
Qed.

Lemma re_size_count_ok prefix size count tail : hd_fails is_digit tail ->
  re_size_count prefix (size_line human prefix size count tail) = Some (dec size, dec count, tail).
Proof.
  intros Ht. unfold re_size_count, size_line. rewrite strip_prefix_app.
  rewrite take_digits_dec by reflexivity. rewrite strip_prefix_app.
  destruct (human_props size) as (_ & _ & H41 & _ & Hne).
  rewrite (span_app (fun b => negb (b =? 41)) (human size)); [|assumption|reflexivity].
  destruct (human size) as [|h0 hr] eqn:Eh; [contradiction|]. cbn [nonempty].
  rewrite strip_prefix_app. rewrite take_digits_dec by assumption. reflexivity.
Qed.

Lemma ascii_prefix P : (exists P', P = 35 :: P' /\ Forall (fun b => 32 <= b < 128) P') -> no_ctl P /\ is_str P.
Proof.
  intros (P' & -> & H). split.
  - constructor; [lia|]. eapply Forall_weaken; [|exact H]. cbv beta. intros; lia.
  - apply is_str_ascii. constructor; [lia|]. eapply Forall_weaken; [|exact H]. cbv beta. intros; lia.
Qed.

Lemma digits_props d : Forall (fun b => is_digit b = true) d -> no_ctl d /\ is_str d.
Proof.
  intros H. apply digits_range in H. split.
  - eapply Forall_weaken; [|exact H]. cbv beta. intros; lia.
  - apply is_str_ascii. eapply Forall_weaken; [|exact H]. cbv beta. intros; lia.
Qed.

Lemma lit_props l : Forall (fun b => 32 <= b < 128) l -> no_ctl l /\ is_str l.
Proof.
  intros H. split.
  - eapply Forall_weaken; [|exact H]. cbv beta. intros; lia.
  - apply is_str_ascii. eapply Forall_weaken; [|exact H]. cbv beta. intros; lia.
Qed.

Lemma props_app l1 l2 : no_ctl l1 /\ is_str l1 -> no_ctl l2 /\ is_str l2 -> no_ctl (l1 ++ l2) /\ is_str (l1 ++ l2).
Proof. intros [A1 A2] [B1 B2]. split; [apply no_ctl_app; split; assumption|apply is_str_app; assumption]. Qed.

Lemma size_body_props size count tail : Forall (fun b => 32 <= b < 128) tail ->
  let body := dec size ++ S_B_PAREN ++ human size ++ S_PAREN_IN ++ dec count ++ tail in
  no_ctl body /\ is_str body.
Proof.
  intros Ht. cbv zeta.
  destruct (human_props size) as (Hh & _). destruct (dec_props size) as [_ D1]. destruct (dec_props count) as [_ D2].
  repeat apply props_app; try (apply digits_props; assumption); try (apply lit_props; repeat constructor; lia).
  - apply lit_props. eapply Forall_weaken; [|exact Hh]. cbv beta. intros; lia.
  - apply lit_props. assumption.
Qed.

Definition P_ok (P : list N) : Prop := exists P', P = 35 :: P' /\ Forall (fun b => 32 <= b < 128) P'.

Lemma P_VERSION_ok : P_ok P_VERSION. Proof. eexists; split; [reflexivity|repeat constructor; lia]. Qed.
Lemma P_TIMESTAMP_ok : P_ok P_TIMESTAMP. Proof. eexists; split; [reflexivity|repeat constructor; lia]. Qed.
Lemma P_COMMAND_ok : P_ok P_COMMAND. Proof. eexists; split; [reflexivity|repeat constructor; lia]. Qed.
Lemma P_BASE_DIR_ok : P_ok P_BASE_DIR. Proof. eexists; split; [reflexivity|repeat constructor; lia]. Qed.
Lemma P_TOTAL_ok : P_ok P_TOTAL. Proof. eexists; split; [reflexivity|repeat constructor; lia]. Qed.
Lemma P_REDUNDANT_ok : P_ok P_REDUNDANT. Proof. eexists; split; [reflexivity|repeat constructor; lia]. Qed.
Lemma P_MISSING_ok : P_ok P_MISSING. Proof. eexists; split; [reflexivity|repeat constructor; lia]. Qed.

Lemma read_header_ok h rest : header_ok h -> read_header (write_header h ++ rest) = HOk h rest.
Proof.
  destruct h as [v t cmd base st]. intros (Hv & Ht & Hc & Hp & s & Es & Hs). cbn [h_version h_ts h_command h_base_dir h_stats] in *.
  subst st. destruct s as [sg stc sts src srs smc sms]. destruct Hs as (U1 & U2 & U3 & U4 & U5 & U6 & U7).
  cbn [s_groups s_total_count s_total_size s_red_count s_red_size s_miss_count s_miss_size] in *.
  destruct (ts_roundtrip t Ht) as [Tp Tr].
  pose proof Hv as (d1 & d2 & d3 & Ev & (_ & V1) & (_ & V2) & (_ & V3)).
  set (tail5 := S_FILES_IN ++ dec sg ++ S_GROUPS).
  set (b5 := dec sts ++ S_B_PAREN ++ human sts ++ S_PAREN_IN ++ dec stc ++ tail5).
  set (b6 := dec srs ++ S_B_PAREN ++ human srs ++ S_PAREN_IN ++ dec src ++ S_FILES).
  set (b7 := dec sms ++ S_B_PAREN ++ human sms ++ S_PAREN_IN ++ dec smc ++ S_FILES).
  assert (E : write_header (mkHeader v t cmd base (Some (mkStats sg stc sts src srs smc sms))) ++ rest =
              (P_VERSION ++ v) ++ 10 :: ((P_TIMESTAMP ++ fmt_ts t) ++ 10 :: ((P_COMMAND ++ join cmd) ++ 10 ::
              ((P_BASE_DIR ++ path_to_escaped base) ++ 10 :: ((P_TOTAL ++ b5) ++ 10 :: ((P_REDUNDANT ++ b6) ++ 10 ::
              ((P_MISSING ++ b7) ++ 10 :: rest))))))).
  { unfold TextModel.write_header, write_stats, size_line, b5, b6, b7, tail5, NL.
    cbn [h_version h_ts h_command h_base_dir h_stats s_groups s_total_count s_total_size s_red_count s_red_size s_miss_count s_miss_size].
    rewrite <- !app_assoc. reflexivity. }
  rewrite E. clear E. unfold TextModel.read_header.
  (* line 1 *)
  rewrite (read_hline_ok P_VERSION v _ P_VERSION_ok).
  2:{ rewrite Ev. repeat (apply no_ctl_app; split); try (apply digits_props; assumption); repeat constructor; lia. }
  2:{ rewrite Ev. repeat apply is_str_app; try (apply digits_props; assumption); apply is_str_ascii; repeat constructor; lia. }
  cbv beta iota. rewrite (re_version_ok v Hv). cbv beta iota.
  (* line 2 *)
  rewrite (read_hline_ok P_TIMESTAMP (fmt_ts t) _ P_TIMESTAMP_ok).
  2:{ eapply Forall_weaken; [|exact Tp]. cbv beta. intros; lia. }
  2:{ apply is_str_ascii. eapply Forall_weaken; [|exact Tp]. cbv beta. intros; lia. }
  cbv beta iota. rewrite strip_prefix_app, Tr. cbv beta iota.
  (* line 3 *)
  destruct (join_props cmd (arg_ok_bytes _ Hc)) as [J1 J2].
  rewrite (read_hline_ok P_COMMAND (join cmd) _ P_COMMAND_ok J1 J2).
  cbv beta iota. rewrite strip_prefix_app, (split_join cmd Hc). cbv beta iota.
  (* line 4 *)
  destruct Hp as (Hb & Hz & Habs & Hn).
  destruct (encode_props base Hb) as [B1 B2].
  rewrite (read_hline_ok P_BASE_DIR (path_to_escaped base) _ P_BASE_DIR_ok B1 B2).
  cbv beta iota. rewrite strip_prefix_app, (path_decode_encode base (conj Hb (conj Hz (conj Habs Hn)))). cbv beta iota.
  (* line 5 *)
  assert (T5 : Forall (fun b => 32 <= b < 128) tail5).
  { unfold tail5. destruct (dec_props sg) as [_ D]. apply digits_range in D.
    repeat (apply Forall_app; split); try (repeat constructor; lia). eapply Forall_weaken; [|exact D]. cbv beta. intros; lia. }
  destruct (size_body_props sts stc tail5 T5) as [N5 S5]. fold b5 in N5, S5.
  rewrite (read_hline_ok P_TOTAL b5 _ P_TOTAL_ok N5 S5). cbv beta iota.
  unfold re_total. change (P_TOTAL ++ b5) with (size_line human P_TOTAL sts stc tail5).
  rewrite re_size_count_ok by reflexivity. unfold tail5. rewrite strip_prefix_app.
  rewrite take_digits_dec by reflexivity. cbv beta iota.
  change (strip_prefix S_GROUPS S_GROUPS) with (Some (@nil N)). cbv beta iota.
  rewrite (parse_u64_dec sts U3), (parse_u64_dec stc U2), (parse_u64_dec sg U1). cbv beta iota.
  (* line 6 *)
  assert (TF : Forall (fun b => 32 <= b < 128) S_FILES) by (repeat constructor; lia).
  destruct (size_body_props srs src S_FILES TF) as [N6 S6]. fold b6 in N6, S6.
  rewrite (read_hline_ok P_REDUNDANT b6 _ P_REDUNDANT_ok N6 S6). cbv beta iota.
  unfold re_two. change (P_REDUNDANT ++ b6) with (size_line human P_REDUNDANT srs src S_FILES).
  rewrite re_size_count_ok by reflexivity.
  change (strip_prefix S_FILES S_FILES) with (Some (@nil N)). cbv beta iota.
  rewrite (parse_u64_dec srs U5), (parse_u64_dec src U4). cbv beta iota.
  (* line 7 *)
  destruct (size_body_props sms smc S_FILES TF) as [N7 S7]. fold b7 in N7, S7.
  rewrite (read_hline_ok P_MISSING b7 _ P_MISSING_ok N7 S7). cbv beta iota.
  change (P_MISSING ++ b7) with (size_line human P_MISSING sms smc S_FILES).
  rewrite re_size_count_ok by reflexivity.
  change (strip_prefix S_FILES S_FILES) with (Some (@nil N)). cbv beta iota.
  rewrite (parse_u64_dec sms U7), (parse_u64_dec smc U6). reflexivity.
Qed.

End ReportProofs.
