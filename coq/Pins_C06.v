(* Pins_C06.v — the statements of Props_C06.v, pinned. *)
From FV Require Import Base ListLib GroupModel GroupProofs GroupProofs2 GroupProofs3 GroupProofs4 GroupProofs5 GroupWitness Props_C06.
Open Scope N_scope.
Check C06_count :
  forall (c : gcfg) (fs : list file),
    subgroup_count c fs
    = N.of_nat (length (filter (fun i => existsb (in_root (roots c) i) fs) (seq 0 (length (roots c))))
                + rest_count (roots c) (by_id c) fs) /\
    distinct_ids (filter (no_root (roots c)) fs) (rest_count (roots c) true fs) /\
    rest_count (roots c) false fs = length (filter (no_root (roots c)) fs).
Check C06_root_membership :
  forall (rs : list path) (f : file),
    (forall i, in_root rs i f = true <->
       exists r, nth_error rs i = Some r /\ is_prefix_of r (fpath f) = true /\
                 forall k r', (k < i)%nat -> nth_error rs k = Some r' -> is_prefix_of r' (fpath f) = false) /\
    (no_root rs f = true <-> forall r, In r rs -> is_prefix_of r (fpath f) = false) /\
    (forall r, is_prefix_of r (fpath f) = true <-> exists q, fpath f = r ++ q).
Check C06_links_one_replica :
  forall (c : gcfg) (fs : list file), roots c = [] -> by_id c = true -> fs <> [] -> one_id fs -> subgroup_count c fs = 1.
Check C06_match_links_counts_paths :
  forall (c : gcfg) (fs : list file), roots c = [] -> by_id c = false -> subgroup_count c fs = N.of_nat (length fs).
Check C06_isolate_at_most_one_per_root :
  forall (c : gcfg) (fs : list file), (forall f, In f fs -> no_root (roots c) f = false) ->
    subgroup_count c fs <= N.of_nat (length (roots c)).
Check C06_count_order_independent :
  forall (c : gcfg) (fs fs' : list file), NoDup fs -> Permutation.Permutation fs fs' -> subgroup_count c fs = subgroup_count c fs'.
Check C06_reported_iff :
  forall (H : list N -> hash) (T : list N -> option (list N)) (c : gcfg) (n : nd) (scanned : list file),
    wf_nd n -> (forall st f, fails n st f = false) ->
    wf_ids scanned -> wf_len scanned -> wf_paths scanned ->
    collision_free H c scanned -> transform c = false -> skip_content c = false ->
    let out := group_files H T c n scanned in
    (forall f, ok c scanned f -> ((exists g, In g out /\ In f (gfiles g)) <-> qualifies c scanned f)) /\
    (forall g f, In g out -> In f (gfiles g) -> is_class c scanned f (gfiles g) /\ matches_strictly c g = true).
Check C06_reported_iff_transform :
  forall (H : list N -> hash) (T : list N -> option (list N)) (c : gcfg) (n : nd) (scanned : list file),
    wf_nd n -> (forall st f, fails n st f = false) ->
    wf_ids scanned -> wf_paths scanned -> collision_free_T H T scanned -> transform c = true ->
    let out := group_files H T c n scanned in
    (forall f0, ok' c scanned f0 -> hasT T f0 = true ->
       ((exists g, In g out /\ In (tfile T f0) (gfiles g)) <-> qualifiesT T c scanned f0)) /\
    (forall g f0 cl, In g out -> ok' c scanned f0 -> In (tfile T f0) (gfiles g) -> is_classT T c scanned f0 cl ->
       Permutation.Permutation (gfiles g) (map (tfile T) cl)).
Check C06_filter_rule :
  forall (c : gcfg) (g : group),
    matches_strictly c g = match repl c with
                           | Over rf => rf <? subgroup_count c (gfiles g)
                           | Under rf => subgroup_count c (gfiles g) <? rf
                           end.
Check (eq_refl : distinct_ids = fun fs k =>
         exists ids, NoDup ids /\ (forall i, In i ids <-> exists f, In f fs /\ fid f = i) /\ length ids = k).

From FV Require WalkModel WalkProofs6.
Check C06_spelling_only_through_absolute :
  forall sel_file sel_dir ign1 (t : WalkModel.tree) (c : WalkModel.config) sched roots1 roots2,
    map (WalkModel.absolute t) roots1 = map (WalkModel.absolute t) roots2 ->
    WalkModel.walk sel_file sel_dir ign1 t c sched roots1 = WalkModel.walk sel_file sel_dir ign1 t c sched roots2 /\
    WalkModel.scan sel_file sel_dir ign1 t c sched roots1 = WalkModel.scan sel_file sel_dir ign1 t c sched roots2.
Check C06_spelling_dot :
  forall (t : WalkModel.tree) raw p,
    WalkModel.canon t raw = Some p -> WalkProofs6.dir_at t p ->
    WalkModel.absolute t (raw ++ [WalkModel.dot]) = WalkModel.absolute t raw.
Check C06_spelling_subdir_dotdot :
  forall (t : WalkModel.tree) raw x p,
    WalkModel.canon t raw = Some p -> WalkProofs6.dir_at t p -> WalkProofs6.dir_at t (p ++ [x]) ->
    WalkModel.comp_eqb x WalkModel.dot = false -> WalkModel.comp_eqb x WalkModel.dotdot = false ->
    WalkModel.absolute t (raw ++ [x; WalkModel.dotdot]) = WalkModel.absolute t raw.
Check C06_spelling_same_canonical_directory :
  forall (t : WalkModel.tree) raw1 raw2 p,
    WalkModel.canon t raw1 = Some p -> WalkModel.canon t raw2 = Some p -> WalkProofs6.dir_at t p ->
    WalkModel.absolute t raw1 = WalkModel.absolute t raw2.
Check (eq_refl : WalkProofs6.dir_at = fun t p => exists nd, WalkModel.lookup t p = Some nd /\ WalkModel.n_kind nd = WalkModel.KDir).
Check C06_spelling_dotdot_physical :
  forall (t : WalkModel.tree) raw q,
    WalkModel.canon t raw = Some q -> WalkProofs6.dir_at t q ->
    WalkModel.canon t (raw ++ [WalkModel.dotdot]) = Some (removelast q).
