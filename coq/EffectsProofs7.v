(* EffectsProofs7.v — engine X, part 7: a whole run of `move` commands, in ANY order and under ANY fault oracle:
   every stored content stays stored, regular files that are not sources and directories are untouched, and a
   command that reports Ok leaves the source's bytes in a regular file at its target, where they stay until the end
   of the run. *)
From Coq Require Import Permutation.
From FV Require Import Base FsModel AtomicModel AtomicProofs AtomicProofs2 AtomicProofs3 AtomicProofs4.
From FV Require Import EffectsModel EffectsProofs EffectsProofs2 EffectsProofs6.
Open Scope N_scope.

Lemma moves_ok_perm s cs cs' : Permutation cs cs' -> moves_ok s cs -> moves_ok s cs'.
Proof.
  intros HP (HF & HN & Hw). split; [|split; [|exact Hw]].
  - rewrite Forall_forall in *. intros c Hc. apply HF. eapply Permutation_in; [apply Permutation_sym|]; eauto.
  - eapply Permutation_NoDup; [apply Permutation_map, HP|exact HN].
Qed.

(* one step of the run *)
Lemma move_step sl o i s c cs : moves_ok s (c :: cs) ->
  let r := run o i (prog_of sl c) s in
  moves_ok (ofs r) cs /\ keeps s (ofs r) (victim c) /\ (forall b, stored s b -> stored (ofs r) b) /\
  (ores r = IOk ->
     forall i0 d0, names s (victim c) = Some (NFile i0) -> inodes s i0 = Some d0 ->
     exists j dj, names (ofs r) (move_target_of c) = Some (NFile j) /\ inodes (ofs r) j = Some dj /\ ibytes dj = ibytes d0 /\
                  forall k, names s (move_target_of c) <> Some (NFile k)).
Proof.
  intros (HF & HN & Hw). inversion HF as [|? ? Hc Hcs]; subst. cbn [map] in HN. inversion HN as [|? ? Hnin HN']; subst.
  destruct c as [| | | |src tgt rn now]; cbn [move_src_ok] in Hc; try contradiction.
  destruct Hc as (Hn & i0 & d0 & Ea & Ed). pose proof (clean_norm _ Hn) as Ca.
  pose proof (move_result s src tgt rn now i0 d0 Ea Ed Ca Hw sl o i) as (K & HE & HO).
  cbn zeta. cbn [victim move_target_of]. set (r := run o i (prog_of sl (FMove src tgt rn now)) s) in *.
  pose proof K as (K1 & K2 & K3 & K4 & K5 & K6 & K7).
  split; [|split; [exact K|split]].
  - split; [|split; [exact HN'|exact K6]]. rewrite Forall_forall in *. intros c' Hc'. specialize (Hcs c' Hc').
    destruct c' as [| | | |src' tgt' rn' now']; cbn [move_src_ok] in *; try contradiction.
    destruct Hcs as (Hn' & i' & d' & Ea' & Ed'). split; [exact Hn'|]. exists i', d'.
    assert (src' <> src).
    { intros E. apply Hnin. apply in_map_iff. exists (FMove src' tgt' rn' now'). split; [exact E|exact Hc']. }
    split; [apply K1; auto|]. rewrite K3; [exact Ed'|]. destruct Hw as [W _]. eapply W; eauto.
  - intros b (p & ip & d & Ep & Edp & Eb).
    destruct (path_eqb_spec p src) as [->|Hne].
    + assert (ip = i0) by congruence. subst ip. assert (d = d0) by congruence. subst d.
      destruct (ores r) eqn:Er.
      * destruct (HO eq_refl) as (q & j & dj & _ & Eq & Edj & Ebj & _). exists q, j, dj. repeat split; auto. congruence.
      * exists src, i0, d0. split; [auto|]. split; [|exact Eb]. rewrite K3; [exact Ed|]. destruct Hw as [W _]. eapply W; eauto.
    + exists p, ip, d. split; [apply K1; auto|]. split; [|exact Eb]. rewrite K3; [exact Edp|]. destruct Hw as [W _]. eapply W; eauto.
  - intros Er i1 d1 Ea1 Ed1. assert (i1 = i0) by congruence. subst i1. assert (d1 = d0) by congruence. subst d1.
    destruct (HO Er) as (q & j & dj & _ & Eq & Edj & Ebj & Hnf & Hq). subst q.
    exists j, dj. repeat split; auto.
Qed.

Lemma keeps_untouched s st src q i : wf s -> keeps s st src -> q <> src -> names s q = Some (NFile i) -> untouched s st q.
Proof.
  intros Hw (K1 & _ & K3 & _) Hne E. split; [rewrite E; apply K1; auto|].
  intros j Ej. apply K3. destruct Hw as [W _]. eapply W; eauto.
Qed.

Theorem moves_run sl o : forall cs i s, moves_ok s cs ->
  let out := run_script sl o i cs s in
  (forall b, stored s b -> stored (sfs out) b) /\
  (forall q j, ~ In q (map victim cs) -> names s q = Some (NFile j) -> untouched s (sfs out) q) /\
  (forall q, names s q = Some NDir -> names (sfs out) q = Some NDir) /\
  (forall q x, names (sfs out) q = Some (NLink x) -> names s q = Some (NLink x)) /\ wf (sfs out).
Proof.
  induction cs as [|c cs IH]; intros i s Hok; cbn [run_script sfs].
  - split; [auto|]. split; [intros; apply same_file_refl|]. split; [auto|]. split; [auto|apply Hok].
  - destruct (move_step sl o i s c cs Hok) as (Hok' & K & Hst & _).
    set (r := run o i (prog_of sl c) s) in *.
    destruct (IH (oidx r) (ofs r) Hok') as (I1 & I2 & I3 & I4 & I5).
    pose proof K as (K1 & K2 & K3 & K4 & K5 & K6 & K7).
    assert (Hw : wf s) by apply Hok.
    split; [auto|]. split; [|split; [auto|split; [auto|exact I5]]].
    intros q j Hq E. cbn [map In] in Hq.
    assert (Hqs : q <> victim c) by (intros ->; apply Hq; left; reflexivity).
    assert (Hqc : ~ In q (map victim cs)) by (intros H; apply Hq; right; exact H).
    pose proof (keeps_untouched s (ofs r) (victim c) q j Hw K Hqs E) as [U1 U2].
    assert (E1 : names (ofs r) q = Some (NFile j)) by congruence.
    destruct (I2 q j Hqc E1) as [V1 V2]. split; [congruence|].
    intros k Ek. assert (k = j) by congruence. subst k. rewrite (V2 j E1). apply U2. exact E.
Qed.

(* the k-th command reported Ok: its bytes are in a regular file at its target at the END of the run *)
Theorem moves_readable sl o : forall cs i s, moves_ok s cs ->
  let out := run_script sl o i cs s in
  forall c r, In (c, r) (combine cs (sresults out)) -> r = IOk ->
  forall i0 d0, names s (victim c) = Some (NFile i0) -> inodes s i0 = Some d0 ->
  exists j dj, names (sfs out) (move_target_of c) = Some (NFile j) /\ inodes (sfs out) j = Some dj /\ ibytes dj = ibytes d0.
Proof.
  induction cs as [|c0 cs IH]; intros i s Hok; cbn [run_script sfs sresults combine]; [intros c r []|].
  destruct (move_step sl o i s c0 cs Hok) as (Hok' & K & Hst & Hrd).
  set (r0 := run o i (prog_of sl c0) s) in *.
  pose proof K as (K1 & K2 & K3 & K4 & K5 & K6 & K7).
  assert (Hw : wf s) by apply Hok.
  intros c r [E|Hin] Hr i0 d0 Ea Ed.
  - injection E as <- <-.
    destruct (Hrd Hr i0 d0 Ea Ed) as (j & dj & Ej & Edj & Ebj & Hnf).
    (* the target is not a source of a later command: those are regular files of s, the target is not *)
    assert (Hnot : ~ In (move_target_of c0) (map victim cs)).
    { intros Hv. apply in_map_iff in Hv. destruct Hv as (c' & Ec' & Hc').
      destruct Hok as (HF & _). rewrite Forall_forall in HF. specialize (HF c' (or_intror Hc')).
      destruct c' as [| | | |src' tgt' rn' now']; cbn [move_src_ok] in HF; try contradiction.
      destruct HF as (_ & i' & d' & Ea' & _). cbn [victim] in Ec'. apply (Hnf i'). congruence. }
    destruct (moves_run sl o cs (oidx r0) (ofs r0) Hok') as (_ & U & _).
    destruct (U _ j Hnot Ej) as [U1 U2]. exists j, dj. split; [congruence|]. split; [|exact Ebj]. rewrite (U2 j Ej). exact Edj.
  - assert (Hc : In c cs) by (eapply in_combine_l; eauto).
    assert (Hne : victim c <> victim c0).
    { destruct Hok as (_ & HN & _). cbn [map] in HN. inversion HN as [|? ? Hx _]; subst. intros E. apply Hx. rewrite <- E. now apply in_map. }
    assert (Ea' : names (ofs r0) (victim c) = Some (NFile i0)) by (apply K1; auto).
    assert (Ed' : inodes (ofs r0) i0 = Some d0).
    { rewrite K3; [exact Ed|]. destruct Hw as [W _]. eapply W; eauto. }
    exact (IH (oidx r0) (ofs r0) Hok' c r Hin Hr i0 d0 Ea' Ed').
Qed.
