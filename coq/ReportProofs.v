(* ReportProofs.v — proofs about ReportModel.v (engine Rp, property C14). *)
From Coq Require Import Permutation Sorted.
From FV Require Import Base ReportModel.
Open Scope N_scope.

(* ------------------------------------------------------------------------------------------
   1. comparisons are total orders *)
Record good_cmp {A} (c : A -> A -> comparison) : Prop :=
  { c_eq : forall x y, c x y = Eq <-> x = y;
    c_anti : forall x y, c y x = CompOpp (c x y);
    c_trans : forall x y z, c x y = Lt -> c y z = Lt -> c x z = Lt }.

Lemma good_N : good_cmp N.compare.
Proof.
  split.
  - intros; apply N.compare_eq_iff.
  - intros; apply N.compare_antisym.
  - intros x y z H1 H2. rewrite N.compare_lt_iff in *. lia.
Qed.

Lemma lcmp_good {A} (c : A -> A -> comparison) : good_cmp c -> good_cmp (lcmp c).
Proof.
  intros [Heq Hanti Htr]. split.
  - induction x as [|a x IH]; destruct y as [|b y]; cbn [lcmp]; try (split; congruence).
    destruct (c a b) eqn:E.
    + apply Heq in E. subst. rewrite IH. split; congruence.
    + split; [discriminate|]. intros H. injection H as -> _. assert (c b b = Eq) by (apply Heq; auto). congruence.
    + split; [discriminate|]. intros H. injection H as -> _. assert (c b b = Eq) by (apply Heq; auto). congruence.
  - induction x as [|a x IH]; destruct y as [|b y]; cbn [lcmp CompOpp]; auto.
    rewrite (Hanti a b). destruct (c a b); cbn [CompOpp]; auto.
  - induction x as [|a x IH]; destruct y as [|b y]; destruct z as [|d z]; cbn [lcmp]; try congruence.
    destruct (c a b) eqn:E1; destruct (c b d) eqn:E2; try discriminate.
    + apply Heq in E1. apply Heq in E2. subst. assert (c d d = Eq) as -> by (apply Heq; auto). apply IH.
    + apply Heq in E1. subst. rewrite E2. auto.
    + apply Heq in E2. subst. rewrite E1. auto.
    + rewrite (Htr _ _ _ E1 E2). auto.
Qed.

Lemma good_bytes : good_cmp bytes_cmp. Proof. apply lcmp_good, good_N. Qed.
Lemma good_comps : good_cmp comps_cmp. Proof. apply lcmp_good, good_bytes. Qed.

Lemma good_path : good_cmp path_cmp.
Proof.
  destruct good_comps as [Heq Hanti Htr]. unfold path_cmp. split.
  - intros x y. destruct (Nat.compare_spec (length x) (length y)) as [E|E|E].
    + apply Heq.
    + split; [discriminate|]. intros ->. lia.
    + split; [discriminate|]. intros ->. lia.
  - intros x y. rewrite (Nat.compare_antisym (length x) (length y)).
    destruct (Nat.compare (length x) (length y)); cbn [CompOpp]; auto.
  - intros x y z.
    destruct (Nat.compare_spec (length x) (length y)) as [E1|E1|E1];
    destruct (Nat.compare_spec (length y) (length z)) as [E2|E2|E2]; try discriminate; intros H1 H2;
    destruct (Nat.compare_spec (length x) (length z)) as [E3|E3|E3]; try lia; auto.
    eapply Htr; eauto.
Qed.

Lemma path_leb_total a b : path_leb a b = true \/ path_leb b a = true.
Proof.
  unfold path_leb. rewrite (c_anti _ good_path a b). destruct (path_cmp a b); cbn; auto.
Qed.

Lemma path_leb_trans a b c : path_leb a b = true -> path_leb b c = true -> path_leb a c = true.
Proof.
  unfold path_leb. intros H1 H2.
  destruct (path_cmp a b) eqn:E1; try discriminate; destruct (path_cmp b c) eqn:E2; try discriminate.
  - apply (c_eq _ good_path) in E1. subst. rewrite E2. auto.
  - apply (c_eq _ good_path) in E1. subst. rewrite E2. auto.
  - apply (c_eq _ good_path) in E2. subst. rewrite E1. auto.
  - rewrite (c_trans _ good_path _ _ _ E1 E2). auto.
Qed.

Lemma path_leb_antisym a b : path_leb a b = true -> path_leb b a = true -> a = b.
Proof.
  unfold path_leb. rewrite (c_anti _ good_path a b). destruct (path_cmp a b) eqn:E; cbn; try discriminate.
  intros _ _. apply (c_eq _ good_path). auto.
Qed.

(* ------------------------------------------------------------------------------------------
   2. insertion sort: permutation, sortedness, identity on sorted input, uniqueness *)
Section SortProofs.
  Context {A : Type} (leb : A -> A -> bool).
  Hypothesis leb_total : forall x y, leb x y = true \/ leb y x = true.
  Hypothesis leb_trans : forall x y z, leb x y = true -> leb y z = true -> leb x z = true.
  Let le x y := leb x y = true.

  Lemma insert_perm x l : Permutation (insert leb x l) (x :: l).
  Proof.
    induction l as [|y t IH]; cbn [insert]; auto.
    destruct (leb y x); auto. rewrite IH. apply perm_swap.
  Qed.

  Lemma isort_aux_perm l acc : Permutation (isort_aux leb l acc) (l ++ acc).
  Proof.
    revert acc. induction l as [|x t IH]; intros acc; cbn [isort_aux app]; auto.
    rewrite IH, insert_perm. apply Permutation_sym, Permutation_middle.
  Qed.

  Lemma isort_perm l : Permutation (isort leb l) l.
  Proof. unfold isort. rewrite isort_aux_perm, app_nil_r. auto. Qed.

  Lemma insert_sorted x l : StronglySorted le l -> StronglySorted le (insert leb x l).
  Proof.
    induction 1 as [|y t Ht IH Hy]; cbn [insert].
    - constructor; constructor.
    - destruct (leb y x) eqn:E.
      + constructor; auto. rewrite Forall_forall in *. intros z Hz.
        apply (Permutation_in _ (insert_perm x t)) in Hz. destruct Hz as [<-|Hz]; [exact E|auto].
      + constructor; [constructor; auto|].
        assert (le x y) by (destruct (leb_total x y); [auto|congruence]).
        constructor; auto. rewrite Forall_forall in *. intros z Hz. eapply leb_trans; eauto. apply Hy; auto.
  Qed.

  Lemma isort_aux_sorted l acc : StronglySorted le acc -> StronglySorted le (isort_aux leb l acc).
  Proof. revert acc. induction l as [|x t IH]; intros acc H; cbn [isort_aux]; auto. apply IH, insert_sorted, H. Qed.

  Lemma isort_sorted l : StronglySorted le (isort leb l).
  Proof. apply isort_aux_sorted. constructor. Qed.

  Lemma insert_last x l : Forall (fun y => le y x) l -> insert leb x l = l ++ [x].
  Proof.
    induction 1 as [|y t Hy _ IH]; cbn [insert app]; auto. unfold le in Hy. rewrite Hy, IH. auto.
  Qed.

  (* stable: a list that is already sorted is left alone *)
  Lemma isort_aux_sorted_id l acc : StronglySorted le (acc ++ l) -> isort_aux leb l acc = acc ++ l.
  Proof.
    revert acc. induction l as [|x t IH]; intros acc H; cbn [isort_aux].
    - now rewrite app_nil_r.
    - rewrite insert_last.
      + rewrite IH; rewrite <- app_assoc; auto.
      + clear IH. induction acc as [|a acc IHa]; [constructor|].
        cbn [app] in H. inversion H as [|? ? Hs Hf]; subst. constructor.
        * rewrite Forall_forall in Hf. apply Hf. apply in_or_app. right. left. auto.
        * apply IHa. auto.
  Qed.

  Lemma isort_sorted_id l : StronglySorted le l -> isort leb l = l.
  Proof. intros H. unfold isort. now rewrite isort_aux_sorted_id. Qed.
End SortProofs.

(* Two sorted permutations of each other are equal when the order is antisymmetric on the
   elements present. *)
Lemma sorted_perm_unique {A} (le : A -> A -> Prop) (l1 l2 : list A) :
  (forall x y, In x l1 -> In y l1 -> le x y -> le y x -> x = y) ->
  StronglySorted le l1 -> StronglySorted le l2 -> Permutation l1 l2 -> l1 = l2.
Proof.
  revert l2. induction l1 as [|x t1 IH]; intros l2 Hanti S1 S2 P.
  - apply Permutation_nil in P. auto.
  - destruct l2 as [|y t2]; [apply Permutation_sym, Permutation_nil in P; discriminate|].
    inversion S1 as [|? ? S1' F1]; subst. inversion S2 as [|? ? S2' F2]; subst.
    rewrite Forall_forall in F1, F2.
    assert (x = y) as ->.
    { destruct (Permutation_in y (Permutation_sym P) (or_introl eq_refl)) as [|Hy]; auto.
      destruct (Permutation_in x P (or_introl eq_refl)) as [|Hx]; auto.
      apply Hanti; cbn; auto. }
    f_equal. apply IH; auto.
    + intros a b Ha Hb. apply Hanti; cbn; auto.
    + eapply Permutation_cons_inv; eauto.
Qed.

(* ------------------------------------------------------------------------------------------
   3. sort_groups: decreasing (len, hash prefix), permutation *)
Definition group_ge (g h : group) : Prop :=
  glen h < glen g \/ (glen g = glen h /\ hash_prefix (ghash h) <= hash_prefix (ghash g)).

Lemma group_geb_spec g h : group_geb g h = true <-> group_ge g h.
Proof.
  unfold group_geb, group_ge.
  destruct (N.ltb_spec (glen h) (glen g)); [split; auto|].
  destruct (N.ltb_spec (glen g) (glen h)).
  - split; [discriminate|]. intros [|[? _]]; lia.
  - rewrite N.leb_le. split; [intros; right; split; [lia|auto]|intros [|[_ ?]]; [lia|auto]].
Qed.

Lemma group_geb_total g h : group_geb g h = true \/ group_geb h g = true.
Proof. rewrite !group_geb_spec. unfold group_ge. lia. Qed.

Lemma group_geb_trans a b c : group_geb a b = true -> group_geb b c = true -> group_geb a c = true.
Proof. rewrite !group_geb_spec. unfold group_ge. lia. Qed.

Lemma sort_groups_sorted gs : StronglySorted group_ge (sort_groups gs).
Proof.
  pose proof (isort_sorted group_geb group_geb_total group_geb_trans gs) as H.
  unfold sort_groups. induction H as [|g t _ IH F]; constructor; auto.
  rewrite Forall_forall in *. intros h Hh. apply group_geb_spec. auto.
Qed.

Lemma sort_groups_perm gs : Permutation (sort_groups gs) gs.
Proof. apply isort_perm. Qed.

(* ------------------------------------------------------------------------------------------
   4. sub-groups *)
Lemma concat_filter_nonempty {A} (l : list (list A)) : concat (filter nonempty l) = concat l.
Proof.
  induction l as [|x l IH]; cbn [filter concat]; auto. destruct x; cbn [nonempty concat app]; auto. now rewrite IH.
Qed.

Lemma add_by_id_perm f gs : Permutation (concat (add_by_id f gs)) (f :: concat gs).
Proof.
  induction gs as [|g gs IH]; cbn [add_by_id concat app]; auto.
  destruct g as [|h g'].
  - cbn [concat app]. auto.
  - destruct (id_eqb (fid h) (fid f)); cbn [concat].
    + rewrite <- app_assoc. change ([f] ++ concat gs) with (f :: concat gs).
      apply Permutation_sym, Permutation_middle.
    + rewrite IH. apply Permutation_sym, Permutation_middle.
Qed.

Lemma group_by_id_perm_gen l acc : Permutation (concat (fold_left (fun a f => add_by_id f a) l acc)) (concat acc ++ l).
Proof.
  revert acc. induction l as [|x l IH]; intros acc; cbn [fold_left].
  - now rewrite app_nil_r.
  - rewrite IH, add_by_id_perm. cbn [app]. apply Permutation_middle.
Qed.

Lemma group_by_id_perm l : Permutation (concat (group_by_id l)) l.
Proof. unfold group_by_id. rewrite group_by_id_perm_gen. auto. Qed.

Lemma root_idx_from_bound rs p : forall i j, root_idx_from i rs p = Some j -> (i <= j < i + length rs)%nat.
Proof.
  induction rs as [|r rs IH]; intros i j H; cbn [root_idx_from length] in *; [discriminate|].
  destruct (is_prefix_of r p); [injection H as <-; lia|]. apply IH in H. lia.
Qed.

(* bucketing a list by an index function is a permutation *)
Section Bucket.
  Context {A : Type} (key : A -> option nat).
  Definition bucket (l : list A) (i : nat) : list A := filter (fun x => opt_nat_eqb (key x) i) l.

  Lemma bucket_cons_other x l i : key x <> Some i -> bucket (x :: l) i = bucket l i.
  Proof.
    unfold bucket. cbn [filter]. intros H. destruct (key x) as [k|]; cbn [opt_nat_eqb]; auto.
    destruct (Nat.eqb_spec k i); auto. congruence.
  Qed.

  Lemma bucket_cons_same x l i : key x = Some i -> bucket (x :: l) i = x :: bucket l i.
  Proof. unfold bucket. cbn [filter]. intros ->. cbn [opt_nat_eqb]. now rewrite Nat.eqb_refl. Qed.

  Lemma buckets_cons_notin x l idx : (forall i, In i idx -> key x <> Some i) ->
    map (bucket (x :: l)) idx = map (bucket l) idx.
  Proof. intros H. apply map_ext_in. intros i Hi. apply bucket_cons_other. auto. Qed.

  Lemma buckets_cons_in x l idx k : key x = Some k -> NoDup idx -> In k idx ->
    Permutation (concat (map (bucket (x :: l)) idx)) (x :: concat (map (bucket l) idx)).
  Proof.
    intros Ek. induction idx as [|i idx IH]; intros Hnd Hk; [destruct Hk|].
    inversion Hnd as [|? ? Hni Hnd']; subst. cbn [map concat].
    destruct (Nat.eq_dec i k) as [->|Hne].
    - rewrite (bucket_cons_same _ _ _ Ek). rewrite buckets_cons_notin; [reflexivity|].
      intros j Hj E. rewrite Ek in E. injection E as ->. auto.
    - rewrite bucket_cons_other by (rewrite Ek; congruence).
      destruct Hk as [|Hk]; [congruence|]. rewrite (IH Hnd' Hk). apply Permutation_sym, Permutation_middle.
  Qed.

  Lemma bucket_perm (l : list A) (idx : list nat) :
    NoDup idx -> (forall x i, In x l -> key x = Some i -> In i idx) ->
    Permutation (concat (map (bucket l) idx) ++ filter (fun x => is_none (key x)) l) l.
  Proof.
    intros Hnd. induction l as [|x l IH]; intros Hin.
    - cbn [filter]. rewrite app_nil_r. clear. induction idx as [|i idx IHi]; cbn [map concat bucket filter app]; auto.
    - assert (IH' := IH (fun y i Hy => Hin y i (or_intror Hy))). clear IH.
      destruct (key x) as [k|] eqn:Ek.
      + assert (Hk : In k idx) by (apply (Hin x k); cbn; auto).
        cbn [filter]. rewrite Ek. cbn [is_none].
        rewrite (buckets_cons_in x l idx k Ek Hnd Hk). cbn [app]. apply perm_skip, IH'.
      + cbn [filter]. rewrite Ek. cbn [is_none].
        rewrite buckets_cons_notin by (intros; congruence).
        eapply Permutation_trans; [apply Permutation_sym, Permutation_middle|]. apply perm_skip, IH'.
  Qed.
End Bucket.

Lemma subgroups_perm files rs : Permutation (concat (subgroups files rs true)) files.
Proof.
  unfold subgroups. rewrite concat_filter_nonempty, concat_app.
  rewrite group_by_id_perm.
  apply (bucket_perm (fun f => root_idx rs (fpath f)) files (seq 0 (length rs))).
  - apply seq_NoDup.
  - intros x i _ H. apply root_idx_from_bound in H. apply in_seq. lia.
Qed.

Lemma subgroups_perm_false files rs : Permutation (concat (subgroups files rs false)) files.
Proof.
  unfold subgroups. rewrite concat_filter_nonempty, concat_app.
  assert (concat (map (fun f => [f]) (filter (fun f => is_none (root_idx rs (fpath f))) files))
          = filter (fun f => is_none (root_idx rs (fpath f))) files) as ->.
  { induction (filter _ files) as [|a l IH]; cbn [map concat app]; auto. now rewrite IH. }
  apply (bucket_perm (fun f => root_idx rs (fpath f)) files (seq 0 (length rs))).
  - apply seq_NoDup.
  - intros x i _ H. apply root_idx_from_bound in H. apply in_seq. lia.
Qed.

(* ------------------------------------------------------------------------------------------
   5. sort_by_path depends only on the set of files *)
Definition file_le (f g : file) : Prop := file_leb f g = true.

Lemma sort_by_path_perm rs l : Permutation (sort_by_path rs l) l.
Proof.
  unfold sort_by_path. destruct rs as [|r rs].
  - apply isort_perm.
  - rewrite subgroups_perm. apply isort_perm.
Qed.

Lemma isort_files_unique l1 l2 : NoDup (map fpath l1) -> Permutation l1 l2 -> isort file_leb l1 = isort file_leb l2.
Proof.
  intros Hnd P.
  assert (Htot : forall x y, file_leb x y = true \/ file_leb y x = true) by (intros; apply path_leb_total).
  assert (Htr : forall x y z, file_leb x y = true -> file_leb y z = true -> file_leb x z = true)
    by (intros x y z; apply path_leb_trans).
  apply (sorted_perm_unique file_le).
  - intros x y Hx Hy H1 H2.
    assert (fpath x = fpath y) by (apply path_leb_antisym; auto).
    apply (Permutation_in _ (isort_perm file_leb l1)) in Hx, Hy.
    (* equal paths in a list without repeated paths: same element *)
    clear -Hnd Hx Hy H. induction l1 as [|a l IH]; [destruct Hx|].
    cbn [map] in Hnd. inversion Hnd as [|? ? Hni Hnd']; subst.
    destruct Hx as [->|Hx], Hy as [->|Hy]; auto.
    + exfalso. apply Hni. rewrite H. apply in_map; auto.
    + exfalso. apply Hni. rewrite <- H. apply in_map; auto.
  - apply isort_sorted; auto.
  - apply isort_sorted; auto.
  - rewrite !isort_perm. auto.
Qed.

Theorem sort_by_path_set_only rs l1 l2 :
  NoDup (map fpath l1) -> Permutation l1 l2 -> sort_by_path rs l1 = sort_by_path rs l2.
Proof.
  intros Hnd P. unfold sort_by_path. rewrite (isort_files_unique l1 l2 Hnd P). reflexivity.
Qed.

Theorem sort_by_path_idempotent rs l : NoDup (map fpath l) -> sort_by_path rs (sort_by_path rs l) = sort_by_path rs l.
Proof.
  intros Hnd. symmetry. apply sort_by_path_set_only; auto. apply Permutation_sym, sort_by_path_perm.
Qed.

(* shape: sorted members of root 0, then of root 1, ..., then the files under no root grouped by
   file id in order of first appearance (each block in path order) *)
Theorem sort_by_path_shape r rs l :
  let s := isort file_leb l in
  sort_by_path (r :: rs) l =
    concat (map (fun i => filter (fun f => opt_nat_eqb (root_idx (r :: rs) (fpath f)) i) s) (seq 0 (length (r :: rs))))
    ++ concat (group_by_id (filter (fun f => is_none (root_idx (r :: rs) (fpath f))) s)).
Proof.
  cbn zeta. unfold sort_by_path, subgroups. rewrite concat_filter_nonempty, concat_app. reflexivity.
Qed.

Theorem sort_by_path_sorted_no_roots l : StronglySorted file_le (sort_by_path [] l).
Proof.
  apply isort_sorted.
  - intros; apply path_leb_total.
  - intros x y z; apply path_leb_trans.
Qed.

(* ------------------------------------------------------------------------------------------
   6. finalize is idempotent (so "the body is a fixpoint of finalize" is a meaningful check) *)
Definition fin1 (flt : gfilter) (g : group) : group := mkGroup (glen g) (ghash g) (sort_by_path (roots flt) (gfiles g)).

Lemma group_ge_fin1 flt g h : group_ge (fin1 flt g) (fin1 flt h) <-> group_ge g h.
Proof. unfold group_ge, fin1. cbn. tauto. Qed.

Theorem finalize_idempotent flt gs :
  Forall (fun g => NoDup (map fpath (gfiles g))) gs -> finalize flt (finalize flt gs) = finalize flt gs.
Proof.
  intros Hnd. unfold finalize. fold (fin1 flt).
  assert (Hs : sort_groups (map (fin1 flt) (sort_groups gs)) = map (fin1 flt) (sort_groups gs)).
  { unfold sort_groups at 1. apply isort_sorted_id.
    pose proof (sort_groups_sorted gs) as H. induction H as [|g t _ IH F]; cbn [map]; constructor; auto.
    rewrite Forall_forall in *. intros h Hh. apply in_map_iff in Hh as (h0 & <- & Hh0).
    apply group_geb_spec, group_ge_fin1, F, Hh0. }
  rewrite Hs, map_map. apply map_ext_in. intros g Hg.
  unfold fin1. cbn [glen ghash gfiles]. f_equal. apply sort_by_path_idempotent.
  rewrite Forall_forall in Hnd. apply Hnd. apply (Permutation_in _ (sort_groups_perm gs)). exact Hg.
Qed.

Theorem finalize_sorted flt gs : StronglySorted group_ge (finalize flt gs).
Proof.
  unfold finalize. fold (fin1 flt).
  pose proof (sort_groups_sorted gs) as H. induction H as [|g t _ IH F]; cbn [map]; constructor; auto.
  rewrite Forall_forall in *. intros h Hh. apply in_map_iff in Hh as (h0 & <- & Hh0).
  apply group_ge_fin1, F, Hh0.
Qed.

(* finalize does not depend on the order in which groups / files arrive, as long as the sort keys
   of distinct groups are distinct *)
Theorem finalize_perm_files flt g l2 :
  NoDup (map fpath (gfiles g)) -> Permutation (gfiles g) l2 -> fin1 flt g = fin1 flt (mkGroup (glen g) (ghash g) l2).
Proof. intros Hnd P. unfold fin1. cbn. f_equal. apply sort_by_path_set_only; auto. Qed.

(* ------------------------------------------------------------------------------------------
   7. statistics *)
Lemma sum_lengths_singletons (l : list file) k :
  sum_lengths (skipn k (map (fun f => [f]) l)) = N.of_nat (length l) - N.of_nat k.
Proof.
  revert k. induction l as [|a l IH]; intros k.
  - rewrite skipn_nil. cbn. lia.
  - destruct k as [|k]; cbn [map skipn].
    + cbn [sum_lengths fold_right length]. fold (sum_lengths (map (fun f => [f]) l)).
      specialize (IH 0%nat). cbn [skipn] in IH. rewrite IH. cbn [length]. lia.
    + rewrite IH. cbn [length]. lia.
Qed.

Lemma root_idx_nil p : root_idx [] p = None. Proof. reflexivity. Qed.

Lemma filter_all {A} (p : A -> bool) l : (forall x, p x = true) -> filter p l = l.
Proof. intros H. induction l as [|a l IH]; cbn [filter]; auto. rewrite H, IH. auto. Qed.

Lemma filter_nonempty_singletons (l : list file) : filter nonempty (map (fun f => [f]) l) = map (fun f => [f]) l.
Proof. induction l as [|a l IH]; cbn [map filter nonempty]; auto. now rewrite IH. Qed.

Lemma subgroups_no_roots_false files : subgroups files [] false = map (fun f => [f]) files.
Proof.
  unfold subgroups. cbn [length seq map app].
  rewrite (filter_all (fun f : file => is_none (root_idx [] (fpath f)))) by (intros; reflexivity).
  apply filter_nonempty_singletons.
Qed.

(* with pairwise distinct file ids the id-grouping makes singletons in order *)
Definition heads_differ (f : file) (gs : list (list file)) : Prop :=
  forall g h, In g gs -> hd_error g = Some h -> id_eqb (fid h) (fid f) = false.

Lemma add_by_id_fresh f gs : heads_differ f gs -> Forall (fun g => g <> []) gs -> add_by_id f gs = gs ++ [[f]].
Proof.
  induction gs as [|g gs IH]; intros Hd Hne; cbn [add_by_id app]; auto.
  inversion Hne as [|? ? Hg Hne']; subst. destruct g as [|h g']; [congruence|].
  rewrite (Hd (h :: g') h (or_introl eq_refl) eq_refl). f_equal. apply IH; auto.
  intros g0 h0 Hin. apply Hd. right. auto.
Qed.

Lemma id_eqb_false_iff a b : id_eqb a b = false <-> a <> b.
Proof.
  unfold id_eqb. destruct a as [a1 a2], b as [b1 b2]. cbn [fst snd].
  destruct (N.eqb_spec a1 b1), (N.eqb_spec a2 b2); cbn; split; congruence.
Qed.

Lemma group_by_id_nodup_gen l : forall acc : list file,
  NoDup (map fid (acc ++ l)) ->
  fold_left (fun a f => add_by_id f a) l (map (fun f => [f]) acc) = map (fun f => [f]) (acc ++ l).
Proof.
  induction l as [|x l IH]; intros acc Hnd; cbn [fold_left].
  - now rewrite app_nil_r.
  - rewrite add_by_id_fresh.
    + replace (map (fun f => [f]) acc ++ [[x]]) with (map (fun f => [f]) (acc ++ [x])) by (rewrite map_app; reflexivity).
      rewrite IH; rewrite <- app_assoc; cbn [app]; auto.
    + intros g h Hg Hh. apply in_map_iff in Hg as (a & <- & Ha). cbn in Hh. injection Hh as <-.
      apply id_eqb_false_iff. intros E.
      rewrite map_app in Hnd. cbn [map] in Hnd. apply NoDup_remove_2 in Hnd. apply Hnd.
      apply in_or_app. left. rewrite <- E. apply in_map. exact Ha.
    + rewrite Forall_forall. intros g Hg. apply in_map_iff in Hg as (a & <- & _). discriminate.
Qed.

Lemma subgroups_no_roots_nodup files : NoDup (map fid files) -> subgroups files [] true = map (fun f => [f]) files.
Proof.
  intros Hnd. unfold subgroups. cbn [length seq map app].
  rewrite (filter_all (fun f : file => is_none (root_idx [] (fpath f)))) by (intros; reflexivity).
  unfold group_by_id. pose proof (group_by_id_nodup_gen files [] Hnd) as H. cbn [map app] in H. rewrite H.
  apply filter_nonempty_singletons.
Qed.

(* the fast path (no roots, --match-links) agrees with the documented rule: every path is a sub-group *)
Theorem redundant_count_spec g flt : redundant_count g flt = redundant_spec g flt.
Proof.
  unfold redundant_count, redundant_spec. destruct (repl flt) as [rf|rf]; auto.
  destruct (roots flt) as [|r rs] eqn:Er; auto.
  destruct (by_id flt) eqn:Eb; auto.
  unfold file_count. rewrite subgroups_no_roots_false. rewrite sum_lengths_singletons. rewrite N2Nat.id. reflexivity.
Qed.

Theorem stats_redundant_spec flt gs :
  s_red_files (stats_of flt gs) = fold_right (fun g a => redundant_spec g flt + a) 0 gs /\
  s_red_size (stats_of flt gs) = fold_right (fun g a => glen g * redundant_spec g flt + a) 0 gs.
Proof.
  cbn [stats_of s_red_files s_red_size]. induction gs as [|g gs [IH1 IH2]]; cbn [fold_right]; auto.
  rewrite IH1, IH2, (redundant_count_spec g flt). auto.
Qed.

(* the other statistics are by definition sums over the printed groups *)
Theorem stats_totals flt gs :
  s_groups (stats_of flt gs) = N.of_nat (length gs) /\
  s_files (stats_of flt gs) = fold_right (fun g a => N.of_nat (length (gfiles g)) + a) 0 gs /\
  s_size (stats_of flt gs) = fold_right (fun g a => glen g * N.of_nat (length (gfiles g)) + a) 0 gs /\
  s_mis_files (stats_of flt gs) = fold_right (fun g a => missing_count g flt + a) 0 gs /\
  s_mis_size (stats_of flt gs) = fold_right (fun g a => glen g * missing_count g flt + a) 0 gs.
Proof. repeat split. Qed.

(* redundant/missing agree with the filter's replica count *)
Theorem missing_count_spec g flt rf : repl flt = Under rf ->
  missing_count g flt = rf - subgroup_count g flt /\ (matches_strictly g flt = true <-> 0 < missing_count g flt).
Proof.
  intros E. unfold missing_count, matches_strictly. rewrite E. split; auto.
  rewrite N.ltb_lt. lia.
Qed.

Lemma sum_lengths_skipn_pos (sgs : list (list file)) : Forall (fun sg => sg <> []) sgs ->
  forall k, (k < length sgs)%nat <-> 0 < sum_lengths (skipn k sgs).
Proof.
  induction 1 as [|sg sgs Hsg _ IH]; intros k.
  - rewrite skipn_nil. cbn. lia.
  - destruct k as [|k].
    + cbn [skipn sum_lengths fold_right length]. destruct sg; [congruence|]. cbn [length]. lia.
    + cbn [skipn length]. rewrite <- IH. lia.
Qed.

Theorem redundant_spec_zero_iff g flt rf : repl flt = Over rf -> 1 <= rf ->
  (matches_strictly g flt = true <-> 0 < redundant_spec g flt).
Proof.
  intros E Hrf. unfold matches_strictly, redundant_spec, subgroup_count. rewrite E.
  rewrite N.max_l by lia. rewrite N.ltb_lt.
  set (sgs := subgroups (gfiles g) (roots flt) (by_id flt)).
  assert (Hne : Forall (fun sg : list file => sg <> []) sgs).
  { unfold sgs, subgroups. rewrite Forall_forall. intros sg Hsg. apply filter_In in Hsg as [_ Hsg].
    destruct sg; [discriminate|congruence]. }
  rewrite <- (sum_lengths_skipn_pos sgs Hne). lia.
Qed.
