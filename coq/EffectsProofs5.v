(* EffectsProofs5.v — engine X, part 5: the clauses of C02 for a whole run of remove / link / link --soft /
   dedupe on a report (every order of execution), with the K2 / K7 exceptions. *)
From Coq Require Import Permutation.
From FV Require Import Base SortLib DedupeModel DedupeProofs.
From FV Require Import FsModel AtomicModel AtomicProofs AtomicProofs2 AtomicProofs3 AtomicProofs4.
From FV Require Import EffectsModel EffectsProofs EffectsProofs2 EffectsProofs3 EffectsProofs4.
Open Scope N_scope.

Lemma final_fs_ev sl cs s : final_fs sl cs s = fst (ev_script sl cs s).
Proof. unfold final_fs, whole_run. apply run_script_nofault. Qed.
Lemma results_ev sl cs s : sresults (whole_run sl cs s) = snd (ev_script sl cs s).
Proof. unfold whole_run. apply run_script_nofault. Qed.

Lemma group_parts_eq op files : group_parts op files = gparts op files.
Proof. reflexivity. Qed.

Section Clauses.
  Variables (ax : aux) (e : env) (sl : bool) (op : dop) (c : dcfg) (sm : path -> path -> bool) (s : fs) (r : report).
  Hypothesis Hok : run_ok ax e sl op c sm s r.
  Let cs := run_cmds ax op c sm s r.
  Let fcs := map (fcmd_of e) cs.

  Lemma clause_plan : plan_ok sl s fcs.
  Proof. destruct Hok as (H1 & H2 & H3 & H4 & H5 & H6). unfold fcs, cs. now apply report_plan. Qed.
  Lemma clause_wf : wf s. Proof. apply Hok. Qed.

  (* ---- order independence *)
  Theorem c02_order cs' : Permutation fcs cs' ->
    obs_eq s (final_fs sl fcs s) (final_fs sl cs' s) /\
    Forall (fun x => x = IOk) (sresults (whole_run sl fcs s)) /\ Forall (fun x => x = IOk) (sresults (whole_run sl cs' s)).
  Proof.
    intros HP. rewrite !final_fs_ev, !results_ev. apply plan_order_independent; auto. apply clause_plan.
  Qed.

  (* ---- paths that are neither dropped nor temps *)
  Lemma kept_not_foot m : In m (all_kept ax op c s r) -> ~ In (mpath m) (foot fcs).
  Proof.
    intros Hm Hin. destruct Hok as (Hro & Henv & Hwf & Hop & Hl & Hrl).
    unfold foot in Hin. apply in_app_or in Hin. destruct Hin as [Hin|Hin].
    - unfold fcs, cs in Hin. rewrite (map_victim_fcs ax e op c sm s r) in Hin.
      pose proof (VK_nodup ax op c sm s r Hro) as Hn. apply NoDup_app_inv in Hn. destruct Hn as (_ & _ & Hd).
      apply (Hd _ Hin). now apply in_map.
    - destruct (temps_in ax e op c sm s r _ Hin) as (p & Hp & E). destruct Henv as (_ & Hfresh).
      destruct (Hfresh p (V_in ax op c sm s r _ Hp)) as (_ & _ & _ & Hnot). apply Hnot. rewrite <- E.
      apply (kept_in_report ax op c sm s r). now apply in_map.
  Qed.
  Lemma outside_not_foot p : ~ In p (rpaths r) -> (forall q, In q (rpaths r) -> p <> tmp_of e q) -> ~ In p (foot fcs).
  Proof.
    intros Hp Ht Hin. destruct Hok as (Hro & Henv & Hwf & Hop & Hl & Hrl).
    unfold foot in Hin. apply in_app_or in Hin. destruct Hin as [Hin|Hin].
    - unfold fcs, cs in Hin. rewrite (map_victim_fcs ax e op c sm s r) in Hin. apply Hp. eapply V_in; eauto.
    - destruct (temps_in ax e op c sm s r _ Hin) as (q & Hq & E). apply (Ht q); auto. eapply V_in; eauto.
  Qed.

  (* ---- the decision a victim belongs to *)
  Lemma victim_decision x : In x cs ->
    exists g files part kept dropped, In g r /\ group_files ax s g = Some files /\ In part (group_parts op files) /\
      partition c (glen g) part = Ok (kept, dropped) /\ In (cmd_victim x) dropped /\
      (forall m, In m kept -> In m (all_kept ax op c s r) /\ In (mpath m) (gpaths g)).
  Proof.
    unfold cs, run_cmds, script_items. intros Hx. apply in_concat in Hx. destruct Hx as (l & Hl & Hx).
    apply in_map_iff in Hl. destruct Hl as (g & <- & Hg). unfold group_script in Hx.
    destruct (opt_seq (map (stat_fs ax s) (gpaths g))) as [files|] eqn:E; [|rewrite (group_cmds_nometa _ _ _ _ _ E) in Hx; destruct Hx].
    rewrite (group_cmds_parts _ _ _ _ _ _ E) in Hx. apply in_flat_map in Hx. destruct Hx as (part & Hpart & Hx).
    pose proof (part_cmds_spec op c sm (glen g) part) as (Hv & _).
    unfold part_cmds in Hx. unfold decision in Hv.
    destruct (partition c (glen g) part) as [[kept dropped]| |] eqn:Ep; try (destruct Hx; fail).
    exists g, files, part, kept, dropped. split; [exact Hg|]. split; [exact E|]. split; [exact Hpart|]. split; [exact Ep|].
    split.
    - cbn [snd] in Hv. rewrite <- Hv. unfold part_cmds. rewrite Ep. now apply in_map.
    - intros m Hm. destruct (stat_files _ _ _ _ E) as [Hmp _]. split.
      + unfold all_kept, decisions. apply in_flat_map. exists (kept, dropped). split; [|exact Hm].
        apply in_flat_map. exists g. split; [exact Hg|]. unfold gdecisions. rewrite E. apply in_map_iff. exists part.
        split; [unfold decision; now rewrite Ep|exact Hpart].
      + rewrite <- Hmp. apply in_map. apply (Permutation_in _ (gparts_perm op files)). apply in_concat. exists part. split; [exact Hpart|].
        pose proof (decision_sub c (glen g) part) as Hd. unfold decision in Hd. rewrite Ep in Hd. cbn [fst snd] in Hd.
        eapply subperm_in; eauto. apply in_or_app. left. exact Hm.
  Qed.

  (* ---- contents preserved *)
  Lemma victim_keeper a : ~ K2 s r fcs -> In a (map victim fcs) -> has_keeper s fcs a.
  Proof.
    intros HK2 Ha i d Ea Ed. destruct Hok as (Hro & Henv & Hwf & Hop & Hl & Hrl).
    unfold fcs in Ha. rewrite map_map in Ha. apply in_map_iff in Ha. destruct Ha as (x & Ex & Hx). rewrite victim_fcmd in Ex.
    destruct (victim_decision x Hx) as (g & files & part & kept & dropped & Hg & Ef & Hpart & Ep & Hv & Hk).
    assert (Hkn : kept <> []) by (eapply c08_kept_nonempty; eauto; intros ->; destruct Hv).
    destruct kept as [|t kept']; [congruence|]. destruct (Hk t (or_introl eq_refl)) as (Htk & Htg).
    destruct Hro as (Hnd & Hnorm & Hcont). destruct (Hcont g Hg) as (b & Hb).
    (* the victim's bytes are the group's *)
    assert (Hag : In a (gpaths g)).
    { destruct (stat_files _ _ _ _ Ef) as [Hmp _]. rewrite <- Ex, <- Hmp. apply in_map.
      apply (Permutation_in _ (gparts_perm op files)). apply in_concat. exists part. split; [exact Hpart|].
      pose proof (decision_sub c (glen g) part) as Hd. unfold decision in Hd. rewrite Ep in Hd. cbn [fst snd] in Hd.
      eapply subperm_in; eauto. apply in_or_app. right. exact Hv. }
    destruct (rread_regular _ _ _ _ (Hb a Hag) Ea) as (d' & Ed' & Eb'). assert (d' = d) by congruence. subst d'.
    pose proof (kept_not_foot t Htk) as Htf.
    pose proof (Hb _ Htg) as Hbt.
    destruct (rread_names _ _ _ Hbt) as (n & En & Hnd').
    destruct n as [j| |lt]; [|congruence|].
    - destruct (rread_regular _ _ _ _ Hbt En) as (dj & Edj & Ebj). exists (mpath t), j, dj. repeat split; auto. congruence.
    - (* the first kept path is a symlink: its target is not a victim (no K2), so the target is the keeper *)
      unfold rread in Hbt. destruct (rresolve LINK_FUEL s (mpath t)) as [q j| |] eqn:Er; try discriminate.
      destruct (inodes s j) as [dj|] eqn:Edj; [|discriminate]. cbn [option_map] in Hbt. injection Hbt as Ebj.
      pose proof (rresolve_found _ _ _ _ _ Er) as Eq.
      exists q, j, dj. split; [|repeat split; auto; congruence].
      intros Hin. unfold foot in Hin. apply in_app_or in Hin. destruct Hin as [Hin|Hin].
      + apply HK2. exists g, (mpath t), lt, q, j. repeat split; auto.
        intros Hv'. apply Htf. unfold foot. apply in_or_app. left. exact Hv'.
      + pose proof clause_plan as (HF & _). rewrite (temps_free _ _ _ _ HF Hin) in Eq. discriminate.
  Qed.

  Theorem c02_contents cs' : ~ K2 s r fcs -> Permutation fcs cs' ->
    (forall b, stored s b -> stored (final_fs sl cs' s) b) /\
    (forall p, ~ In p (rpaths r) -> (forall q, In q (rpaths r) -> p <> tmp_of e q) -> untouched s (final_fs sl cs' s) p).
  Proof.
    intros HK2 HP. pose proof (plan_perm _ _ _ _ HP clause_plan) as Hp'. rewrite final_fs_ev. split.
    - apply plan_contents; auto using clause_wf.
      intros a Ha i d Ea Ed.
      assert (Ha' : In a (map victim fcs)) by (eapply Permutation_in; [apply Permutation_sym, Permutation_map, HP|exact Ha]).
      destruct (victim_keeper a HK2 Ha' i d Ea Ed) as (k & j & dk & Hkf & Hk).
      exists k, j, dk. split; [|exact Hk]. intros Hin. apply Hkf.
      eapply Permutation_in; [apply Permutation_sym, (foot_perm _ _ HP)|exact Hin].
    - intros p Hp Ht. apply plan_untouched; auto using clause_wf.
      intros Hin. apply (outside_not_foot p Hp Ht). eapply Permutation_in; [apply Permutation_sym, (foot_perm _ _ HP)|exact Hin].
  Qed.

  (* ---- replicas untouched *)
  Theorem c02_replicas cs' g files part kept dropped : Permutation fcs cs' ->
    In g r -> group_files ax s g = Some files -> In part (group_parts op files) ->
    partition c (glen g) part = Ok (kept, dropped) ->
    exists ks ds, kept = concat ks /\ dropped = concat ds /\
      Permutation (ks ++ ds) (subgroups c (survivors c (glen g) part)) /\
      (Nat.min (nkeep c) (length (subgroups c (survivors c (glen g) part))) <= length ks)%nat /\
      forall sg m, In sg ks -> In m sg -> untouched s (final_fs sl cs' s) (mpath m).
  Proof.
    intros HP Hg Ef Hpart Ep. destruct (c08_n _ _ _ _ _ Ep) as (ks & ds & Ek & Ed & Hperm & Hn).
    exists ks, ds. split; [exact Ek|]. split; [exact Ed|]. split; [exact Hperm|]. split; [exact Hn|]. intros sg m Hsub Hm.
    assert (Hmk : In m kept) by (rewrite Ek; apply in_concat; eauto).
    assert (Hall : In m (all_kept ax op c s r)).
    { unfold all_kept, decisions. apply in_flat_map. exists (kept, dropped). split; [|exact Hmk].
      apply in_flat_map. exists g. split; [exact Hg|]. unfold gdecisions. unfold group_files in Ef. rewrite Ef.
      apply in_map_iff. exists part. split; [unfold decision; now rewrite Ep|exact Hpart]. }
    pose proof (plan_perm _ _ _ _ HP clause_plan) as Hp'. rewrite final_fs_ev.
    apply plan_untouched; auto using clause_wf.
    intros Hin. apply (kept_not_foot m Hall). eapply Permutation_in; [apply Permutation_sym, (foot_perm _ _ HP)|exact Hin].
  Qed.

  (* ---- links read back *)
  Lemma cmd_has_target x : In x cs -> (op = OpSoftLink \/ op = OpHardLink \/ op = OpRefLink) -> exists t, cmd_target x = Some t.
  Proof.
    unfold cs, run_cmds, script_items. intros Hx Hop. apply in_concat in Hx. destruct Hx as (l & Hl & Hx).
    apply in_map_iff in Hl. destruct Hl as (g & <- & _). unfold group_script, dedupe_group in Hx.
    destruct (opt_seq _) as [files|]; [|destruct Hx]. cbn [group_cmds] in Hx. apply in_flat_map in Hx. destruct Hx as (pr & Hpr & Hx).
    apply in_map_iff in Hpr. destruct Hpr as (part & <- & _). cbn [snd] in Hx.
    destruct (partition c (glen g) part) as [[k d]| |]; try (destruct Hx; fail).
    unfold script_o in Hx. destruct d; [destruct Hx|]. destruct k; [destruct Hx|]. apply in_map_iff in Hx. destruct Hx as (y & <- & _).
    destruct Hop as [->|[->| ->]]; cbn [cmd_target]; eauto.
  Qed.

  Theorem c02_links cs' : (op = OpSoftLink \/ op = OpHardLink \/ op = OpRefLink) -> ~ K7 s fcs -> Permutation fcs cs' ->
    forall p i d, names s p = Some (NFile i) -> inodes s i = Some d -> rread (final_fs sl cs' s) p = Some (ibytes d).
  Proof.
    intros Hop HK7 HP p i d Ep Ed. pose proof (plan_perm _ _ _ _ HP clause_plan) as Hp'. rewrite final_fs_ev.
    destruct Hok as (Hro & Henv & Hwf & Hmv & Hl & Hrl).
    destruct (in_dec (fun x y => match path_eqb_spec x y with ReflectT _ e0 => left e0 | ReflectF _ n => right n end) p (foot cs')) as [Hin|Hout].
    - assert (Hin' : In p (foot fcs)) by (eapply Permutation_in; [apply Permutation_sym, (foot_perm _ _ HP)|exact Hin]).
      unfold foot in Hin'. apply in_app_or in Hin'. destruct Hin' as [Hv|Ht].
      + unfold fcs in Hv. rewrite map_map in Hv. apply in_map_iff in Hv. destruct Hv as (x & Ex & Hx). rewrite victim_fcmd in Ex.
        destruct (cmd_has_target x Hx Hop) as (t & Et).
        destruct (cmd_in_group ax op c sm s r x Hx) as (g & Hg & Hvg & Hvs & Htg). destruct (Htg t Et) as (Htin & _).
        destruct Hro as (Hnd & Hnorm & Hcont). destruct (Hcont g Hg) as (b & Hb).
        rewrite Ex in Hvg. destruct (rread_regular _ _ _ _ (Hb p Hvg) Ep) as (d' & Ed' & Eb'). assert (d' = d) by congruence. subst d'.
        destruct (rread_names _ _ _ (Hb _ Htin)) as (nt & Ent & Hntd).
        assert (Hfc : In (fcmd_of e x) cs').
        { eapply Permutation_in; [exact HP|]. unfold fcs. now apply in_map. }
        assert (Hret : cmd_retained (fcmd_of e x) = Some (mpath t)) by (rewrite retained_fcmd, Et; reflexivity).
        destruct nt as [it| |lt]; [|congruence|].
        * destruct (rread_regular _ _ _ _ (Hb _ Htin) Ent) as (dt & Edt & Ebt).
          pose proof (plan_link_reads_back sl s cs' (fcmd_of e x) Hp' Hwf Hfc) as H. rewrite victim_fcmd, Ex in H.
          rewrite H.
          -- rewrite (rread_file _ _ _ Ep), Ed. reflexivity.
          -- unfold link_equal. rewrite Hret, victim_fcmd, Ex. exists i, d, it, dt. repeat split; auto. congruence.
          -- intros t' Et'. rewrite Hret in Et'. injection Et' as <-. apply Hnorm.
             unfold rpaths. apply in_concat. exists (gpaths g). split; [now apply in_map|exact Htin].
        * exfalso. apply HK7. exists (fcmd_of e x), (mpath t), lt. repeat split; auto. unfold fcs. now apply in_map.
      + pose proof clause_plan as (HF & _). rewrite (temps_free _ _ _ _ HF Ht) in Ep. discriminate.
    - destruct (plan_untouched sl s cs' p Hp' Hwf Hout) as [Hn Hi].
      rewrite (rread_file _ _ i) by congruence. rewrite (Hi i Ep), Ed. reflexivity.
  Qed.
End Clauses.
