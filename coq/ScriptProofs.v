(* ScriptProofs.v — engine X (C11), part 1: log_script's priority-queue printer emits the groups in index
   order for EVERY arrival order of the parallel iterator. *)
From Coq Require Import Permutation.
From FV Require Import Base SortLib TextModel.
From FV Require Import DedupeModel.
From FV Require Import FsModel AtomicModel EffectsModel ScriptModel.

Lemma nodup_app_inv {B} (a b : list B) : NoDup (a ++ b) -> NoDup a /\ NoDup b /\ forall x, In x a -> ~ In x b.
Proof.
  induction a as [|x a IH]; cbn [app]; intros H.
  - split; [constructor|]. split; [exact H|]. intros x [].
  - inversion H as [|? ? Hx Hr]; subst. destruct (IH Hr) as (Ha & Hb & Hd). split; [|split; [exact Hb|]].
    + constructor; auto. intros Hin. apply Hx. apply in_or_app. auto.
    + intros y [->|Hy]; [|auto]. intros Hin. apply Hx. apply in_or_app. auto.
Qed.

Section Printer.
  Context {A : Type}.
  Implicit Types (q : list (nat * A)) (items : list A).

  (* ---------------------------------------------------------------- indexed_from *)
  Lemma indexed_fst k items : map fst (indexed_from k items) = seq k (length items).
  Proof. revert k; induction items as [|x l IH]; intros k; cbn [indexed_from map length seq fst]; [reflexivity|]. now rewrite IH. Qed.
  Lemma indexed_in k items i x : In (i, x) (indexed_from k items) -> (k <= i)%nat /\ nth_error items (i - k) = Some x.
  Proof.
    revert k; induction items as [|y l IH]; intros k; cbn [indexed_from In]; [intros []|].
    intros [E|H].
    - injection E as <- <-. split; [lia|]. now rewrite Nat.sub_diag.
    - destruct (IH (S k) H) as [H1 H2]. split; [lia|]. replace (i - k)%nat with (S (i - S k)) by lia. exact H2.
  Qed.
  Lemma indexed_app k (l1 l2 : list A) : indexed_from k (l1 ++ l2) = indexed_from k l1 ++ indexed_from (k + length l1) l2.
  Proof.
    revert k; induction l1 as [|x l IH]; intros k; cbn [app indexed_from length].
    - now rewrite Nat.add_0_r.
    - rewrite IH. f_equal. f_equal. f_equal. lia.
  Qed.
  Lemma firstn_S_nth items n x : nth_error items n = Some x -> firstn (S n) items = firstn n items ++ [x].
  Proof.
    revert n; induction items as [|y l IH]; intros n E.
    - destruct n; discriminate.
    - destruct n as [|n]; cbn [nth_error] in E.
      + injection E as ->. reflexivity.
      + change (firstn (S (S n)) (y :: l)) with (y :: firstn (S n) l). rewrite (IH n E). reflexivity.
  Qed.

  (* ---------------------------------------------------------------- the queue *)
  Lemma pq_min_none q : pq_min q = None -> q = [].
  Proof. destruct q as [|x r]; [reflexivity|]. cbn [pq_min]. destruct (pq_min r) as [y|]; [destruct (fst x <=? fst y)%nat|]; discriminate. Qed.
  Lemma pq_min_in q m : pq_min q = Some m -> In m q.
  Proof.
    revert m; induction q as [|x r IH]; intros m; cbn [pq_min]; [discriminate|].
    destruct (pq_min r) as [y|] eqn:E.
    - destruct (fst x <=? fst y)%nat; intros H; injection H as <-; [left; reflexivity|right; apply IH; reflexivity].
    - intros H; injection H as <-. left; reflexivity.
  Qed.
  Lemma pq_min_le q m : pq_min q = Some m -> forall y, In y q -> (fst m <= fst y)%nat.
  Proof.
    revert m; induction q as [|x r IH]; intros m; cbn [pq_min]; [discriminate|].
    destruct (pq_min r) as [z|] eqn:E.
    - destruct (Nat.leb_spec (fst x) (fst z)) as [Hle|Hlt]; intros H; injection H as <-; intros y [<-|Hy]; try lia.
      + specialize (IH z eq_refl y Hy). lia.
      + apply (IH z eq_refl y Hy).
    - intros H; injection H as <-. apply pq_min_none in E. subst r. intros y [<-|[]]. lia.
  Qed.
  Lemma pq_remove_perm q i x : In (i, x) q -> NoDup (map fst q) -> Permutation q ((i, x) :: pq_remove i q).
  Proof.
    induction q as [|[j y] r IH]; [intros []|]. cbn [map fst pq_remove]. intros Hin Hn. inversion Hn as [|? ? Hj Hr]; subst.
    destruct (Nat.eqb_spec j i) as [->|Hne].
    - destruct Hin as [E|Hin]; [injection E as ->; reflexivity|].
      exfalso. apply Hj. apply in_map_iff. exists (i, x). auto.
    - destruct Hin as [E|Hin]; [injection E as -> ->; congruence|].
      eapply perm_trans; [apply perm_skip, (IH Hin Hr)|]. apply perm_swap.
  Qed.
  Lemma pq_remove_length q i x : In (i, x) q -> length (pq_remove i q) = pred (length q).
  Proof.
    induction q as [|[j y] r IH]; [intros []|]. cbn [pq_remove fst length].
    destruct (Nat.eqb_spec j i) as [->|Hne]; [reflexivity|].
    intros [E|Hin]; [injection E as -> ->; congruence|]. cbn [length]. rewrite (IH Hin).
    destruct r; [destruct Hin|reflexivity].
  Qed.

  (* ---------------------------------------------------------------- the printer *)
  Variable items : list A.
  Let n := length items.

  (* everything that exists: future arrivals, the queue and what was printed are exactly the items *)
  Definition accounted (rest q : list (nat * A)) (next : nat) : Prop :=
    Permutation (rest ++ q ++ indexed_from 0 (firstn next items)) (indexed_from 0 items).

  Lemma accounted_fst rest q next : (next <= n)%nat -> accounted rest q next ->
    Permutation (map fst rest ++ map fst q ++ seq 0 next) (seq 0 n).
  Proof.
    intros Hn H. apply (Permutation_map fst) in H. rewrite !map_app, !indexed_fst in H.
    rewrite firstn_length, Nat.min_l in H by exact Hn. exact H.
  Qed.
  Lemma accounted_nodup rest q next : (next <= n)%nat -> accounted rest q next -> NoDup (map fst q) /\ forall i, In i (map fst q) -> (next <= i)%nat.
  Proof.
    intros Hn H. pose proof (accounted_fst _ _ _ Hn H) as Hp.
    assert (Hnd : NoDup (map fst rest ++ map fst q ++ seq 0 next)).
    { eapply Permutation_NoDup; [apply Permutation_sym, Hp|apply seq_NoDup]. }
    apply nodup_app_inv in Hnd. destruct Hnd as (_ & Hnd & _).
    apply nodup_app_inv in Hnd. destruct Hnd as (Hq & _ & Hd). split; [exact Hq|].
    intros i Hi. destruct (Nat.le_gt_cases next i) as [|Hlt]; [assumption|exfalso].
    apply (Hd i Hi). apply in_seq. lia.
  Qed.
  Lemma accounted_item rest q next i x : accounted rest q next -> In (i, x) q -> nth_error items i = Some x.
  Proof.
    intros H Hin. assert (Hi : In (i, x) (indexed_from 0 items)).
    { apply (Permutation_in _ H). apply in_or_app. right. apply in_or_app. left. exact Hin. }
    destruct (indexed_in _ _ _ _ Hi) as [_ E]. now rewrite Nat.sub_0_r in E.
  Qed.

  Lemma drain_spec rest : forall fuel q next out,
    accounted rest q next -> (next <= n)%nat -> out = firstn next items -> (length q <= fuel)%nat ->
    let '(q', n', o') := drain fuel q next out in
    accounted rest q' n' /\ (n' <= n)%nat /\ o' = firstn n' items /\ ~ In n' (map fst q') /\ (length q' <= length q)%nat.
  Proof.
    induction fuel as [|f IH]; intros q next out Hacc Hn Hout Hf.
    { destruct q; [|cbn in Hf; lia]. cbn [drain]. repeat split; auto. }
    cbn [drain].
    destruct (accounted_nodup _ _ _ Hn Hacc) as [Hnd Hge].
    destruct (pq_min q) as [[i x]|] eqn:Em.
    - pose proof (pq_min_in _ _ Em) as Hin. destruct (Nat.eqb_spec i next) as [->|Hne].
      + pose proof (accounted_item _ _ _ _ _ Hacc Hin) as Hx.
        assert (Hlt : (next < n)%nat) by (apply nth_error_Some; unfold n; congruence).
        pose proof (pq_remove_length _ _ _ Hin) as Hlen.
        specialize (IH (pq_remove next q) (S next) (out ++ [x])).
        destruct (drain f (pq_remove next q) (S next) (out ++ [x])) as [[q' n'] o'].
        assert (Hq1 : (1 <= length q)%nat) by (destruct q; [destruct Hin|cbn; lia]).
        destruct IH as (H1 & H2 & H3 & H4 & H5); try lia.
        * unfold accounted. rewrite (firstn_S_nth _ _ _ Hx), indexed_app. cbn [indexed_from].
          rewrite firstn_length, Nat.min_l by lia. cbn [plus].
          eapply perm_trans; [|exact Hacc]. apply Permutation_app_head.
          eapply perm_trans; [|apply Permutation_app_tail, Permutation_sym, (pq_remove_perm _ _ _ Hin Hnd)].
          cbn [app]. rewrite app_assoc. apply Permutation_sym, Permutation_cons_append.
        * subst out. symmetry. apply firstn_S_nth. exact Hx.
        * repeat split; auto. lia.
      + repeat split; auto. intros Hnx. apply in_map_iff in Hnx. destruct Hnx as ([j y] & Ej & Hy). cbn [fst] in Ej. subst j.
        pose proof (pq_min_le _ _ Em _ Hy) as Hle. cbn [fst] in Hle.
        assert (Hi : (next <= i)%nat) by (apply Hge; apply in_map_iff; exists (i, x); auto). lia.
    - apply pq_min_none in Em. subst q. repeat split; auto.
  Qed.

  Lemma log_loop_spec : forall arrivals q next out,
    accounted arrivals q next -> (next <= n)%nat -> out = firstn next items -> ~ In next (map fst q) ->
    log_loop arrivals q next out = items.
  Proof.
    induction arrivals as [|a r IH]; intros q next out Hacc Hn Hout Hnot; cbn [log_loop].
    - (* everything has arrived: nothing can be left in the queue *)
      destruct (Nat.eq_dec next n) as [->|Hne]; [subst out; unfold n; apply firstn_all|exfalso].
      assert (Hlt : (next < n)%nat) by lia.
      destruct (nth_error items next) as [x|] eqn:Ex; [|apply nth_error_None in Ex; unfold n in Hlt; lia].
      assert (Hi : In next (seq 0 n)) by (apply in_seq; lia).
      pose proof (accounted_fst _ _ _ Hn Hacc) as Hp. cbn [map app] in Hp.
      apply (Permutation_in _ (Permutation_sym Hp)) in Hi. apply in_app_or in Hi. destruct Hi as [Hi|Hi]; [auto|].
      apply in_seq in Hi. lia.
    - pose proof (drain_spec r (S (length q)) (a :: q) next out) as Hd.
      destruct (drain (S (length q)) (a :: q) next out) as [[q' n'] o'].
      destruct Hd as (H1 & H2 & H3 & H4 & _); auto.
      unfold accounted in *. eapply perm_trans; [|exact Hacc]. cbn [app]. apply Permutation_sym, Permutation_middle.
  Qed.

  (* C11_order at the level of the printer: for every arrival order the output is the items in index order *)
  Theorem log_loop_in_order arrivals : Permutation arrivals (indexed_from 0 items) -> log_loop arrivals [] 0 [] = items.
  Proof.
    intros HP. apply log_loop_spec; auto; try lia.
    unfold accounted. cbn [firstn indexed_from app]. now rewrite !app_nil_r.
  Qed.
End Printer.
