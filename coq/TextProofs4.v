(* TextProofs4.v — engine T, proofs part 4 (C10): generic lemmas for the report codec:
   valid-UTF-8 strings, absence of control bytes, span / strip_prefix, decimal and hex codecs,
   trimming, read_line. *)
From FV Require Import Base TextModel TextProofs TextProofs2 TextProofs3.
Open Scope N_scope.

(* ------------------------------------------------------------------------------------------ *)
(* strings: byte lists that are the concatenation of well-formed characters *)

Definition is_str (l : list N) : Prop := exists cs, Forall wf_char cs /\ concat cs = l.

Lemma is_str_nil : is_str [].
Proof. exists []. split; [constructor|reflexivity]. Qed.

Lemma is_str_app l1 l2 : is_str l1 -> is_str l2 -> is_str (l1 ++ l2).
Proof.
  intros [c1 [W1 E1]] [c2 [W2 E2]]. exists (c1 ++ c2). split; [apply Forall_app; split; assumption|].
  rewrite concat_app, E1, E2. reflexivity.
Qed.

Lemma is_str_ascii l : Forall (fun b => b < 128) l -> is_str l.
Proof. intros H. exists (single l). split; [apply single_wf; assumption|apply concat_single]. Qed.

Lemma is_str_char c : wf_char c -> is_str c.
Proof. intros H. exists [c]. split; [constructor; [assumption|constructor]|cbn; apply app_nil_r]. Qed.

Lemma is_str_chars l : is_str l -> exists cs, str_chars l = Some cs /\ concat cs = l /\ Forall wf_char cs.
Proof. intros [cs [W E]]. exists cs. rewrite <- E. repeat split; [apply str_chars_of_chars|]; assumption. Qed.

Lemma wf_char_ne c : wf_char c -> c <> [].
Proof. intros [H _]. exact H. Qed.

Lemma str_chars_ascii l : Forall (fun b => b < 128) l -> str_chars l = Some (single l).
Proof. intros H. rewrite <- (concat_single l) at 1. apply str_chars_of_chars, single_wf, H. Qed.

(* ------------------------------------------------------------------------------------------ *)
(* no control bytes (so: no line feed, no carriage return) *)

Definition no_ctl (l : list N) : Prop := Forall (fun b => 32 <= b) l.

Lemma no_ctl_app l1 l2 : no_ctl (l1 ++ l2) <-> no_ctl l1 /\ no_ctl l2.
Proof. apply Forall_app. Qed.

Lemma no_ctl_not_in l x : no_ctl l -> x < 32 -> ~ In x l.
Proof. intros H Hx Hi. unfold no_ctl in H. rewrite Forall_forall in H. specialize (H x Hi). lia. Qed.

Lemma maybe_ascii_props b : b < 256 -> Forall (fun x => 32 <= x < 128) (maybe_ascii b).
Proof.
  intros Hb. destruct (maybe_ascii_shape b) as [->| ->| ->| ->|Hn Hr|Hn Hr]; try (repeat constructor; lia).
  assert (H1 : b / 16 < 16) by (apply N.div_lt_upper_bound; lia).
  assert (H2 : b mod 16 < 16) by (apply N.mod_lt; lia).
  pose proof (hexU_range _ H1). pose proof (hexU_range _ H2). repeat constructor; lia.
Qed.

Lemma flat_maybe_ascii_props bs : is_bytes bs -> Forall (fun x => 32 <= x < 128) (flat_map maybe_ascii bs).
Proof.
  induction 1 as [|b bs Hb Hbs IH]; [constructor|]. cbn [flat_map]. apply Forall_app. split; [apply maybe_ascii_props; assumption|assumption].
Qed.

Lemma Forall_weaken {A} (P Q : A -> Prop) l : (forall x, P x -> Q x) -> Forall P l -> Forall Q l.
Proof. intros H F. eapply Forall_impl; eassumption. Qed.

Lemma enc_chunk_props ch : chunk_ok ch -> is_bytes (cbytes ch) -> no_ctl (enc_chunk ch) /\ is_str (enc_chunk ch).
Proof.
  destruct ch as [c|bs]; cbn [chunk_ok cbytes enc_chunk].
  - intros [Hw [[b [-> Hb]]|[Hl Hh]]] Hby.
    + pose proof (maybe_ascii_props b ltac:(lia)) as P. split.
      * eapply Forall_weaken; [|exact P]. cbv beta. intros; lia.
      * apply is_str_ascii. eapply Forall_weaken; [|exact P]. cbv beta. intros; lia.
    + destruct c as [|b0 [|b1 c']]; [cbn in Hl; lia|cbn in Hl; lia|]. split.
      * eapply Forall_weaken; [|exact Hh]. cbv beta. intros; lia.
      * apply is_str_char. assumption.
  - intros _ Hby. pose proof (flat_maybe_ascii_props bs Hby) as P. split.
    + eapply Forall_weaken; [|exact P]. cbv beta. intros; lia.
    + apply is_str_ascii. eapply Forall_weaken; [|exact P]. cbv beta. intros; lia.
Qed.

Lemma encode_props a : is_bytes a -> no_ctl (stfu8_encode a) /\ is_str (stfu8_encode a).
Proof.
  intros Hb. unfold stfu8_encode. pose proof (seg_ok true a) as Hok.
  assert (Hby : Forall (fun ch => is_bytes (cbytes ch)) (seg true a)).
  { apply chunks_bytes. rewrite seg_concat. assumption. }
  induction Hok as [|ch chs Hc Hcs IH]; [split; [constructor|apply is_str_nil]|].
  inversion Hby as [|? ? B1 B2]; subst. destruct (IH B2) as [I1 I2].
  destruct (enc_chunk_props ch Hc B1) as [E1 E2]. cbn [flat_map]. split.
  - apply no_ctl_app. split; assumption.
  - apply is_str_app; assumption.
Qed.

Lemma escq_no_ctl l : no_ctl l -> no_ctl (escq l).
Proof.
  induction 1 as [|b l Hb Hl IH]; [constructor|].
  change (escq (b :: l)) with ((if b =? 39 then [92; 39] else [b]) ++ escq l).
  apply no_ctl_app. split; [|assumption]. destruct (b =? 39); repeat constructor; lia.
Qed.

Lemma good_char_no_ctl c : good_char c -> needs_dollar c = false -> no_ctl c.
Proof.
  intros [_ [[b [-> Hb]]|[Hl Hh]]] Hd.
  - cbn [needs_dollar] in Hd. b2p. repeat constructor. lia.
  - eapply Forall_weaken; [|exact Hh]. cbv beta. intros; lia.
Qed.

Lemma quote_props a : is_bytes a -> no_ctl (quote a) /\ is_str (quote a).
Proof.
  intros Hb. split.
  - unfold quote. destruct (encode_props a Hb) as [E1 _].
    destruct (existsb needs_dollar (lossy a)) eqn:E.
    + repeat (apply no_ctl_app; split); try (repeat constructor; lia). apply escq_no_ctl. assumption.
    + destruct (lossy_valid a (no_dollar_no_fffd _ E)) as [L1 L2].
      assert (Hn : no_ctl (concat (lossy a))).
      { apply Forall_concat. apply Forall_forall. intros c Hc. rewrite Forall_forall in L2.
        apply good_char_no_ctl; [apply L2; assumption|]. eapply existsb_false_in; eassumption. }
      destruct (existsb is_special (lossy a)); [|assumption].
      repeat (apply no_ctl_app; split); try (repeat constructor; lia). assumption.
  - destruct (qchars_spec a Hb) as [Q1 Q2]. exists (qchars a). split; assumption.
Qed.

Lemma join_props l : Forall is_bytes l -> no_ctl (join l) /\ is_str (join l).
Proof.
  induction 1 as [|a r Ha Hr IH]; [split; [constructor|apply is_str_nil]|].
  destruct (quote_props a Ha) as [Q1 Q2]. destruct r as [|b r'].
  - rewrite join_one. split; assumption.
  - destruct IH as [I1 I2]. rewrite join_cons2. split.
    + repeat (apply no_ctl_app; split); try assumption. repeat constructor; lia.
    + repeat apply is_str_app; try assumption. apply is_str_ascii. repeat constructor; lia.
Qed.

(* ------------------------------------------------------------------------------------------ *)
(* span / strip_prefix *)

Lemma strip_prefix_app p r : strip_prefix p (p ++ r) = Some r.
Proof. induction p as [|x p IH]; [reflexivity|]. cbn [app strip_prefix]. rewrite N.eqb_refl. exact IH. Qed.

Definition hd_fails (f : N -> bool) (r : list N) : Prop :=
  match r with [] => True | b :: _ => f b = false end.

Lemma span_app f x r : Forall (fun b => f b = true) x -> hd_fails f r -> span f (x ++ r) = (x, r).
Proof.
  induction 1 as [|b x Hb Hx IH]; intros Hr.
  - cbn [app]. destruct r as [|c r']; [reflexivity|]. cbn [span]. cbn in Hr. rewrite Hr. reflexivity.
  - cbn [app span]. rewrite Hb, (IH Hr). reflexivity.
Qed.

Lemma span_all f x : Forall (fun b => f b = true) x -> span f x = (x, []).
Proof. intros H. rewrite <- (app_nil_r x) at 1. apply span_app; [assumption|exact I]. Qed.

Lemma span_concat f l : let (x, r) := span f l in x ++ r = l.
Proof.
  induction l as [|b l IH]; [reflexivity|]. cbn [span]. destruct (f b); [|reflexivity].
  destruct (span f l) as [x r]. cbn [app]. f_equal. exact IH.
Qed.

(* ------------------------------------------------------------------------------------------ *)
(* decimal numbers *)

Lemma rdec_digits f n : Forall (fun b => is_digit b = true) (rdec f n).
Proof.
  revert n. induction f as [|f IH]; intros n; [constructor|]. cbn [rdec]. constructor.
  - assert (H : n mod 10 < 10) by (apply N.mod_lt; lia). revert H. generalize (n mod 10). intros m H.
    unfold is_digit. apply andb_true_iff. split; apply N.leb_le; lia.
  - destruct (n / 10 =? 0); [constructor|apply IH].
Qed.

Lemma dec_props n : dec n <> [] /\ Forall (fun b => is_digit b = true) (dec n).
Proof.
  unfold dec. split.
  - change 40%nat with (S 39). cbn [rdec]. intros H. apply (f_equal (@length N)) in H.
    rewrite rev_length in H. cbn in H. discriminate.
  - apply Forall_rev, rdec_digits.
Qed.

Lemma rvalue_rdec f : forall n, n < 10 ^ N.of_nat f -> rvalue (rdec f n) = n.
Proof.
  induction f as [|f IH]; intros n Hn.
  - cbn in Hn. assert (n = 0) by lia. subst. reflexivity.
  - cbn [rdec rvalue]. rewrite Nat2N.inj_succ, N.pow_succ_r' in Hn.
    assert (Hdm : n = 10 * (n / 10) + n mod 10) by (apply N.div_mod; lia).
    destruct (N.eqb_spec (n / 10) 0) as [E|E].
    + cbn [rvalue]. revert Hdm E. generalize (n / 10) (n mod 10). intros q m Hdm E. lia.
    + rewrite IH; [|apply N.div_lt_upper_bound; lia].
      revert Hdm. generalize (n / 10) (n mod 10). intros q m Hdm. lia.
Qed.

Lemma parse_u64_dec n : n <= U64_MAX -> parse_u64 (dec n) = Some n.
Proof.
  intros H. unfold parse_u64, dec_value, dec. rewrite rev_involutive, rvalue_rdec.
  - apply N.leb_le in H. rewrite H. reflexivity.
  - eapply N.le_lt_trans; [exact H|]. reflexivity.
Qed.

Lemma is_digit_not c : is_digit c = false <-> ~ (48 <= c <= 57).
Proof.
  unfold is_digit. split.
  - intros H [H1 H2]. apply andb_false_iff in H as [H|H]; b2p; lia.
  - intros H. apply andb_false_iff. destruct (N.leb_spec 48 c); [right; apply N.leb_gt; lia|left; reflexivity].
Qed.

Lemma take_digits_dec n r : hd_fails is_digit r -> take_digits (dec n ++ r) = Some (dec n, r).
Proof.
  intros Hr. unfold take_digits. destruct (dec_props n) as [Hne Hd]. rewrite (span_app _ _ _ Hd Hr).
  destruct (dec n); [contradiction|reflexivity].
Qed.

(* ------------------------------------------------------------------------------------------ *)
(* hex *)

Lemma unhex_hexL n : n < 16 -> unhex (hexL n) = Some n.
Proof.
  intros H. unfold hexL, unhex. destruct (n <? 10) eqn:E; b2p.
  - replace ((48 <=? 48 + n) && (48 + n <=? 57)) with true.
    + f_equal. lia.
    + symmetry. apply andb_true_iff. split; apply N.leb_le; lia.
  - replace ((48 <=? 87 + n) && (87 + n <=? 57)) with false
      by (symmetry; apply andb_false_iff; right; apply N.leb_gt; lia).
    replace ((65 <=? 87 + n) && (87 + n <=? 70)) with false
      by (symmetry; apply andb_false_iff; right; apply N.leb_gt; lia).
    replace ((97 <=? 87 + n) && (87 + n <=? 102)) with true.
    + f_equal. lia.
    + symmetry. apply andb_true_iff. split; apply N.leb_le; lia.
Qed.

Lemma hexL_is_hexl n : n < 16 -> is_hexl (hexL n) = true.
Proof.
  intros H. unfold hexL, is_hexl, is_digit. destruct (n <? 10) eqn:E; b2p; apply orb_true_iff.
  - left. apply andb_true_iff. split; apply N.leb_le; lia.
  - right. apply andb_true_iff. split; apply N.leb_le; lia.
Qed.

Lemma hex_roundtrip h : is_bytes h -> hex_decode (hex_encode h) = Some h.
Proof.
  induction 1 as [|b h Hb Hh IH]; [reflexivity|].
  cbn [hex_encode flat_map app hex_decode].
  assert (H1 : b / 16 < 16) by (apply N.div_lt_upper_bound; lia).
  assert (H2 : b mod 16 < 16) by (apply N.mod_lt; lia).
  unfold unhex2. rewrite (unhex_hexL _ H1), (unhex_hexL _ H2).
  change (flat_map (fun b0 => [hexL (b0 / 16); hexL (b0 mod 16)]) h) with (hex_encode h). rewrite IH.
  cbn. f_equal. f_equal. pose proof (N.div_mod b 16). lia.
Qed.

Lemma hex_encode_hexl h : is_bytes h -> Forall (fun b => is_hexl b = true) (hex_encode h).
Proof.
  induction 1 as [|b h Hb Hh IH]; [constructor|]. cbn [hex_encode flat_map app].
  assert (H1 : b / 16 < 16) by (apply N.div_lt_upper_bound; lia).
  assert (H2 : b mod 16 < 16) by (apply N.mod_lt; lia).
  constructor; [apply hexL_is_hexl; assumption|]. constructor; [apply hexL_is_hexl; assumption|exact IH].
Qed.

Lemma hex_encode_ne h : h <> [] -> hex_encode h <> [].
Proof. destruct h; [contradiction|discriminate]. Qed.

Lemma is_hexl_lt b : is_hexl b = true -> 48 <= b < 128.
Proof. unfold is_hexl, is_digit. intros H. apply orb_true_iff in H as [H|H]; b2p; lia. Qed.

(* ------------------------------------------------------------------------------------------ *)
(* read_line *)

Lemma read_line_full content rest : ~ In 10 content -> is_str content ->
  read_line (content ++ 10 :: rest) = Some (content ++ [10], rest).
Proof.
  intros Hn Hs. unfold read_line. rewrite span_app.
  - cbn [fst]. assert (S2 : is_str (content ++ [10])).
    { apply is_str_app; [assumption|apply is_str_ascii; repeat constructor; lia]. }
    destruct (is_str_chars _ S2) as [cs [E _]]. rewrite E. reflexivity.
  - apply Forall_forall. intros b Hb. apply negb_true_iff, N.eqb_neq. intros ->. contradiction.
  - reflexivity.
Qed.

(* the last, unterminated line of a stream *)
Lemma read_line_tail x : ~ In 10 x -> read_line x = None \/ read_line x = Some (x, []).
Proof.
  intros Hn. unfold read_line. rewrite span_all.
  - cbn [fst]. destruct (str_chars x); [right; reflexivity|left; reflexivity].
  - apply Forall_forall. intros b Hb. apply negb_true_iff, N.eqb_neq. intros ->. contradiction.
Qed.

Lemma read_line_nil : read_line [] = Some ([], []).
Proof. reflexivity. Qed.

(* ------------------------------------------------------------------------------------------ *)
(* trimming *)

Lemma strip_last_snoc x l : strip_last x (l ++ [x]) = l.
Proof. unfold strip_last. rewrite rev_app_distr. cbn. rewrite N.eqb_refl, rev_involutive. reflexivity. Qed.

Lemma strip_last_other x l : last l 0 <> x \/ l = [] -> strip_last x l = l.
Proof.
  intros H. unfold strip_last. destruct (rev l) as [|y r] eqn:E; [reflexivity|].
  assert (El : l = rev r ++ [y]) by (rewrite <- (rev_involutive l), E; reflexivity).
  destruct H as [H| ->]; [|destruct (rev r); discriminate].
  rewrite El, last_last in H. apply N.eqb_neq in H. rewrite H. reflexivity.
Qed.

Lemma strip_eol_line content : ~ In 13 content -> strip_eol (content ++ [10]) = content.
Proof.
  intros H. unfold strip_eol. rewrite strip_last_snoc. apply strip_last_other.
  destruct content as [|b c]; [right; reflexivity|left].
  intros E. apply H. rewrite <- E. apply (@exists_last _ (b :: c)) in E as _ || idtac.
  destruct (@exists_last _ (b :: c) ltac:(discriminate)) as [l' [z Ez]]. rewrite Ez, last_last.
  apply in_or_app. right. left. reflexivity.
Qed.

(* an unterminated line *)
Lemma strip_eol_noeol x : ~ In 10 x -> ~ In 13 x -> strip_eol x = x.
Proof.
  intros H1 H2. unfold strip_eol.
  assert (A : forall y, ~ In y x -> strip_last y x = x).
  { intros y Hy. apply strip_last_other. destruct x as [|b c]; [right; reflexivity|left].
    intros E. apply Hy. rewrite <- E.
    destruct (@exists_last _ (b :: c) ltac:(discriminate)) as [l' [z Ez]]. rewrite Ez, last_last.
    apply in_or_app. right. left. reflexivity. }
  rewrite (A 10 H1). apply A. assumption.
Qed.

Lemma trim_start_hit xs c ys : is_whitespace c = false -> Forall (fun x => is_whitespace x = true) xs ->
  trim_start_cs (xs ++ c :: ys) = c :: ys.
Proof.
  intros Hc. induction 1 as [|x xs Hx Hxs IH]; cbn [app trim_start_cs]; [rewrite Hc; reflexivity|].
  rewrite Hx. exact IH.
Qed.

Lemma trim_start_nonempty xs c ys : is_whitespace c = false -> trim_start_cs (xs ++ c :: ys) <> [].
Proof.
  intros Hc. induction xs as [|x xs IH]; cbn [app trim_start_cs]; [rewrite Hc; discriminate|].
  destruct (is_whitespace x); [exact IH|discriminate].
Qed.

Lemma trim_start_id c ys : is_whitespace c = false -> trim_start_cs (c :: ys) = c :: ys.
Proof. intros H. cbn [trim_start_cs]. rewrite H. reflexivity. Qed.

Lemma trim_end_hit xs c ws : is_whitespace c = false -> Forall (fun x => is_whitespace x = true) ws ->
  trim_end_cs (xs ++ c :: ws) = xs ++ [c].
Proof.
  intros Hc Hws. unfold trim_end_cs. rewrite rev_app_distr. cbn [rev]. rewrite <- app_assoc. cbn [app].
  rewrite trim_start_hit; [|assumption|apply Forall_rev; assumption].
  cbn [rev]. rewrite rev_involutive. reflexivity.
Qed.

Lemma trim_end_nonempty xs c ys : is_whitespace c = false -> trim_end_cs (xs ++ c :: ys) <> [].
Proof.
  intros Hc. unfold trim_end_cs. rewrite rev_app_distr. cbn [rev]. rewrite <- app_assoc. cbn [app].
  intros H. apply (f_equal (@rev (list N))) in H. rewrite rev_involutive in H. cbn in H.
  eapply trim_start_nonempty; eassumption.
Qed.

Lemma concat_ne cs : Forall wf_char cs -> cs <> [] -> concat cs <> [].
Proof.
  intros H Hne. destruct H as [|c cs Hc Hcs]; [contradiction|]. cbn [concat].
  destruct c; [destruct Hc; contradiction|discriminate].
Qed.

Lemma ws_ascii b : is_whitespace [b] = ((9 <=? b) && (b <=? 13)) || (b =? 32).
Proof. reflexivity. Qed.

(* trim_start of a line whose first character is not white space *)
Lemma str_trim_start_id b l : b < 128 -> is_whitespace [b] = false -> is_str l -> str_trim_start (b :: l) = b :: l.
Proof.
  intros Hb Hw Hs. unfold str_trim_start. destruct (is_str_chars l Hs) as [cs [E [C _]]].
  change (b :: l) with ([b] ++ l). rewrite (str_chars_cons [b] l (wf_ascii b Hb)), E. cbn [option_map].
  rewrite trim_start_id by assumption. cbn [concat app]. rewrite C. reflexivity.
Qed.

(* trim of an ASCII line  x ++ "\n"  whose first and last bytes are not white space *)
Lemma str_trim_ascii_line b x e : Forall (fun y => y < 128) (b :: x ++ [e]) ->
  is_whitespace [b] = false -> is_whitespace [e] = false ->
  str_trim ((b :: x ++ [e]) ++ [10]) = b :: x ++ [e].
Proof.
  intros Ha Hb He. unfold str_trim. rewrite str_chars_ascii.
  2:{ apply Forall_app. split; [assumption|repeat constructor; lia]. }
  assert (E : single ((b :: x ++ [e]) ++ [10]) = ([b] :: single x) ++ [e] :: [[10]]).
  { cbn [app]. unfold single. cbn [map]. rewrite <- app_assoc, map_app. reflexivity. }
  rewrite E. change (([b] :: single x) ++ [e] :: [[10]]) with ([b] :: (single x ++ [e] :: [[10]])).
  rewrite trim_start_id by assumption.
  change ([b] :: (single x ++ [e] :: [[10]])) with (([b] :: single x) ++ [e] :: [[10]]).
  rewrite trim_end_hit; [|assumption|repeat constructor].
  rewrite concat_app. cbn [concat app]. rewrite concat_single. reflexivity.
Qed.
