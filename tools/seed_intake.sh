#!/bin/bash
# usage: tools/seed_intake.sh Cxx V [other check ids...]  — confirm the seed variant in its worktree, then evaluate it against
# ./check Cxx (and the other listed checks) on a scratch copy. Prints a compact summary.
P=$1; V=$2; shift 2
p=$(echo $P | tr A-Z a-z)
echo "=== $P-$V"
tools/seed_confirm.sh $P $V 2>&1 | tail -1
[ -f seeded/$P-$V/patch.diff ] || exit 1
for C in $P "$@"; do
  echo "--- vs ./check $C"
  tools/seed_eval.sh $C seeded/$P-$V/patch.diff 2>&1 | grep -E "^exit|^VIOLATION|APPLY|  ->" | cut -c1-230 | head -5
done
