#!/bin/bash
# usage: tools/seed_confirm.sh Cxx V   -- confirms seed variant V (dir /tmp/seed_cxx/V) in worktree /tmp/wt_cxx:
# demo passes on the clean tree, patch applies, crate builds, the unedited test suite passes, demo fails with the patch.
# On success copies the seed to /verif/seeded/Cxx-V/ and writes meta.json (fields to be completed by hand).
set -u
P=$1; V=$2
p=$(echo $P | tr A-Z a-z)
WT=/tmp/wt_$p; SD=/tmp/seed_$p/$V
LOG=/tmp/seed_confirm_${p}_$V.log
: > $LOG
git -C $WT checkout -q -- . ; git -C $WT status --short | grep -v '^??' && { echo "worktree not clean"; exit 2; }
echo "[1] demo on clean tree"; (cd $SD && TMPDIR=/tmp bash ./demo.sh $WT) >> $LOG 2>&1; R1=$?; echo "    exit=$R1"
echo "[2] apply patch"; git -C $WT apply $SD/patch.diff || { echo "patch does not apply"; exit 2; }
echo "[3] build"; (cd $WT && cargo build --offline) >> $LOG 2>&1; R3=$?; echo "    exit=$R3"
echo "[4] test suite"; (cd $WT && cargo test --workspace --no-fail-fast --offline) > /tmp/seed_confirm_${p}_$V.test 2>&1; R4=$?;
# cache::test::return_none_if_different_transform_was_used is flaky under load also on the unchanged tree (sled lock, WouldBlock): one retry
if [ $R4 -ne 0 ]; then (cd $WT && cargo test --workspace --no-fail-fast --offline) > /tmp/seed_confirm_${p}_$V.test 2>&1; R4=$?; fi; grep -E "^test result" /tmp/seed_confirm_${p}_$V.test | tr '\n' ' '; echo "    exit=$R4"
echo "[5] demo with patch"; (cd $SD && TMPDIR=/tmp bash ./demo.sh $WT) >> $LOG 2>&1; R5=$?; echo "    exit=$R5"
git -C $WT checkout -q -- . ; git -C $WT clean -fdq -e target
if [ $R1 -eq 0 ] && [ $R3 -eq 0 ] && [ $R4 -eq 0 ] && [ $R5 -ne 0 ]; then
  D=/verif/seeded/$P-$V; mkdir -p $D; cp $SD/patch.diff $SD/README.md $D/; for f in $SD/demo* $SD/shim.rs; do [ -e $f ] && cp -r $f $D/; done
  echo "CONFIRMED -> $D"
else
  echo "NOT CONFIRMED (clean=$R1 build=$R3 tests=$R4 patched=$R5); see $LOG"; exit 1
fi
