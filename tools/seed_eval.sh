#!/bin/bash
# usage: tools/seed_eval.sh Cxx /path/to/patch.diff [tier]
# Applies the patch to a scratch copy of /repo (never to /repo itself), runs the property's check
# against the copy (VERIF_REPO), prints the outcome and removes the copy and its build output.
set -u
P=$1; PATCH=$2; TIER=${3:-quick}
TAG=$(echo "$P-$PATCH" | sha1sum | cut -c1-8)
COPY=/tmp/seedrun_$TAG
rm -rf "$COPY"; mkdir -p "$COPY"
rsync -a --exclude target --exclude .git /repo/ "$COPY"/
PATCH=$(readlink -f "$PATCH"); ( cd "$COPY" && git init -q . && git apply "$PATCH" ) || { echo "PATCH DOES NOT APPLY"; rm -rf "$COPY"; exit 2; }
cd /verif
VERIF_REPO=$COPY ./check "$P" --tier "$TIER" > /tmp/seedrun_$TAG.out 2> /tmp/seedrun_$TAG.err
RC=$?
echo "exit=$RC"
grep -E "^(VIOLATION|KNOWN-FINDING)" /tmp/seedrun_$TAG.out
grep -- "->" /tmp/seedrun_$TAG.err | head -5
for f in $(grep -o 'replay=[^ ]*' /tmp/seedrun_$TAG.out | cut -d= -f2 | head -3); do echo "--- $f"; head -c 1500 "$f"; echo; done
H=$(python3 -c "import hashlib,sys; print(hashlib.sha1(sys.argv[1].encode()).hexdigest()[:8])" "$COPY")
rm -rf "$COPY" /verif/.cache/target_$H /verif/.cache/harness_$H /verif/.cache/evidence_$H /verif/.cache/replays_$H /tmp/seedrun_$TAG.out /tmp/seedrun_$TAG.err
exit $RC
