#!/usr/bin/env python3
"""Run the runtime part of a property check without its Coq obligations (development aid, never registered):
   tools/run_noc.py Cxx [tier]"""
import importlib, os, sys, time
sys.path.insert(0, '/verif')
from vlib import core
prop = sys.argv[1].upper()
tier = sys.argv[2] if len(sys.argv) > 2 else 'quick'
ctx = core.Ctx(prop, tier, int(os.environ.get('VERIF_SEED', '1')))
ctx.use_coq = lambda *a, **k: None
importlib.import_module('vlib.props.' + prop.lower()).run(ctx)
for v in ctx.violations:
    print("VIOL", v[0], v[1][:300], v[2])
print("known", {k: v['n'] for k, v in ctx.known_hits.items()})
print("counts", ctx.violation_counts, "evals", ctx.evaluations, "distinct", len(ctx._distinct), "wall", round(time.time() - ctx.t0, 1))
