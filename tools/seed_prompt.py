#!/usr/bin/env python3
"""Print the prompt given to an independent sub-agent that seeds a property-breaking change."""
import json, sys
pid = sys.argv[1].upper()
wt = "/tmp/wt_" + pid.lower()
out = "/tmp/seed_" + pid.lower()
for l in open('/verif/properties.jsonl'):
    p = json.loads(l)
    if p['id'] == pid:
        break
import glob
variants = sys.argv[2] if len(sys.argv) > 2 else "A,B"
v1, v2 = variants.split(",")
avoid = []
for m in sorted(glob.glob('/verif/seeded/*/meta.json')):
    j = json.load(open(m))
    if j.get('property') == pid or pid in j.get('needs', '') + j.get('breaks', ''):
        avoid.append("  - " + j['breaks'])
avoid_txt = ""
if avoid and (v1, v2) != ("A", "B"):
    avoid_txt = "\nAn earlier round already used the following mechanisms for this property — do NOT repeat them or close variations of them; find different code paths:\n" + "\n".join(avoid) + "\n"
print(f"""You are a software engineer asked to seed realistic defects into a Rust project so that verification tooling can be evaluated against them. Your own scratch git worktree of the project (pkolaczk/fclones, a duplicate-file finder; the crate is in the `fclones/` subdirectory) is at {wt}. Work ONLY inside {wt} and {out}; do not read or touch /repo, /verif or anything else outside those two directories (except the Rust toolchain and ~/.cargo registry sources, read-only). There is no network: nothing can be downloaded; `cargo ... --offline` works.

The property the project is supposed to satisfy:
  Title: {p['title']}
  Statement: {p['statement']}
  Quantified over: {p['quantifier']['text']}

{avoid_txt}
Task: produce TWO independent changes (variants {v1} and {v2}, each a separate patch against the worktree's HEAD) to the project's source that each BREAK this property, while
  (1) the crate still compiles (`cd {wt} && cargo build --offline`), and
  (2) the existing test suite, unedited, still passes (`cd {wt} && cargo test --workspace --no-fail-fast --offline`).
Each change should look like a plausible refactoring, optimisation or well-meant fix gone wrong (small, a few lines), and must need something specific to manifest — a particular interleaving, a crash or fault at a particular point, a multi-step sequence of operations, an unusual input, or two cooperating sites that each look fine alone — not something ordinary use would expose at once. The two variants should attack different mechanisms. Do not edit tests. Do not edit code guarded by `#[cfg(fclones_verif)]`.

For each variant V in {{{v1}, {v2}}} deliver in {out}/V/ :
  - patch.diff  : `git diff` against HEAD; must apply to a clean checkout with `git apply`.
  - a demonstration: demo.sh (bash, offline, may call cargo to build the binary `fclones` or to run a temporary extra test file that the script itself copies into the worktree and removes again) that exits NON-ZERO with the patch applied and exits 0 without it. It takes the worktree path as $1 (default {wt}). For concurrency-related properties a deterministic demonstration is preferred (e.g. a small Rust test that copies the relevant source file and drives it with a controlled schedule, or uses barriers/sleeps generously); if only probabilistic, loop enough times to make it reliable and say so.
  - README.md   : what the change is, why it breaks the property, what exactly is needed for it to manifest, and the exact commands you ran with their outcome both WITH and WITHOUT the patch (build, full test suite, demo).
Verify all of this yourself before reporting. At the end leave the worktree source clean (`git -C {wt} checkout -- .` and remove untracked files you added; you may leave the cargo `target/` directory). In your final message list the variants, one line each, and anything that did not work.""")
