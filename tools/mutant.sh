#!/bin/bash
# usage: tools/mutant.sh Cxx <file relative to repo> <python expr transforming source string s> [tier]
# Makes a scratch copy of /repo, rewrites one file with the given python expression, runs ./check Cxx against the copy.
set -u
P=$1; F=$2; EXPR=$3; TIER=${4:-quick}
TAG=$(echo "$P-$F-$EXPR" | sha1sum | cut -c1-8)
COPY=/tmp/mutant_$TAG
rm -rf "$COPY"; mkdir -p "$COPY"; rsync -a --exclude target --exclude .git /repo/ "$COPY"/
python3 - "$COPY/$F" "$EXPR" <<'PY' || { echo "MUTATION DID NOT APPLY"; rm -rf "$COPY"; exit 2; }
import sys
p, expr = sys.argv[1], sys.argv[2]
s = open(p).read()
t = eval(expr, {"s": s})
assert t != s, "no change"
open(p, "w").write(t)
PY
cd /verif
VERIF_REPO=$COPY ./check "$P" --tier "$TIER" > /tmp/mutant_$TAG.out 2> /tmp/mutant_$TAG.err; RC=$?
echo "exit=$RC"; grep -E "^(VIOLATION|KNOWN-FINDING)" /tmp/mutant_$TAG.out | cut -c1-300; grep -- "->" /tmp/mutant_$TAG.err | head -4 | cut -c1-400
H=$(python3 -c "import hashlib,sys; print(hashlib.sha1(sys.argv[1].encode()).hexdigest()[:8])" "$COPY")
rm -rf "$COPY" /verif/.cache/target_$H /verif/.cache/harness_$H /tmp/mutant_$TAG.out /tmp/mutant_$TAG.err
exit $RC
