#!/usr/bin/env python3
"""usage: tools/seed_meta.py Cxx-V round 'breaks' 'needs' 'detected_by'  -> writes seeded/Cxx-V/meta.json"""
import json, sys, os
sid, rnd, breaks, needs, det = sys.argv[1:6]
p, v = sid.split("-")
d = os.path.join(os.path.dirname(os.path.dirname(os.path.abspath(__file__))), "seeded", sid)
json.dump({"property": p, "variant": v, "round": int(rnd), "breaks": breaks, "needs": needs,
           "confirmed": "tools/seed_confirm.sh %s %s: demo exit 0 on the clean worktree; patch applies; cargo build ok; unedited cargo test --workspace passes; demo exit non-zero with the patch" % (p, v),
           "detected_by": det,
           "source": "independent sub-agent (round %s: told which mechanisms the earlier rounds used, nothing else) given only the property text and a scratch worktree" % rnd},
          open(os.path.join(d, "meta.json"), "w"), indent=1)
