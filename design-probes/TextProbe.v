From Coq Require Import List NArith Bool Lia.
Import ListNotations.
Open Scope N_scope.

Inductive sym := Ch (c : N) | Bad (b : N).
Definition utf8_len (c : N) : N := if c <? 128 then 1 else if c <? 2048 then 2 else if c <? 65536 then 3 else 4.

Definition hexd (n : N) : N := if n <? 10 then 48 + n else 55 + n. (* uppercase *)
Definition esc_byte (b : N) : list N :=
  if b =? 92 then [92;92] else if b =? 9 then [92;116] else if b =? 10 then [92;110]
  else if b =? 13 then [92;114] else [92;120; hexd (b / 16); hexd (b mod 16)].
Definition stfu8_enc1 (s : sym) : list N :=
  match s with
  | Ch c => if c =? 92 then [92;92] else if (32 <=? c) && (c <=? 126) then [c]
            else if c <? 128 then esc_byte c else [c]
  | Bad b => esc_byte b
  end.
Definition stfu8_enc (a : list sym) : list N := flat_map stfu8_enc1 a.

Definition lossy1 (s : sym) : N := match s with Ch c => c | Bad _ => 65533 end.
Definition special (tilde : N) : list N :=
  [124;38;59;60;62;40;41;123;125;36;96;92;39;34;32;9;42;63;43;91;93;35;tilde;61;37].
Definition needs_dollar (c : N) := (c <? 32) || (c =? 127) || (c =? 65533) || (c =? 39).
Definition escq (l : list N) : list N := flat_map (fun c => if c =? 39 then [92;39] else [c]) l.
Definition quote (tilde : N) (a : list sym) : list N :=
  let l := map lossy1 a in
  if existsb needs_dollar l then [36;39] ++ escq (stfu8_enc a) ++ [39]
  else if existsb (fun c => existsb (N.eqb c) (special tilde)) l then [39] ++ l ++ [39]
  else l.

(* stfu8 decode of a char list into syms; None on malformed *)
Definition unhex (c : N) : option N :=
  if (48 <=? c) && (c <=? 57) then Some (c - 48)
  else if (65 <=? c) && (c <=? 70) then Some (c - 55)
  else if (97 <=? c) && (c <=? 102) then Some (c - 87) else None.
Fixpoint stfu8_dec (fuel : nat) (l : list N) : option (list sym) :=
  match fuel with O => None | S f =>
  match l with
  | [] => Some []
  | 92 :: 92 :: r => option_map (cons (Ch 92)) (stfu8_dec f r)
  | 92 :: 116 :: r => option_map (cons (Ch 9)) (stfu8_dec f r)
  | 92 :: 110 :: r => option_map (cons (Ch 10)) (stfu8_dec f r)
  | 92 :: 114 :: r => option_map (cons (Ch 13)) (stfu8_dec f r)
  | 92 :: 120 :: h :: k :: r =>
      match unhex h, unhex k with
      | Some a, Some b => let v := a * 16 + b in
          option_map (cons (if v <? 128 then Ch v else Bad v)) (stfu8_dec f r)
      | _, _ => None end
  | 92 :: _ => None
  | c :: r => option_map (cons (Ch c)) (stfu8_dec f r)
  end end.

(* replace "\'" by "'" *)
Fixpoint unescq (l : list N) : list N :=
  match l with
  | 92 :: 39 :: r => 39 :: unescq r
  | c :: r => c :: unescq r
  | [] => []
  end.

(* slice of a char list by BYTE offsets [a,b); None = panic (not on char boundary / out of range) *)
Fixpoint slice_bytes (l : list N) (off a b : N) : option (list N) :=
  match l with
  | [] => if (a <=? off) && (b <=? off) then Some [] else if (off =? a) || (off =? b) || ((a <? off)&&(off <? b)) then (if b <=? off then Some [] else None) else None
  | c :: r =>
      let n := off + utf8_len c in
      if b <=? off then (if (off <? a) then None else Some [])
      else if off <? a then (if (a <? n) then None else slice_bytes r n a b)
      else (* a <= off < b *) if b <? n then None
      else option_map (cons c) (slice_bytes r n a b)
  end.

Inductive state := Delim | Bsl | Unq | UnqBsl | SQ | DQ | DQBsl | Dollar | DolQ | DolQBsl | Comment.
Inductive res := Ok (w : list (list sym)) | Err | Panic.

(* charstep: true = pos += 1 (faithful), false = pos += utf8 len (fixed) *)
Fixpoint split_go (bug : bool) (s : list N) (rest : list N) (st : state) (pos dqs : N)
         (word : list sym) (words : list (list sym)) : res :=
  let adv c := if bug then pos + 1 else pos + utf8_len c in
  match rest with
  | [] =>
      match st with
      | Delim | Comment => Ok (rev words)
      | Bsl | UnqBsl => Ok (rev ((word ++ [Ch 92]) :: words))
      | Unq => Ok (rev (word :: words))
      | _ => Err
      end
  | c :: r =>
      match st with
      | Delim =>
          if c =? 39 then split_go bug s r SQ (adv c) dqs word words
          else if c =? 34 then split_go bug s r DQ (adv c) dqs word words
          else if c =? 92 then split_go bug s r Bsl (adv c) dqs word words
          else if (c =? 9) || (c =? 32) || (c =? 10) then split_go bug s r Delim (adv c) dqs word words
          else if c =? 36 then split_go bug s r Dollar (adv c) dqs word words
          else if c =? 35 then split_go bug s r Comment (adv c) dqs word words
          else split_go bug s r Unq (adv c) dqs (word ++ [Ch c]) words
      | Bsl => if c =? 10 then split_go bug s r Delim (adv c) dqs word words
               else split_go bug s r Unq (adv c) dqs (word ++ [Ch c]) words
      | Unq =>
          if c =? 39 then split_go bug s r SQ (adv c) dqs word words
          else if c =? 34 then split_go bug s r DQ (adv c) dqs word words
          else if c =? 92 then split_go bug s r UnqBsl (adv c) dqs word words
          else if c =? 36 then split_go bug s r Dollar (adv c) dqs word words
          else if (c =? 9) || (c =? 32) || (c =? 10) then split_go bug s r Delim (adv c) dqs [] (word :: words)
          else split_go bug s r Unq (adv c) dqs (word ++ [Ch c]) words
      | UnqBsl => if c =? 10 then split_go bug s r Unq (adv c) dqs word words
                  else split_go bug s r Unq (adv c) dqs (word ++ [Ch c]) words
      | SQ => if c =? 39 then split_go bug s r Unq (adv c) dqs word words
              else split_go bug s r SQ (adv c) dqs (word ++ [Ch c]) words
      | DQ => if c =? 34 then split_go bug s r Unq (adv c) dqs word words
              else if c =? 92 then split_go bug s r DQBsl (adv c) dqs word words
              else split_go bug s r DQ (adv c) dqs (word ++ [Ch c]) words
      | DQBsl => if c =? 10 then split_go bug s r DQ (adv c) dqs word words
                 else if (c =? 36) || (c =? 96) || (c =? 34) || (c =? 92)
                 then split_go bug s r DQ (adv c) dqs (word ++ [Ch c]) words
                 else split_go bug s r DQ (adv c) dqs (word ++ [Ch 92; Ch c]) words
      | Dollar => if c =? 39 then split_go bug s r DolQ (adv c) (pos + 1) word words else Err
      | DolQ =>
          if c =? 92 then split_go bug s r DolQBsl (adv c) dqs word words
          else if c =? 39 then
            match slice_bytes s 0 dqs pos with
            | None => Panic
            | Some sl => match stfu8_dec (S (length sl)) (unescq sl) with
                         | None => Err
                         | Some d => split_go bug s r Unq (adv c) dqs (word ++ d) words
                         end
            end
          else split_go bug s r DolQ (adv c) dqs word words
      | DolQBsl => split_go bug s r DolQ (adv c) dqs word words
      | Comment => if c =? 10 then split_go bug s r Delim (adv c) dqs word words
                   else split_go bug s r Comment (adv c) dqs word words
      end
  end.
Definition split bug (s : list N) : res := split_go bug s s Delim 0 0 [] [].

Definition TILDE_BUG := 732. Definition TILDE_OK := 126.
(* F1 witness: ż ' d *)
Eval vm_compute in quote TILDE_BUG [Ch 380; Ch 39; Ch 100].
Eval vm_compute in split true (quote TILDE_BUG [Ch 380; Ch 39; Ch 100]).
Eval vm_compute in split false (quote TILDE_BUG [Ch 380; Ch 39; Ch 100]).

(* bounded sweep: all strings of length <= 3 over an alphabet *)
Definition alpha : list sym :=
  [Ch 97; Ch 32; Ch 9; Ch 10; Ch 13; Ch 39; Ch 34; Ch 92; Ch 36; Ch 96; Ch 126; Ch 35; Ch 42;
   Ch 380; Ch 8364; Ch 128512; Ch 160; Ch 65533; Bad 255; Ch 127].
Fixpoint strings (n : nat) : list (list sym) :=
  match n with O => [[]] | S k => [] :: flat_map (fun s => map (fun a => a :: s) alpha) (strings k) end.
Definition sym_eqb (a b : sym) := match a, b with Ch x, Ch y => x =? y | Bad x, Bad y => x =? y | _, _ => false end.
Fixpoint leqb (a b : list sym) := match a, b with [] , [] => true | x::a', y::b' => sym_eqb x y && leqb a' b' | _, _ => false end.
Definition rt (bug : bool) (a : list sym) : bool :=
  match a with [] => true | _ =>
  match split bug (quote TILDE_OK a) with Ok [w] => leqb w a | _ => false end end.
Eval vm_compute in (length (strings 3), length (filter (fun a => negb (rt false a)) (strings 3)),
                    length (filter (fun a => negb (rt true a)) (strings 3))).
Eval vm_compute in hd [] (filter (fun a => negb (rt true a)) (strings 3)).
