From Coq Require Import List ZArith Lia Bool Arith.
Import ListNotations.
Open Scope Z_scope.

(* thread-local control points of acquire / release *)
Inductive pc := Idle | WantA | ChkA | Sleep | Woken | UnlA | WantR | IncR | NotR.

Definition tid := nat.
Record st := { count : Z; mutex : option tid; pcs : list pc; held : list Z }.
(* pcs, held indexed by tid *)

Definition upd {A} (l : list A) (i : nat) (x : A) : list A :=
  firstn i l ++ x :: skipn (S i) l.

Definition cnt (p : pc -> bool) (l : list pc) : Z := Z.of_nat (length (filter p l)).
Definition isSleep p := match p with Sleep => true | _ => false end.
Definition isNot p := match p with NotR => true | _ => false end.
Definition isK p := match p with Woken | ChkA => true | _ => false end.

Definition pos (z : Z) := Z.max z 0.

Inductive step : st -> st -> Prop :=
| s_startA s t : nth_error (pcs s) t = Some Idle ->
    step s {| count := count s; mutex := mutex s; pcs := upd (pcs s) t WantA; held := held s |}
| s_lockA s t : nth_error (pcs s) t = Some WantA -> mutex s = None ->
    step s {| count := count s; mutex := Some t; pcs := upd (pcs s) t ChkA; held := held s |}
| s_take s t : nth_error (pcs s) t = Some ChkA -> count s > 0 ->
    step s {| count := count s - 1; mutex := mutex s; pcs := upd (pcs s) t UnlA; held := held s |}
| s_wait s t : nth_error (pcs s) t = Some ChkA -> count s <= 0 ->
    step s {| count := count s; mutex := None; pcs := upd (pcs s) t Sleep; held := held s |}
| s_unlockA s t : nth_error (pcs s) t = Some UnlA ->
    step s {| count := count s; mutex := None; pcs := upd (pcs s) t Idle; held := held s |}
| s_spurious s t : nth_error (pcs s) t = Some Sleep ->
    step s {| count := count s; mutex := mutex s; pcs := upd (pcs s) t Woken; held := held s |}
| s_relock s t : nth_error (pcs s) t = Some Woken -> mutex s = None ->
    step s {| count := count s; mutex := Some t; pcs := upd (pcs s) t ChkA; held := held s |}
| s_startR s t : nth_error (pcs s) t = Some Idle ->
    step s {| count := count s; mutex := mutex s; pcs := upd (pcs s) t WantR; held := held s |}
| s_lockR s t : nth_error (pcs s) t = Some WantR -> mutex s = None ->
    step s {| count := count s; mutex := Some t; pcs := upd (pcs s) t IncR; held := held s |}
| s_inc s t : nth_error (pcs s) t = Some IncR ->
    step s {| count := count s + 1; mutex := None; pcs := upd (pcs s) t NotR; held := held s |}
| s_notify_some s t u : nth_error (pcs s) t = Some NotR -> nth_error (pcs s) u = Some Sleep ->
    step s {| count := count s; mutex := mutex s; pcs := upd (upd (pcs s) u Woken) t Idle; held := held s |}
| s_notify_none s t : nth_error (pcs s) t = Some NotR -> cnt isSleep (pcs s) = 0 ->
    step s {| count := count s; mutex := mutex s; pcs := upd (pcs s) t Idle; held := held s |}.

(* the wake-up invariant *)
Definition Inv (s : st) : Prop :=
  cnt isSleep (pcs s) > 0 -> pos (count s) <= cnt isNot (pcs s) + cnt isK (pcs s).

Lemma filter_upd_len (p : pc -> bool) l i x y :
  nth_error l i = Some y ->
  Z.of_nat (length (filter p (upd l i x))) =
  Z.of_nat (length (filter p l)) - (if p y then 1 else 0) + (if p x then 1 else 0).
Proof.
  revert i. induction l as [|a l IH]; intros i Hn.
  - destruct i; discriminate.
  - destruct i as [|i].
    + cbn [nth_error] in Hn. injection Hn as ->. unfold upd.
      cbn [firstn skipn app filter].
      destruct (p y), (p x); cbn [length]; rewrite ?Nat2Z.inj_succ; lia.
    + cbn [nth_error] in Hn. specialize (IH i Hn). unfold upd in *.
      cbn [firstn skipn app filter] in *.
      destruct (p a); cbn [length]; rewrite ?Nat2Z.inj_succ; lia.
Qed.

Lemma cnt_upd p l i x y : nth_error l i = Some y ->
  cnt p (upd l i x) = cnt p l - (if p y then 1 else 0) + (if p x then 1 else 0).
Proof. apply filter_upd_len. Qed.

Lemma nth_upd_other {A} (l : list A) i j x y : nth_error l i = Some y -> i <> j ->
  nth_error (upd l i x) j = nth_error l j.
Proof.
  revert i j. induction l as [|a l IH]; intros i j Hi Hij; unfold upd.
  - destruct i; discriminate.
  - destruct i as [|i], j as [|j]; cbn [firstn skipn app nth_error] in *; try congruence; try reflexivity.
    apply (IH i j); congruence.
Qed.

Lemma cnt_nonneg p l : 0 <= cnt p l. Proof. unfold cnt; lia. Qed.

Lemma cnt_ge1 p l i y : nth_error l i = Some y -> p y = true -> 1 <= cnt p l.
Proof.
  revert i. induction l as [|a l IH]; intros i Hn Hp.
  - destruct i; discriminate.
  - unfold cnt in *. destruct i as [|i]; cbn [nth_error] in Hn.
    + injection Hn as ->. cbn [filter]. rewrite Hp. cbn [length]. rewrite Nat2Z.inj_succ. lia.
    + specialize (IH i Hn Hp). cbn [filter]. destruct (p a); cbn [length]; rewrite ?Nat2Z.inj_succ; lia.
Qed.

Theorem Inv_step s s' : Inv s -> step s s' -> Inv s'.
Proof.
  intros HI Hs. unfold Inv in *.
  destruct Hs; cbn [count pcs] in *;
    try (rewrite !(cnt_upd _ _ _ _ _ H); cbn [isSleep isNot isK];
         pose proof (cnt_nonneg isSleep (pcs s)); pose proof (cnt_nonneg isNot (pcs s));
         pose proof (cnt_nonneg isK (pcs s));
         try pose proof (cnt_ge1 isK _ _ _ H eq_refl); unfold pos in *; lia).
  - (* notify_some *)
    assert (t <> u) by (intro; subst; congruence).
    assert (Hu : nth_error (upd (pcs s) u Woken) t = Some NotR) by (rewrite (nth_upd_other _ _ _ _ _ H0); auto).
    rewrite !(cnt_upd _ _ _ _ _ Hu), !(cnt_upd _ _ _ _ _ H0). cbn [isSleep isNot isK].
    pose proof (cnt_nonneg isSleep (pcs s)); pose proof (cnt_nonneg isNot (pcs s));
    pose proof (cnt_nonneg isK (pcs s)); unfold pos in *; lia.
Qed.
Print Assumptions Inv_step.
