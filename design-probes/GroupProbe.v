From Coq Require Import List NArith Bool Lia.
Import ListNotations.
Open Scope N_scope.

(* --- tiny ordered grouping (BTreeMap<K, Vec<V>>) over a boolean order --- *)
Section GroupBy.
  Context {K V : Type} (kle : K -> K -> bool) (keq : K -> K -> bool).
  Fixpoint ins (k : K) (v : V) (m : list (K * list V)) : list (K * list V) :=
    match m with
    | [] => [(k, [v])]
    | (k', vs) :: r => if keq k k' then (k', vs ++ [v]) :: r
                       else if kle k k' then (k, [v]) :: m else (k', vs) :: ins k v r
    end.
  Definition group_by (f : V -> K) (l : list V) : list (K * list V) :=
    fold_left (fun m v => ins (f v) v m) l [].
End GroupBy.

Record file := { fpath : N; fid : N; fdev : N; floc : N; flen : N; fdata : list N }.
Definition hash := N.
Record group := { glen : N; ghash : hash; gfiles : list file }.

Inductive repl := Over (n : N) | Under (n : N).
(* no roots in this probe; by_id flag only *)
Definition nodup_ids (l : list N) : list N := fold_left (fun acc x => if existsb (N.eqb x) acc then acc else acc ++ [x]) l [].
Definition subgroup_count (by_id : bool) (fs : list file) : N :=
  if by_id then N.of_nat (length (nodup_ids (map fid fs))) else N.of_nat (length fs).
Definition matches (r : repl) by_id (g : group) :=
  match r with Over n => n <? subgroup_count by_id (gfiles g) | Under _ => true end.
Definition matches_strictly (r : repl) by_id (g : group) :=
  match r with Over n => n <? subgroup_count by_id (gfiles g) | Under n => subgroup_count by_id (gfiles g) <? n end.
Definition unique_count (g : group) : N := N.of_nat (length (nodup_ids (map fid (gfiles g)))).

Definition pair_le (a b : N * N) := (fst a <? fst b) || ((fst a =? fst b) && (snd a <=? snd b)).
Definition pair_eq (a b : N * N) := (fst a =? fst b) && (snd a =? snd b).

(* runs of equal id after ordering by location; representative = first of the run *)
Fixpoint runs (l : list (hash * file)) : list (list (hash * file)) :=
  match l with
  | [] => []
  | x :: r => match runs r with
              | (y :: ys) :: rs => if fid (snd x) =? fid (snd y) then (x :: y :: ys) :: rs else [x] :: (y :: ys) :: rs
              | _ => [[x]]
              end
  end.
Definition sort_by_loc (l : list (hash * file)) : list (hash * file) :=
  flat_map snd (group_by N.leb N.eqb (fun x => floc (snd x)) l).

(* hf returns new hash and (transform case) new length for the representative ONLY (faithful, F5) *)
Definition set_len (f : file) (n : N) : file :=
  {| fpath := fpath f; fid := fid f; fdev := fdev f; floc := floc f; flen := n; fdata := fdata f |}.
Definition rehash (f5_fixed : bool) (pre post : group -> bool)
           (hf : file -> hash -> option (hash * N)) (gs : list group) : list group :=
  let proc := filter pre gs in
  let pass := filter (fun g => negb (pre g)) gs in
  let items := flat_map (fun g => map (fun f => (ghash g, f)) (gfiles g)) proc in
  let hashed := flat_map (fun run =>
      match run with
      | [] => []
      | (oh, rep) :: rest =>
          match hf rep oh with
          | None => []
          | Some (h, n) => (h, set_len rep n) :: map (fun x => (h, if f5_fixed then set_len (snd x) n else snd x)) rest
          end
      end) (runs (sort_by_loc items)) in
  let regrouped := map (fun kv => {| glen := fst (fst kv); ghash := snd (fst kv); gfiles := map snd (snd kv) |})
                       (group_by pair_le pair_eq (fun x => (flen (snd x), fst x)) hashed) in
  filter post (regrouped ++ pass).

Section Pipe.
  Variable H : list N -> hash.
  Variable T : list N -> list N.
  Variables (P minP S THR : N).
  Definition chunk (d : list N) (pos len : N) := firstn (N.to_nat len) (skipn (N.to_nat pos) d).

  Definition by_size (fs : list file) : list group :=
    map (fun kv => {| glen := fst kv; ghash := 0; gfiles := snd kv |}) (group_by N.leb N.eqb flen fs).

  Definition pipeline (r : repl) by_id (fs : list file) : list group :=
    let g0 := filter (matches r by_id) (by_size fs) in
    let g1 := rehash true (fun g => 1 <? unique_count g) (matches r by_id)
                (fun f _ => Some (H (chunk (fdata f) 0 (if flen f <=? P then P else minP)), flen f)) g0 in
    let g2 := rehash true (fun g => (THR <=? glen g) && (1 <? unique_count g)) (matches r by_id)
                (fun f oh => Some (N.lxor oh (H (chunk (fdata f) (flen f - S) S)), flen f)) g1 in
    rehash true (fun g => (1 <? unique_count g) && (P <=? glen g)) (matches_strictly r by_id)
                (fun f _ => Some (H (chunk (fdata f) 0 (flen f)), flen f)) g2.

  (* transform path; trunc = faithful F4 (read only flen bytes of the output) *)
  Definition pipeline_t (f4_fixed f5_fixed : bool) (r : repl) by_id (fs : list file) : list group :=
    rehash f5_fixed (fun _ => true) (matches r by_id)
      (fun f _ => let out := T (fdata f) in
                  let rd := if f4_fixed then out else firstn (N.to_nat (flen f)) out in
                  Some (H rd, N.of_nat (length rd)))
      [{| glen := 0; ghash := 0; gfiles := fs |}].
End Pipe.

Definition toyH (d : list N) : hash := fold_left (fun a x => (a * 257 + x + 1) mod 1000000007) d 7.
Definition mk p i d := {| fpath := p; fid := i; fdev := 0; floc := i; flen := N.of_nat (length d); fdata := d |}.
Definition show (gs : list group) := map (fun g => (glen g, map fpath (gfiles g))) gs.

(* E2: f1,f2 hard links (id 1) + f3 copy, transform = first 5 bytes *)
Definition d15 := [104;101;108;108;111;32;119;111;114;108;100;32;49;50;51].
Definition e2 := [mk 1 1 d15; mk 2 1 d15; mk 3 2 d15].
Eval vm_compute in show (pipeline_t toyH (firstn 5) true false (Over 0) true e2).   (* faithful: split *)
Eval vm_compute in show (pipeline_t toyH (firstn 5) true true  (Over 0) true e2).   (* F5 fixed *)
(* E1: ab / ac with a 4x expanding transform *)
Definition expand (d : list N) := flat_map (fun x => [48;48;x;x]) d.
Definition e1 := [mk 1 1 [97;98]; mk 2 2 [97;99]].
Eval vm_compute in show (pipeline_t toyH expand false true (Over 0) true e1).        (* faithful: merged *)
Eval vm_compute in show (pipeline_t toyH expand true  true (Over 0) true e1).        (* F4 fixed *)
(* plain pipeline: two equal files, one differing in the last byte, P=4, minP=2 *)
Definition e3 := [mk 1 1 [1;2;3;4;5;6]; mk 2 2 [1;2;3;4;5;6]; mk 3 3 [1;2;3;4;5;7]; mk 4 4 [9]].
Eval vm_compute in show (pipeline toyH 4 2 2 100 (Over 1) true e3).
