// Copies /repo/fclones/src/semaphore.rs (the CURRENT source) into OUT_DIR with exactly one line
// changed: the std::sync import is replaced by the scheduler-instrumented primitives of
// src/bin/sem.rs.  If that line is gone the build fails, which the check reports as a broken
// correspondence for C19.
use std::{env, fs, path::PathBuf};

fn main() {
    println!("cargo:rerun-if-env-changed=VERIF_REPO");
    let repo = env::var("VERIF_REPO").unwrap_or_else(|_| "/repo".to_string());
    let src = format!("{repo}/fclones/src/semaphore.rs");
    let src = src.as_str();
    println!("cargo:rerun-if-changed={src}");
    println!("cargo:rerun-if-changed=build.rs");
    let text = fs::read_to_string(src).expect("read semaphore.rs");
    let needle = "use std::sync::{Arc, Condvar, Mutex};";
    assert_eq!(
        text.matches(needle).count(),
        1,
        "semaphore.rs no longer contains exactly one `{needle}`"
    );
    // drop the unit tests of the original file (they use std threads)
    let cut = text.find("#[cfg(test)]").unwrap_or(text.len());
    let out = text[..cut].replace(needle, "use crate::simsync::{Arc, Condvar, Mutex};");
    let dst = PathBuf::from(env::var("OUT_DIR").unwrap()).join("semaphore_sim.rs");
    fs::write(dst, out).unwrap();
}
