// Copies /repo/fclones/src/semaphore.rs (the CURRENT source) into OUT_DIR with every `std::sync::`
// path redirected to the scheduler-instrumented primitives of src/bin/sem.rs (simsync).  If the
// file stops using std::sync, or uses an item simsync does not provide, the build fails, which
// the check reports as a broken correspondence for C19.
use std::{env, fs, path::PathBuf};

fn main() {
    println!("cargo:rerun-if-env-changed=VERIF_REPO");
    let repo = env::var("VERIF_REPO").unwrap_or_else(|_| "/repo".to_string());
    let src = format!("{repo}/fclones/src/semaphore.rs");
    let src = src.as_str();
    println!("cargo:rerun-if-changed={src}");
    println!("cargo:rerun-if-changed=build.rs");
    let text = fs::read_to_string(src).expect("read semaphore.rs");
    // drop the unit tests of the original file (they use std threads)
    let cut = text.find("#[cfg(test)]").unwrap_or(text.len());
    let body = &text[..cut];
    // every std::sync item (Mutex, MutexGuard, Condvar, Arc, ...) is taken from the instrumented module
    assert!(
        body.contains("std::sync::"),
        "semaphore.rs no longer uses std::sync: the scheduler instrumentation cannot be attached"
    );
    let out = body.replace("std::sync::", "crate::simsync::");
    let dst = PathBuf::from(env::var("OUT_DIR").unwrap()).join("semaphore_sim.rs");
    fs::write(dst, out).unwrap();
}
