//! Engine S correspondence harness (property C19).
//!
//! The CURRENT /repo/fclones/src/semaphore.rs is compiled (see build.rs) against the
//! instrumented `simsync::{Mutex, Condvar, Arc}` below.  Simulated threads are real OS threads,
//! but only the one holding the scheduler's baton runs; at every synchronisation operation
//! (lock, unlock, wait, notify, start of a release) the thread yields and the scheduler picks
//! the next enabled action: which thread runs, which sleeper `notify_one` wakes, whether a
//! sleeper wakes spuriously.  The choice sequence comes from a DFS over all schedules, from the
//! PRNG, or from a replay file.  Every run prints its event trace (validated against the Coq
//! model by the extracted checker) and implementation-level monitors.
//!
//! usage:  sem dfs   <permits> <spurious> <max_schedules> <script>
//!         sem rand  <permits> <spurious> <count> <seed> <script>
//!         sem replay <permits> <spurious> <script> <c0,c1,...>
//! script: threads separated by '/', ops: a = acquire (owned guard), b = acquire (borrowed guard,
//!         released by the next r of the same thread), r = release a guard this thread owns,
//!         s<u> = hand the most recently acquired owned guard to thread u.
//! output: one line per schedule:
//!         <permits> <n> <events> | end=<done|stuck> ctr=<v> hmax=<h> owned=<k> sleepers=<k> | <choices> | <noptions>

use std::cell::RefCell;
use std::panic::{catch_unwind, AssertUnwindSafe};
use std::sync::Arc as StdArc;
use std::sync::{Condvar as StdCondvar, Mutex as StdMutex};

use harness::SplitMix64;

#[derive(Clone, Copy, PartialEq, Debug)]
enum Pending {
    Running,
    Start,
    Lock,
    Unlock,
    Wait,
    Notify,
    StartRel,
    Atom,
    Sleeping,
    Relock,
    Done,
}

#[derive(Clone, Copy, Debug)]
enum Opt {
    Run(usize),
    RunNotify(usize, Option<usize>),
    Spurious(usize),
}

struct Inner {
    current: Option<usize>,
    pending: Vec<Pending>,
    owner: Option<usize>,
    owned: Vec<usize>,
    victim: Vec<Option<usize>>,
    prefix: Vec<usize>,
    rng: Option<SplitMix64>,
    log: Vec<(usize, usize)>,
    trace: Vec<String>,
    spurious_left: usize,
    woke_spuriously: Vec<bool>,
    abort: bool,
    stuck: bool,
    registered: usize,
    ctr: i64,
    holders: i64,
    hmax: i64,
    end_sleepers: usize,
}

pub struct Sched {
    inner: StdMutex<Inner>,
    cv: StdCondvar,
}

struct Aborted;

impl Inner {
    fn choose(&mut self, n: usize) -> usize {
        let i = self.log.len();
        let c = if i < self.prefix.len() {
            self.prefix[i].min(n - 1)
        } else if let Some(r) = self.rng.as_mut() {
            r.below(n as u64) as usize
        } else {
            0
        };
        self.log.push((c, n));
        c
    }

    /// Called by the thread that gives up the baton (its `pending` is already set).
    fn schedule_next(&mut self) {
        loop {
            let mut opts = Vec::new();
            let sleepers: Vec<usize> =
                (0..self.pending.len()).filter(|&u| self.pending[u] == Pending::Sleeping).collect();
            for t in 0..self.pending.len() {
                match self.pending[t] {
                    Pending::Lock | Pending::Relock => {
                        if self.owner.is_none() {
                            opts.push(Opt::Run(t))
                        }
                    }
                    Pending::Start | Pending::Unlock | Pending::Wait | Pending::Atom => opts.push(Opt::Run(t)),
                    Pending::StartRel => {
                        if self.owned[t] > 0 {
                            opts.push(Opt::Run(t))
                        }
                    }
                    Pending::Notify => {
                        if sleepers.is_empty() {
                            opts.push(Opt::RunNotify(t, None))
                        } else {
                            for &u in &sleepers {
                                opts.push(Opt::RunNotify(t, Some(u)))
                            }
                        }
                    }
                    Pending::Sleeping => {
                        if self.spurious_left > 0 {
                            opts.push(Opt::Spurious(t))
                        }
                    }
                    Pending::Running | Pending::Done => {}
                }
            }
            // A spurious wake-up alone never unblocks the system usefully, but it is a legal step;
            // it is only offered while the budget lasts, so schedules stay finite.
            if opts.is_empty() {
                self.stuck = self.pending.iter().any(|p| *p != Pending::Done);
                self.end_sleepers = sleepers.len();
                self.abort = true;
                self.current = None;
                return;
            }
            let c = self.choose(opts.len());
            match opts[c] {
                Opt::Spurious(u) => {
                    self.spurious_left -= 1;
                    self.woke_spuriously[u] = true;
                    self.pending[u] = Pending::Relock;
                    self.trace.push(format!("S{u}"));
                    continue;
                }
                Opt::Run(t) => {
                    self.current = Some(t);
                    return;
                }
                Opt::RunNotify(t, v) => {
                    self.victim[t] = v;
                    self.current = Some(t);
                    return;
                }
            }
        }
    }
}

impl Sched {
    fn aborting(&self) -> bool {
        self.inner.lock().unwrap().abort
    }

    fn with_inner<R>(&self, f: impl FnOnce(&mut Inner) -> R) -> R {
        f(&mut self.inner.lock().unwrap())
    }

    /// Declare the next visible operation, give up the baton, wait until this thread is chosen.
    /// On return the thread holds the baton and `f` has been applied to the scheduler state
    /// atomically with the grant.
    fn yield_op<R>(&self, me: usize, op: Pending, first: bool, f: impl FnOnce(&mut Inner) -> R) -> Result<R, Aborted> {
        let mut g = self.inner.lock().unwrap();
        if g.abort {
            return Err(Aborted);
        }
        g.pending[me] = op;
        if first {
            g.registered += 1;
        } else {
            g.schedule_next();
        }
        self.cv.notify_all();
        while g.current != Some(me) && !g.abort {
            g = self.cv.wait(g).unwrap();
        }
        if g.abort {
            return Err(Aborted);
        }
        g.pending[me] = Pending::Running;
        Ok(f(&mut g))
    }

    fn with<R>(&self, f: impl FnOnce(&mut Inner) -> R) -> R {
        f(&mut self.inner.lock().unwrap())
    }
}

thread_local! {
    static CTX: RefCell<Option<(StdArc<Sched>, usize)>> = RefCell::new(None);
}

fn ctx() -> (StdArc<Sched>, usize) {
    CTX.with(|c| c.borrow().clone().expect("sim primitive used outside a simulated thread"))
}

pub mod simsync {
    use super::{ctx, Pending};
    use std::cell::UnsafeCell;
    use std::ops::{Deref, DerefMut};
    pub use std::sync::{Arc, LockResult, PoisonError, TryLockError, TryLockResult, Weak};

    /// `std::sync::atomic` with every operation a scheduling point of its own (always enabled, invisible in the event trace):
    /// state kept in atomics OUTSIDE the mutex (lock-free fast paths, flags) is interleaved with everything else.
    pub mod atomic {
        use super::super::{Pending, CTX};
        pub use std::sync::atomic::{compiler_fence, fence, AtomicPtr, Ordering};

        fn point() {
            let c = CTX.with(|c| c.borrow().clone());
            if let Some((s, me)) = c {
                let _ = s.yield_op(me, Pending::Atom, false, |_| ());
            }
        }

        macro_rules! sim_atomic_int {
            ($name:ident, $t:ty) => {
                #[derive(Debug, Default)]
                pub struct $name(std::sync::atomic::$name);
                impl $name {
                    pub const fn new(v: $t) -> Self { $name(std::sync::atomic::$name::new(v)) }
                    pub fn into_inner(self) -> $t { self.0.into_inner() }
                    pub fn get_mut(&mut self) -> &mut $t { self.0.get_mut() }
                    pub fn load(&self, o: Ordering) -> $t { point(); self.0.load(o) }
                    pub fn store(&self, v: $t, o: Ordering) { point(); self.0.store(v, o) }
                    pub fn swap(&self, v: $t, o: Ordering) -> $t { point(); self.0.swap(v, o) }
                    pub fn fetch_add(&self, v: $t, o: Ordering) -> $t { point(); self.0.fetch_add(v, o) }
                    pub fn fetch_sub(&self, v: $t, o: Ordering) -> $t { point(); self.0.fetch_sub(v, o) }
                    pub fn fetch_and(&self, v: $t, o: Ordering) -> $t { point(); self.0.fetch_and(v, o) }
                    pub fn fetch_or(&self, v: $t, o: Ordering) -> $t { point(); self.0.fetch_or(v, o) }
                    pub fn fetch_xor(&self, v: $t, o: Ordering) -> $t { point(); self.0.fetch_xor(v, o) }
                    pub fn fetch_max(&self, v: $t, o: Ordering) -> $t { point(); self.0.fetch_max(v, o) }
                    pub fn fetch_min(&self, v: $t, o: Ordering) -> $t { point(); self.0.fetch_min(v, o) }
                    pub fn compare_exchange(&self, c: $t, n: $t, s: Ordering, f: Ordering) -> Result<$t, $t> {
                        point();
                        self.0.compare_exchange(c, n, s, f)
                    }
                    /// never fails spuriously here (a spurious failure is only a retry of the caller's loop)
                    pub fn compare_exchange_weak(&self, c: $t, n: $t, s: Ordering, f: Ordering) -> Result<$t, $t> {
                        point();
                        self.0.compare_exchange(c, n, s, f)
                    }
                    pub fn fetch_update<F: FnMut($t) -> Option<$t>>(&self, s: Ordering, f: Ordering, mut g: F) -> Result<$t, $t> {
                        let mut prev = self.load(f);
                        while let Some(next) = g(prev) {
                            match self.compare_exchange_weak(prev, next, s, f) {
                                x @ Ok(_) => return x,
                                Err(p) => prev = p,
                            }
                        }
                        Err(prev)
                    }
                }
                impl From<$t> for $name {
                    fn from(v: $t) -> Self { $name::new(v) }
                }
            };
        }
        sim_atomic_int!(AtomicIsize, isize);
        sim_atomic_int!(AtomicUsize, usize);
        sim_atomic_int!(AtomicI64, i64);
        sim_atomic_int!(AtomicU64, u64);
        sim_atomic_int!(AtomicI32, i32);
        sim_atomic_int!(AtomicU32, u32);
        sim_atomic_int!(AtomicI16, i16);
        sim_atomic_int!(AtomicU16, u16);
        sim_atomic_int!(AtomicI8, i8);
        sim_atomic_int!(AtomicU8, u8);

        #[derive(Debug, Default)]
        pub struct AtomicBool(std::sync::atomic::AtomicBool);
        impl AtomicBool {
            pub const fn new(v: bool) -> Self { AtomicBool(std::sync::atomic::AtomicBool::new(v)) }
            pub fn into_inner(self) -> bool { self.0.into_inner() }
            pub fn get_mut(&mut self) -> &mut bool { self.0.get_mut() }
            pub fn load(&self, o: Ordering) -> bool { point(); self.0.load(o) }
            pub fn store(&self, v: bool, o: Ordering) { point(); self.0.store(v, o) }
            pub fn swap(&self, v: bool, o: Ordering) -> bool { point(); self.0.swap(v, o) }
            pub fn fetch_and(&self, v: bool, o: Ordering) -> bool { point(); self.0.fetch_and(v, o) }
            pub fn fetch_or(&self, v: bool, o: Ordering) -> bool { point(); self.0.fetch_or(v, o) }
            pub fn fetch_xor(&self, v: bool, o: Ordering) -> bool { point(); self.0.fetch_xor(v, o) }
            pub fn fetch_nand(&self, v: bool, o: Ordering) -> bool { point(); self.0.fetch_nand(v, o) }
            pub fn compare_exchange(&self, c: bool, n: bool, s: Ordering, f: Ordering) -> Result<bool, bool> {
                point();
                self.0.compare_exchange(c, n, s, f)
            }
            pub fn compare_exchange_weak(&self, c: bool, n: bool, s: Ordering, f: Ordering) -> Result<bool, bool> {
                point();
                self.0.compare_exchange(c, n, s, f)
            }
        }
        impl From<bool> for AtomicBool {
            fn from(v: bool) -> Self { AtomicBool::new(v) }
        }
    }

    /// What the monitors may look at: the counter, when the protected state IS a plain integer (as in the
    /// unchanged semaphore.rs); any other state type (a struct, a tuple) is reported as unknown (i64::MIN)
    /// and only the counter-independent monitors apply.
    pub trait Observable: 'static {
        fn obs(&self) -> i64;
    }
    impl<T: 'static> Observable for T {
        fn obs(&self) -> i64 {
            let a = self as &dyn std::any::Any;
            if let Some(v) = a.downcast_ref::<isize>() {
                *v as i64
            } else if let Some(v) = a.downcast_ref::<i64>() {
                *v
            } else if let Some(v) = a.downcast_ref::<i32>() {
                *v as i64
            } else if let Some(v) = a.downcast_ref::<usize>() {
                *v as i64
            } else {
                i64::MIN
            }
        }
    }

    pub struct Mutex<T: Observable> {
        val: UnsafeCell<T>,
    }
    unsafe impl<T: Observable + Send> Sync for Mutex<T> {}
    unsafe impl<T: Observable + Send> Send for Mutex<T> {}

    pub struct MutexGuard<'a, T: Observable> {
        m: &'a Mutex<T>,
        live: bool,
    }

    impl<T: Observable> Mutex<T> {
        pub fn new(v: T) -> Self {
            Mutex { val: UnsafeCell::new(v) }
        }
        pub fn lock(&self) -> LockResult<MutexGuard<'_, T>> {
            let (s, me) = ctx();
            let r = s.yield_op(me, Pending::Lock, false, |g| {
                g.owner = Some(me);
                g.trace.push(format!("L{me}"));
            });
            Ok(MutexGuard { m: self, live: r.is_ok() })
        }
        /// `Mutex::try_lock`: a scheduling point that is always enabled; takes the mutex iff it is free at that moment
        pub fn try_lock(&self) -> TryLockResult<MutexGuard<'_, T>> {
            let (s, me) = ctx();
            let r = s.yield_op(me, Pending::Atom, false, |g| {
                if g.owner.is_none() {
                    g.owner = Some(me);
                    g.trace.push(format!("L{me}"));
                    true
                } else {
                    false
                }
            });
            match r {
                Ok(true) => Ok(MutexGuard { m: self, live: true }),
                Ok(false) => Err(TryLockError::WouldBlock),
                Err(_) => Ok(MutexGuard { m: self, live: false }),
            }
        }
    }

    impl<T: Observable> Deref for MutexGuard<'_, T> {
        type Target = T;
        fn deref(&self) -> &T {
            unsafe { &*self.m.val.get() }
        }
    }
    impl<T: Observable> DerefMut for MutexGuard<'_, T> {
        fn deref_mut(&mut self) -> &mut T {
            unsafe { &mut *self.m.val.get() }
        }
    }
    impl<T: Observable> Drop for MutexGuard<'_, T> {
        fn drop(&mut self) {
            if !self.live {
                return;
            }
            let (s, me) = ctx();
            let v = unsafe { (*self.m.val.get()).obs() };
            let _ = s.yield_op(me, Pending::Unlock, false, |g| {
                g.owner = None;
                g.ctr = v;
                g.trace.push(format!("U{me}:{v}"));
            });
        }
    }

    #[derive(Debug, PartialEq, Eq, Copy, Clone)]
    pub struct WaitTimeoutResult(bool);
    impl WaitTimeoutResult {
        pub fn timed_out(&self) -> bool {
            self.0
        }
    }

    pub struct Condvar;

    impl Condvar {
        pub fn new() -> Self {
            Condvar
        }
        pub fn wait<'a, T: Observable>(&self, mut guard: MutexGuard<'a, T>) -> LockResult<MutexGuard<'a, T>> {
            let (s, me) = ctx();
            if !guard.live {
                return Err(PoisonError::new(guard));
            }
            let v = unsafe { (*guard.m.val.get()).obs() };
            // granted: atomically release the mutex and go to sleep
            let r = s.yield_op(me, Pending::Wait, false, |g| {
                g.owner = None;
                g.ctr = v;
                g.trace.push(format!("W{me}:{v}"));
            });
            if r.is_err() {
                guard.live = false;
                return Err(PoisonError::new(guard));
            }
            // sleep until notified (or spuriously woken) AND re-granted the mutex
            let r = s.yield_op(me, Pending::Sleeping, false, |g| {
                g.owner = Some(me);
                g.trace.push(format!("L{me}"));
            });
            if r.is_err() {
                guard.live = false;
                return Err(PoisonError::new(guard));
            }
            Ok(guard)
        }
        /// `Condvar::wait_while`: waits until the condition is false (loop over `wait`, as std does)
        pub fn wait_while<'a, T: Observable, F>(&self, mut guard: MutexGuard<'a, T>, mut condition: F) -> LockResult<MutexGuard<'a, T>>
        where
            F: FnMut(&mut T) -> bool,
        {
            while condition(&mut *guard) {
                guard = self.wait(guard)?;
            }
            Ok(guard)
        }
        /// `Condvar::wait_timeout`: a wait that may also end without a notification; the scheduler's spurious
        /// wake-up (offered while the budget lasts) plays the role of the expiring timer and is reported as
        /// `timed_out() == true`.
        pub fn wait_timeout<'a, T: Observable>(
            &self,
            guard: MutexGuard<'a, T>,
            _dur: std::time::Duration,
        ) -> LockResult<(MutexGuard<'a, T>, WaitTimeoutResult)> {
            let (s, me) = ctx();
            s.with_inner(|g| g.woke_spuriously[me] = false);
            match self.wait(guard) {
                Ok(g) => {
                    let t = s.with_inner(|i| std::mem::replace(&mut i.woke_spuriously[me], false));
                    Ok((g, WaitTimeoutResult(t)))
                }
                Err(e) => Err(PoisonError::new((e.into_inner(), WaitTimeoutResult(false)))),
            }
        }
        /// `Condvar::wait_timeout_while` as std defines it: loop until the condition is false or the time is up
        pub fn wait_timeout_while<'a, T: Observable, F>(
            &self,
            mut guard: MutexGuard<'a, T>,
            dur: std::time::Duration,
            mut condition: F,
        ) -> LockResult<(MutexGuard<'a, T>, WaitTimeoutResult)>
        where
            F: FnMut(&mut T) -> bool,
        {
            loop {
                if !condition(&mut *guard) {
                    return Ok((guard, WaitTimeoutResult(false)));
                }
                let (g, r) = self.wait_timeout(guard, dur)?;
                guard = g;
                if r.timed_out() {
                    let still = condition(&mut *guard);
                    return Ok((guard, WaitTimeoutResult(still)));
                }
            }
        }
        /// `notify_all` wakes every sleeper (each still has to re-acquire the mutex)
        pub fn notify_all(&self) {
            let (s, me) = ctx();
            let _ = s.yield_op(me, Pending::Notify, false, |g| {
                g.victim[me].take();
                let sleepers: Vec<usize> = (0..g.pending.len()).filter(|&u| g.pending[u] == Pending::Sleeping).collect();
                if sleepers.is_empty() {
                    g.trace.push(format!("N{me}:-"));
                }
                for u in sleepers {
                    g.pending[u] = Pending::Relock;
                    g.trace.push(format!("N{me}:{u}"));
                }
            });
        }
        pub fn notify_one(&self) {
            let (s, me) = ctx();
            let _ = s.yield_op(me, Pending::Notify, false, |g| {
                let v = g.victim[me].take();
                match v {
                    Some(u) => {
                        g.pending[u] = Pending::Relock;
                        g.trace.push(format!("N{me}:{u}"));
                    }
                    None => g.trace.push(format!("N{me}:-")),
                }
            });
        }
    }
}

mod semaphore {
    include!(concat!(env!("OUT_DIR"), "/semaphore_sim.rs"));
}
use semaphore::{OwnedSemaphoreGuard, Semaphore};

#[derive(Clone, Debug)]
enum Op {
    AcqOwned,
    AcqBorrowed,
    Rel,
    Send(usize),
}

fn parse_script(s: &str) -> Vec<Vec<Op>> {
    s.split('/')
        .map(|t| {
            let cs: Vec<char> = t.chars().collect();
            let mut i = 0;
            let mut ops = vec![];
            while i < cs.len() {
                match cs[i] {
                    'a' => ops.push(Op::AcqOwned),
                    'b' => ops.push(Op::AcqBorrowed),
                    'r' => ops.push(Op::Rel),
                    's' => {
                        i += 1;
                        ops.push(Op::Send(cs[i].to_digit(10).unwrap() as usize))
                    }
                    '-' => {}
                    c => panic!("bad script char {c}"),
                }
                i += 1;
            }
            ops
        })
        .collect()
}

struct Outcome {
    trace: Vec<String>,
    log: Vec<(usize, usize)>,
    stuck: bool,
    ctr: i64,
    hmax: i64,
    owned: usize,
    sleepers: usize,
}

fn run_once(permits: isize, spurious: usize, script: &[Vec<Op>], prefix: Vec<usize>, rng: Option<SplitMix64>) -> Outcome {
    let n = script.len();
    let sched = StdArc::new(Sched {
        inner: StdMutex::new(Inner {
            current: None,
            pending: vec![Pending::Running; n],
            owner: None,
            owned: vec![0; n],
            victim: vec![None; n],
            prefix,
            rng,
            log: vec![],
            trace: vec![],
            spurious_left: spurious,
            woke_spuriously: vec![false; n],
            abort: false,
            stuck: false,
            registered: 0,
            ctr: permits as i64,
            holders: 0,
            hmax: 0,
            end_sleepers: 0,
        }),
        cv: StdCondvar::new(),
    });
    let sem = StdArc::new(Semaphore::new(permits));
    let mailboxes: StdArc<Vec<StdMutex<Vec<OwnedSemaphoreGuard>>>> =
        StdArc::new((0..n).map(|_| StdMutex::new(Vec::new())).collect());
    let mut handles = vec![];
    for me in 0..n {
        let sched = sched.clone();
        let sem = sem.clone();
        let mailboxes = mailboxes.clone();
        let ops = script[me].clone();
        handles.push(std::thread::spawn(move || {
            CTX.with(|c| *c.borrow_mut() = Some((sched.clone(), me)));
            let body = AssertUnwindSafe(|| {
                if sched.yield_op(me, Pending::Start, true, |_| ()).is_err() {
                    return;
                }
                let mut stash: Vec<OwnedSemaphoreGuard> = vec![];
                let mut i = 0;
                while i < ops.len() {
                    match &ops[i] {
                        Op::AcqOwned => {
                            sched.with(|g| g.trace.push(format!("A{me}")));
                            let guard = sem.clone().access_owned();
                            if sched.aborting() {
                                std::mem::forget(guard);
                                return;
                            }
                            sched.with(|g| {
                                g.owned[me] += 1;
                                g.holders += 1;
                                g.hmax = g.hmax.max(g.holders);
                            });
                            stash.push(guard);
                        }
                        Op::AcqBorrowed => {
                            // borrowed guard: acquire ... release on the same thread (the next 'r')
                            sched.with(|g| g.trace.push(format!("A{me}")));
                            let guard = sem.access();
                            if sched.aborting() {
                                std::mem::forget(guard);
                                return;
                            }
                            sched.with(|g| {
                                g.owned[me] += 1;
                                g.holders += 1;
                                g.hmax = g.hmax.max(g.holders);
                            });
                            // the matching release must be the next op of this thread
                            i += 1;
                            assert!(matches!(ops.get(i), Some(Op::Rel)), "b must be followed by r");
                            if sched
                                .yield_op(me, Pending::StartRel, false, |g| {
                                    g.owned[me] -= 1;
                                    g.holders -= 1;
                                    g.trace.push(format!("R{me}"));
                                })
                                .is_err()
                            {
                                std::mem::forget(guard);
                                return;
                            }
                            drop(guard);
                        }
                        Op::Rel => {
                            if sched
                                .yield_op(me, Pending::StartRel, false, |g| {
                                    g.owned[me] -= 1;
                                    g.holders -= 1;
                                    g.trace.push(format!("R{me}"));
                                })
                                .is_err()
                            {
                                for g in stash.drain(..) {
                                    std::mem::forget(g);
                                }
                                return;
                            }
                            let guard = match stash.pop() {
                                Some(g) => g,
                                None => mailboxes[me].lock().unwrap().pop().expect("guard in mailbox"),
                            };
                            drop(guard);
                        }
                        Op::Send(u) => {
                            let guard = stash.pop().expect("s<u> needs an owned guard");
                            mailboxes[*u].lock().unwrap().push(guard);
                            sched.with(|g| {
                                g.owned[me] -= 1;
                                g.owned[*u] += 1;
                                g.trace.push(format!("G{me}:{u}"));
                            });
                        }
                    }
                    if sched.aborting() {
                        for g in stash.drain(..) {
                            std::mem::forget(g);
                        }
                        return;
                    }
                    i += 1;
                }
                // guards still owned at the end of the script stay alive (never dropped) so that the
                // trace contains no release the script did not ask for
                for g in stash.drain(..) {
                    std::mem::forget(g);
                }
            });
            let _ = catch_unwind(body);
            let mut g = sched.inner.lock().unwrap();
            g.pending[me] = Pending::Done;
            if !g.abort && g.current == Some(me) {
                g.schedule_next();
            }
            sched.cv.notify_all();
        }));
    }
    {
        let mut g = sched.inner.lock().unwrap();
        while g.registered < n {
            g = sched.cv.wait(g).unwrap();
        }
        g.schedule_next();
        sched.cv.notify_all();
    }
    for h in handles {
        let _ = h.join();
    }
    // leftover guards in mailboxes must not run release() outside a simulated thread
    for m in mailboxes.iter() {
        for g in m.lock().unwrap().drain(..) {
            std::mem::forget(g);
        }
    }
    let g = sched.inner.lock().unwrap();
    Outcome {
        trace: g.trace.clone(),
        log: g.log.clone(),
        stuck: g.stuck,
        ctr: g.ctr,
        hmax: g.hmax,
        owned: g.owned.iter().sum(),
        sleepers: g.end_sleepers,
    }
}

fn print_outcome(permits: isize, n: usize, o: &Outcome) {
    println!(
        "{} {} {} | end={} ctr={} hmax={} owned={} sleepers={} | {} | {}",
        permits,
        n,
        o.trace.join(" "),
        if o.stuck { "stuck" } else { "done" },
        o.ctr,
        o.hmax,
        o.owned,
        o.sleepers,
        o.log.iter().map(|(c, _)| c.to_string()).collect::<Vec<_>>().join(","),
        o.log.iter().map(|(_, n)| n.to_string()).collect::<Vec<_>>().join(","),
    );
}

fn main() {
    std::panic::set_hook(Box::new(|_| {}));
    let args: Vec<String> = std::env::args().collect();
    let mode = args[1].as_str();
    let permits: isize = args[2].parse().unwrap();
    let spurious: usize = args[3].parse().unwrap();
    match mode {
        "dfs" => {
            let max: usize = args[4].parse().unwrap();
            let script = parse_script(&args[5]);
            let mut prefix: Vec<usize> = vec![];
            let mut count = 0;
            let mut complete = false;
            while count < max {
                let o = run_once(permits, spurious, &script, prefix.clone(), None);
                print_outcome(permits, script.len(), &o);
                count += 1;
                // next schedule in DFS order
                let mut i = o.log.len();
                let mut next = None;
                while i > 0 {
                    i -= 1;
                    if o.log[i].0 + 1 < o.log[i].1 {
                        let mut p: Vec<usize> = o.log[..i].iter().map(|x| x.0).collect();
                        p.push(o.log[i].0 + 1);
                        next = Some(p);
                        break;
                    }
                }
                match next {
                    Some(p) => prefix = p,
                    None => {
                        complete = true;
                        break;
                    }
                }
            }
            println!("# dfs schedules={} exhaustive={}", count, complete);
        }
        "rand" => {
            let count: usize = args[4].parse().unwrap();
            let seed: u64 = args[5].parse().unwrap();
            let script = parse_script(&args[6]);
            let mut rng = SplitMix64::new(seed);
            for _ in 0..count {
                let o = run_once(permits, spurious, &script, vec![], Some(rng.fork()));
                print_outcome(permits, script.len(), &o);
            }
        }
        "replay" => {
            let script = parse_script(&args[4]);
            let prefix: Vec<usize> =
                args.get(5).map(|s| s.split(',').filter(|x| !x.is_empty()).map(|x| x.parse().unwrap()).collect()).unwrap_or_default();
            let o = run_once(permits, spurious, &script, prefix, None);
            print_outcome(permits, script.len(), &o);
        }
        _ => panic!("unknown mode"),
    }
}
