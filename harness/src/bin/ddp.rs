//! Engine D correspondence harness (properties C08, C04): dedupe decisions.
//!
//! usage:  ddp api  <scratch-dir> <second-device-dir|->     cases (JSON, one per line) on stdin
//!         ddp hist <scratch-dir>                            histories (JSON, one per line) on stdin
//!
//! `api`: every case describes a duplicate group (inodes, hard-link sets, symlinks, non-regular and
//! missing members, times) and a DedupeConfig.  The harness builds the real files, checks with its own
//! lstat/statx calls that the plan took effect, calls
//!   fclones::verif_api::dedupe::verif::partition(group, &config, &log)   and
//!   fclones::dedupe(groups, op, &config, &log)
//! and prints   <id> TAB <model input line (see coq/driver/drv_D.ml)> TAB <result in the driver's format>.
//! keep / may-drop are passed to the model as per-pattern match bits computed with
//! `Pattern::matches` here; the combination rule is part of the model.
//!
//! `hist`: see `run_hist` (property C04; report time stamp vs. file changes, the real library calls
//! in the order main.rs uses them).

use std::collections::BTreeMap;
use std::ffi::CString;
use std::io::{BufRead, Write};
use std::os::unix::ffi::OsStrExt;
use std::panic::{catch_unwind, AssertUnwindSafe};
use std::path::{Path as StdPath, PathBuf};
use std::sync::{Arc, Mutex};

use chrono::{DateTime, FixedOffset, TimeZone, Utc};
use fclones::log::{Log, LogLevel, ProgressBarLength};
use fclones::progress::{NoProgressBar, ProgressTracker};
use fclones::verif_api::dedupe::verif as dverif;
use fclones::verif_api::dedupe::FsCommand;
use fclones::verif_api::pattern::Pattern;
use fclones::{
    DedupeConfig, DedupeOp, DiskDevices, FileGroup, FileHash, FileLen, Path as FPath, PathAndMetadata,
    Priority,
};
use rayon::iter::ParallelIterator;
use serde_json::Value;

const BASE_SECS: i64 = 1_700_000_000;

struct CapLog {
    msgs: Mutex<Vec<String>>,
}
impl CapLog {
    fn new() -> CapLog {
        CapLog { msgs: Mutex::new(vec![]) }
    }
}
impl Log for CapLog {
    fn progress_bar(&self, _msg: &str, _len: ProgressBarLength) -> Arc<dyn ProgressTracker> {
        Arc::new(NoProgressBar)
    }
    fn log(&self, level: LogLevel, msg: String) {
        let l = match level {
            LogLevel::Info => "info",
            LogLevel::Warn => "warn",
            LogLevel::Error => "error",
        };
        self.msgs.lock().unwrap().push(format!("{l}: {msg}"));
    }
}

#[derive(Clone, Debug, Default)]
struct Stx {
    dev: u64,
    ino: u64,
    len: u64,
    mode: u32,
    mtime: i128,
    atime: i128,
    btime: Option<i128>,
    ctime: (i64, i64),
}

fn statx(path: &StdPath, follow: bool) -> Option<Stx> {
    let c = CString::new(path.as_os_str().as_bytes()).unwrap();
    let mut buf: libc::statx = unsafe { std::mem::zeroed() };
    let flags = if follow { 0 } else { libc::AT_SYMLINK_NOFOLLOW };
    let rc = unsafe {
        libc::statx(
            libc::AT_FDCWD,
            c.as_ptr(),
            flags,
            libc::STATX_BASIC_STATS | libc::STATX_BTIME,
            &mut buf,
        )
    };
    if rc != 0 {
        return None;
    }
    let ns = |t: &libc::statx_timestamp| t.tv_sec as i128 * 1_000_000_000 + t.tv_nsec as i128;
    Some(Stx {
        dev: libc::makedev(buf.stx_dev_major, buf.stx_dev_minor) as u64,
        ino: buf.stx_ino,
        len: buf.stx_size,
        mode: buf.stx_mode as u32,
        mtime: ns(&buf.stx_mtime),
        atime: ns(&buf.stx_atime),
        btime: if buf.stx_mask & libc::STATX_BTIME != 0 { Some(ns(&buf.stx_btime)) } else { None },
        ctime: (buf.stx_ctime.tv_sec, buf.stx_ctime.tv_nsec as i64),
    })
}

fn hex_comp(b: &[u8]) -> String {
    b.iter().map(|x| format!("{x:02x}")).collect()
}
/// components of a path as the model sees them: "/" first when absolute
fn path_hex(p: &StdPath) -> String {
    let b = p.as_os_str().as_bytes();
    let mut out: Vec<String> = vec![];
    if b.first() == Some(&b'/') {
        out.push("2f".to_string());
    }
    for c in b.split(|x| *x == b'/') {
        if !c.is_empty() {
            out.push(hex_comp(c));
        }
    }
    out.join("/")
}

fn s<'a>(v: &'a Value, k: &str) -> &'a str {
    v[k].as_str().unwrap_or("")
}

/// the "path" of a member; `%XX` stands for the raw byte XX (file names that are not valid UTF-8)
fn raw_path(v: &Value) -> PathBuf {
    use std::os::unix::ffi::OsStringExt;
    let t = s(v, "path").as_bytes();
    let mut out = vec![];
    let mut i = 0;
    while i < t.len() {
        if t[i] == b'%' && i + 2 < t.len() {
            if let Ok(b) = u8::from_str_radix(std::str::from_utf8(&t[i + 1..i + 3]).unwrap_or("zz"), 16) {
                out.push(b);
                i += 3;
                continue;
            }
        }
        out.push(t[i]);
        i += 1;
    }
    PathBuf::from(std::ffi::OsString::from_vec(out))
}
fn strs(v: &Value, k: &str) -> Vec<String> {
    v[k].as_array().map(|a| a.iter().map(|x| x.as_str().unwrap().to_string()).collect()).unwrap_or_default()
}

fn priority_of(i: u64) -> Priority {
    match i {
        0 => Priority::Top,
        1 => Priority::Bottom,
        2 => Priority::Newest,
        3 => Priority::Oldest,
        4 => Priority::MostRecentlyModified,
        5 => Priority::LeastRecentlyModified,
        6 => Priority::MostRecentlyAccessed,
        7 => Priority::LeastRecentlyAccessed,
        8 => Priority::MostRecentStatusChange,
        9 => Priority::LeastRecentStatusChange,
        10 => Priority::MostNested,
        11 => Priority::LeastNested,
        _ => panic!("priority"),
    }
}

/// the instant `ns`, expressed with UTC offset `off` seconds (the report header stores local time + offset)
fn ts_of_ns(ns: i128, off: i32) -> DateTime<FixedOffset> {
    let secs = ns.div_euclid(1_000_000_000) as i64;
    let sub = ns.rem_euclid(1_000_000_000) as u32;
    Utc.timestamp_opt(secs, sub).unwrap().with_timezone(&FixedOffset::east_opt(off).unwrap())
}

fn ft_of_ns(ns: i128) -> filetime::FileTime {
    filetime::FileTime::from_unix_time(ns.div_euclid(1_000_000_000) as i64, ns.rem_euclid(1_000_000_000) as u32)
}

fn mkparents(p: &StdPath) {
    if let Some(d) = p.parent() {
        std::fs::create_dir_all(d).unwrap();
    }
}

fn bits(pats: &[Pattern], subject: &str) -> String {
    if pats.is_empty() {
        "-".to_string()
    } else {
        pats.iter().map(|p| if p.matches(subject) { '1' } else { '0' }).collect()
    }
}

struct Built {
    paths: Vec<PathBuf>,          // absolute path of every member
    present: Vec<Option<Stx>>,    // stat (following links) of every member, None = unreadable
}

/// time offsets in the case are in units of 1 ms relative to BASE_SECS
fn off_ns(v: &Value) -> i128 {
    BASE_SECS as i128 * 1_000_000_000 + v.as_i64().unwrap() as i128 * 1_000_000
}

fn build_case(case: &Value, dir1: &StdPath, dir2: Option<&StdPath>) -> Result<Built, String> {
    let inodes = case["inodes"].as_array().unwrap();
    let members = case["members"].as_array().unwrap();
    let mut paths: Vec<PathBuf> = vec![];
    for m in members {
        let ino = m["ino"].as_u64();
        let dev2 = match ino {
            Some(i) => inodes[i as usize]["dev2"].as_bool().unwrap_or(false),
            None => false,
        };
        let base = if dev2 { dir2.ok_or("no second device")? } else { dir1 };
        paths.push(base.join(raw_path(m)));
    }
    // inodes in creation order; the first member naming an inode creates it, later ones are hard links
    let mut first: Vec<Option<usize>> = vec![None; inodes.len()];
    for (k, ino) in inodes.iter().enumerate() {
        if let Some(g) = ino["gap_ms"].as_u64() {
            if g > 0 {
                std::thread::sleep(std::time::Duration::from_millis(g));
            }
        }
        for (j, m) in members.iter().enumerate() {
            if m["ino"].as_u64() != Some(k as u64) || s(m, "kind") != "link" {
                continue;
            }
            let p = &paths[j];
            mkparents(p);
            match first[k] {
                None => {
                    match s(ino, "kind") {
                        "file" => {
                            let len = ino["len"].as_u64().unwrap() as usize;
                            let fill = ino["fill"].as_u64().unwrap_or(120) as u8;
                            std::fs::write(p, vec![fill; len]).map_err(|e| e.to_string())?;
                        }
                        "dir" => std::fs::create_dir_all(p).map_err(|e| e.to_string())?,
                        "fifo" => {
                            let c = CString::new(p.as_os_str().as_bytes()).unwrap();
                            if unsafe { libc::mkfifo(c.as_ptr(), 0o644) } != 0 {
                                return Err("mkfifo failed".into());
                            }
                        }
                        k => return Err(format!("inode kind {k}")),
                    }
                    first[k] = Some(j);
                }
                Some(f) => std::fs::hard_link(&paths[f], p).map_err(|e| format!("link: {e}"))?,
            }
        }
    }
    for (j, m) in members.iter().enumerate() {
        match s(m, "kind") {
            "symlink" => {
                mkparents(&paths[j]);
                let t = m["target"].as_u64().unwrap() as usize;
                std::os::unix::fs::symlink(&paths[t], &paths[j]).map_err(|e| format!("symlink: {e}"))?;
            }
            "dangling" => {
                mkparents(&paths[j]);
                std::os::unix::fs::symlink(paths[j].with_file_name("no-such-target"), &paths[j])
                    .map_err(|e| format!("symlink: {e}"))?;
            }
            "missing" => mkparents(&paths[j]),
            _ => {}
        }
    }
    // times, per inode, in inode order (this is also what fixes the ctime order)
    for (k, ino) in inodes.iter().enumerate() {
        if let Some(f) = first[k] {
            if let Some(g) = ino["gap2_ms"].as_u64() {
                if g > 0 {
                    std::thread::sleep(std::time::Duration::from_millis(g));
                }
            }
            filetime::set_file_times(&paths[f], ft_of_ns(off_ns(&ino["atime"])), ft_of_ns(off_ns(&ino["mtime"])))
                .map_err(|e| format!("utimes: {e}"))?;
        }
    }
    // check the plan with our own stat calls
    let mut present = vec![];
    for (j, m) in members.iter().enumerate() {
        let st = statx(&paths[j], true);
        let lst = statx(&paths[j], false);
        let kind = s(m, "kind");
        match kind {
            "missing" => {
                if lst.is_some() {
                    return Err(format!("member {j} should be missing"));
                }
            }
            "dangling" => {
                if st.is_some() || lst.is_none() {
                    return Err(format!("member {j} should be a dangling link"));
                }
            }
            _ => {
                // a symlink member points to an earlier member, possibly a symlink again
                let mut mm = m;
                while s(mm, "kind") == "symlink" {
                    mm = &members[mm["target"].as_u64().unwrap() as usize];
                }
                let k = if s(mm, "kind") == "link" { mm["ino"].as_u64() } else { None };
                match (k, &st) {
                    (Some(k), Some(st)) => {
                        let ino = &inodes[k as usize];
                        let want_mode = match s(ino, "kind") {
                            "file" => libc::S_IFREG,
                            "dir" => libc::S_IFDIR,
                            _ => libc::S_IFIFO,
                        };
                        if st.mode & libc::S_IFMT != want_mode {
                            return Err(format!("member {j}: wrong file type"));
                        }
                        if s(ino, "kind") == "file" && st.len != ino["len"].as_u64().unwrap() {
                            return Err(format!("member {j}: wrong length"));
                        }
                        if st.mtime != off_ns(&ino["mtime"]) || st.atime != off_ns(&ino["atime"]) {
                            return Err(format!("member {j}: times not as requested"));
                        }
                        let f = first[k as usize].unwrap();
                        let fst = statx(&paths[f], true).unwrap();
                        if (fst.dev, fst.ino) != (st.dev, st.ino) {
                            return Err(format!("member {j}: not the planned inode"));
                        }
                    }
                    (None, None) => {} // symlink to a missing member
                    _ => return Err(format!("member {j}: unexpected stat result")),
                }
            }
        }
        present.push(st);
    }
    // distinct planned inodes must be distinct files
    for a in 0..inodes.len() {
        for b in (a + 1)..inodes.len() {
            if let (Some(fa), Some(fb)) = (first[a], first[b]) {
                let (sa, sb) = (statx(&paths[fa], false).unwrap(), statx(&paths[fb], false).unwrap());
                if (sa.dev, sa.ino) == (sb.dev, sb.ino) {
                    return Err("two planned inodes coincide".into());
                }
            }
        }
    }
    Ok(Built { paths, present })
}

fn classify_err(msg: &str) -> String {
    if msg.contains("could be updated since the previous run") {
        "err:modified".into()
    } else if msg.contains("Metadata of some files could not be read") {
        "err:sortkey".into()
    } else {
        format!("err:other:{}", msg.replace(|c: char| c.is_whitespace(), "_"))
    }
}

fn idx_list(paths: &[PathBuf], l: &[PathAndMetadata]) -> String {
    if l.is_empty() {
        return "-".into();
    }
    l.iter().map(|m| idx_of(paths, &m.path)).collect::<Vec<_>>().join(",")
}
fn idx_of(paths: &[PathBuf], p: &FPath) -> String {
    let pb = p.to_path_buf();
    match paths.iter().position(|q| *q == pb) {
        Some(i) => i.to_string(),
        None => format!("?{}", pb.display()),
    }
}

fn cmd_str(paths: &[PathBuf], c: &FsCommand) -> String {
    match c {
        FsCommand::Remove { file } => format!("rm:{}", idx_of(paths, &file.path)),
        FsCommand::SoftLink { target, link } => format!("sl:{}>{}", idx_of(paths, &target.path), idx_of(paths, &link.path)),
        FsCommand::HardLink { target, link } => format!("hl:{}>{}", idx_of(paths, &target.path), idx_of(paths, &link.path)),
        FsCommand::RefLink { target, link } => format!("rl:{}>{}", idx_of(paths, &target.path), idx_of(paths, &link.path)),
        FsCommand::Move { source, target, use_rename } => format!(
            "mv:{}>{}:{}",
            idx_of(paths, &source.path),
            path_hex(&target.to_path_buf()),
            if *use_rename { 1 } else { 0 }
        ),
    }
}

fn make_config(case: &Value, dir1: &StdPath) -> (DedupeConfig, [Vec<Pattern>; 4]) {
    let pats = |k: &str| -> Vec<Pattern> { strs(case, k).iter().map(|g| Pattern::glob(g).expect("glob")).collect() };
    let all = [pats("kn"), pats("kp"), pats("dn"), pats("dp")];
    let cfg = DedupeConfig {
        rf_over: case["n"].as_u64().map(|n| n as usize),
        keep_name_patterns: pats("kn"),
        keep_path_patterns: pats("kp"),
        name_patterns: pats("dn"),
        path_patterns: pats("dp"),
        priority: case["prio"].as_array().unwrap().iter().map(|p| priority_of(p.as_u64().unwrap())).collect(),
        isolated_roots: strs(case, "iso").iter().map(|r| FPath::from(dir1.join(r))).collect(),
        match_links: case["mlinks"].as_bool().unwrap(),
        no_check_size: case["nosize"].as_bool().unwrap(),
        modified_before: if case["mbefore"].is_null() { None } else { Some(ts_of_ns(off_ns(&case["mbefore"]), case["tz_off"].as_i64().unwrap_or(3600) as i32)) },
        ..DedupeConfig::default()
    };
    (cfg, all)
}

fn run_api_case(case: &Value, scratch: &StdPath, dev2: Option<&StdPath>, devices: &DiskDevices) -> String {
    let id = case["id"].as_u64().unwrap();
    let dir1 = scratch.join(format!("c{id}"));
    let dir2 = dev2.map(|d| d.join(format!("c{id}")));
    let _ = std::fs::remove_dir_all(&dir1);
    std::fs::create_dir_all(&dir1).unwrap();
    if let Some(d) = &dir2 {
        let _ = std::fs::remove_dir_all(d);
        std::fs::create_dir_all(d).unwrap();
    }
    let out = (|| -> Result<String, String> {
        let built = build_case(case, &dir1, dir2.as_deref())?;
        let (config, pats) = make_config(case, &dir1);
        let glen = case["glen"].as_u64().unwrap();
        let opname = s(case, "op");
        let movedir = dir1.join(s(case, "movedir"));
        let op = match opname {
            "rm" => DedupeOp::Remove,
            "sl" => DedupeOp::SymbolicLink,
            "hl" => DedupeOp::HardLink,
            "rl" => DedupeOp::RefLink,
            "mv" => DedupeOp::Move(Arc::new(FPath::from(&movedir))),
            _ => return Err("op".into()),
        };
        // ---- model input line
        let mut line = String::from("G ");
        line += &match opname {
            "mv" => format!("mv:{}", path_hex(&movedir)),
            o => o.to_string(),
        };
        let dash = |b: bool, x: String| if b { "-".to_string() } else { x };
        line += &format!(
            " {} {} {} {} {} {} {} {},{},{},{} |",
            case["n"].as_u64().map(|n| n.to_string()).unwrap_or("-".into()),
            config.match_links as u8,
            config.no_check_size as u8,
            if case["mbefore"].is_null() { "-".to_string() } else { off_ns(&case["mbefore"]).to_string() },
            dash(config.priority.is_empty(), case["prio"].as_array().unwrap().iter().map(|p| p.to_string()).collect::<Vec<_>>().join(",")),
            glen,
            dash(config.isolated_roots.is_empty(), strs(case, "iso").iter().map(|r| path_hex(&dir1.join(r))).collect::<Vec<_>>().join(",")),
            pats[0].len(), pats[1].len(), pats[2].len(), pats[3].len()
        );
        let target_dir = FPath::from(&movedir);
        let mut mems = vec![];
        for (j, p) in built.paths.iter().enumerate() {
            match &built.present[j] {
                None => mems.push(format!(" {} !", path_hex(p))),
                Some(st) => {
                    let name = p.file_name().map(|n| n.to_string_lossy().to_string()).unwrap_or_default();
                    let full = p.to_string_lossy().to_string();
                    let fp = FPath::from(p);
                    let same_mount = devices.get_mount_point(&fp) == devices.get_mount_point(&target_dir);
                    mems.push(format!(
                        " {} {} {} {} {} {} {} {} {},{} {} {} {} {} {}",
                        path_hex(p), st.dev, st.ino, st.len,
                        (st.mode & libc::S_IFMT == libc::S_IFREG) as u8,
                        st.mtime, st.atime,
                        st.btime.map(|b| b.to_string()).unwrap_or("-".into()),
                        st.ctime.0, st.ctime.1,
                        bits(&pats[0], &name), bits(&pats[1], &full), bits(&pats[2], &name), bits(&pats[3], &full),
                        same_mount as u8
                    ));
                }
            }
        }
        line += &mems.join(" ;");
        // ---- implementation: partition
        let log = CapLog::new();
        let fpaths: Vec<FPath> = built.paths.iter().map(FPath::from).collect();
        let metas: Vec<std::io::Result<PathAndMetadata>> = fpaths.iter().map(|p| PathAndMetadata::new(p.clone())).collect();
        let pres = if metas.iter().any(|m| m.is_err()) {
            "nometa".to_string()
        } else {
            let group = FileGroup {
                file_len: FileLen(glen),
                file_hash: FileHash::from(0u128),
                files: metas.into_iter().map(|m| m.unwrap()).collect::<Vec<_>>(),
            };
            match catch_unwind(AssertUnwindSafe(|| dverif::partition(group, &config, &log))) {
                Err(_) => "panic".to_string(),
                Ok(Err(e)) => classify_err(&e.to_string()),
                Ok(Ok(pg)) => format!("ok K={} D={}", idx_list(&built.paths, &pg.to_keep), idx_list(&built.paths, &pg.to_drop)),
            }
        };
        // ---- implementation: dedupe (script)
        let split = matches!(op, DedupeOp::HardLink | DedupeOp::RefLink);
        let group = FileGroup { file_len: FileLen(glen), file_hash: FileHash::from(0u128), files: fpaths.clone() };
        let sres = match catch_unwind(AssertUnwindSafe(|| {
            fclones::dedupe(vec![group], op.clone(), &config, &log).collect::<Vec<(usize, Vec<FsCommand>)>>()
        })) {
            Err(_) => "!:panic".to_string(),
            Ok(res) => {
                if res.len() != 1 || res[0].0 != 0 {
                    return Err("dedupe returned an unexpected group list".into());
                }
                let mut parts: BTreeMap<i128, Vec<String>> = BTreeMap::new();
                for c in &res[0].1 {
                    let victim = c.file_to_remove().to_path_buf();
                    let j = built.paths.iter().position(|q| *q == victim);
                    let dev: i128 = if !split {
                        -1
                    } else {
                        match j.and_then(|j| built.present[j].clone()) {
                            Some(st) => st.dev as i128,
                            None => -3,
                        }
                    };
                    parts.entry(dev).or_default().push(cmd_str(&built.paths, c));
                }
                if parts.is_empty() {
                    "-".to_string()
                } else {
                    parts
                        .iter()
                        .map(|(d, cs)| format!("{}:{}", if *d == -1 { "*".to_string() } else { d.to_string() }, cs.join(",")))
                        .collect::<Vec<_>>()
                        .join(" || ")
                }
            }
        };
        let warns = log.msgs.lock().unwrap().len();
        Ok(format!("{id}\t{line}\tP {pres} ## S {sres}\t{warns}"))
    })();
    if !case["keep_files"].as_bool().unwrap_or(false) {
        let _ = std::fs::remove_dir_all(&dir1);
        if let Some(d) = &dir2 {
            let _ = std::fs::remove_dir_all(d);
        }
    }
    match out {
        Ok(l) => l,
        Err(e) => format!("{id}\tPRECOND\t{e}\t0"),
    }
}

// ------------------------------------------------------------------------------------------------
// C04: histories.  The library is used in the order main.rs uses it:
//   start_time := now ; group_files ; [phase-1 operations] ; write_report_at(start_time) ; [phase-2 operations] ;
//   dedupe(groups, op, config with modified_before = header time stamp) ; run_script
// Output:  <id> TAB <H line for the model> TAB F <nodes> ## S <parts> TAB <pre inventory> TAB <post inventory> TAB <info>

fn now_ns() -> i128 {
    let d = std::time::SystemTime::now().duration_since(std::time::UNIX_EPOCH).unwrap();
    d.as_nanos() as i128
}
fn sleep_ms(ms: u64) {
    std::thread::sleep(std::time::Duration::from_millis(ms));
}

/// what a path names right now: (node as the model prints it, inventory entry)
fn observe(p: &StdPath) -> (String, String) {
    let l = statx(p, false);
    let st = statx(p, true);
    match (l, st) {
        (None, _) => ("M".into(), "M".into()),
        (Some(l), None) => ("M".into(), format!("L:{}:dangling", l.ino)),
        (Some(l), Some(st)) => {
            let is_link = l.mode & libc::S_IFMT == libc::S_IFLNK;
            if st.mode & libc::S_IFMT == libc::S_IFREG {
                let data = std::fs::read(p).unwrap_or_default();
                let hex = if data.is_empty() { "-".to_string() } else { hex_comp(&data) };
                (
                    format!("F:{}:{}", hex, st.mtime),
                    if is_link { format!("L:{}:{}", l.ino, hex) } else { format!("F:{}:{}:{}", st.ino, hex, st.mtime) },
                )
            } else {
                ("N".into(), if is_link { format!("L:{}:nonreg", l.ino) } else { format!("N:{}", st.ino) })
            }
        }
    }
}

fn run_hist(case: &Value, scratch: &StdPath) -> String {
    let id = case["id"].as_u64().unwrap();
    let dir = scratch.join(format!("h{id}"));
    let _ = std::fs::remove_dir_all(&dir);
    std::fs::create_dir_all(&dir).unwrap();
    let out = (|| -> Result<String, String> {
        let len = case["len"].as_u64().unwrap() as usize;
        let d0: Vec<u8> = vec![65u8; len];
        let members = case["members"].as_array().unwrap();
        let tree = dir.join("tree");
        let mut paths: Vec<PathBuf> = vec![];
        let mut share: Vec<usize> = vec![];
        let m0 = now_ns() / 1_000_000_000 * 1_000_000_000 - 100_000_000_000;
        for (j, m) in members.iter().enumerate() {
            let p = tree.join(s(m, "path"));
            mkparents(&p);
            match m["hard_of"].as_u64() {
                Some(k) => {
                    std::fs::hard_link(&paths[k as usize], &p).map_err(|e| e.to_string())?;
                    share.push(share[k as usize]);
                }
                None if m["symlink_out"].as_bool().unwrap_or(false) => {
                    // the member is a symbolic link (report made with -S); its data lives outside the scanned tree
                    let target = dir.join("outside").join(format!("x{j}"));
                    mkparents(&target);
                    std::fs::write(&target, &d0).map_err(|e| e.to_string())?;
                    std::os::unix::fs::symlink(&target, &p).map_err(|e| e.to_string())?;
                    share.push(j);
                }
                None => {
                    std::fs::write(&p, &d0).map_err(|e| e.to_string())?;
                    share.push(j);
                }
            }
            paths.push(p);
        }
        for p in &paths {
            filetime::set_file_times(p, ft_of_ns(m0), ft_of_ns(m0)).map_err(|e| e.to_string())?;
        }
        // ---- group
        let log = CapLog::new();
        let mut gc = fclones::config::GroupConfig::default();
        gc.paths = vec![FPath::from(&tree)];
        gc.base_dir = FPath::from(&dir);
        gc.match_links = case["mlinks"].as_bool().unwrap_or(false);
        gc.symbolic_links = members.iter().any(|m| m["symlink_out"].as_bool().unwrap_or(false));
        gc.output = Some(dir.join("report"));
        if s(case, "format") == "json" {
            gc.format = fclones::config::OutputFormat::Json;
        }
        // main.rs run_group: the time recorded in the report is taken BEFORE the scan starts
        let start_time = chrono::Local::now();
        let groups = fclones::group_files(&gc, &log).map_err(|e| format!("group_files: {}", e.message))?;
        let t_read = now_ns();
        if groups.len() != 1 || groups[0].files.len() != paths.len() {
            return Err(format!("group_files found {} groups", groups.len()));
        }
        let order: Vec<usize> = groups[0]
            .files
            .iter()
            .map(|f| paths.iter().position(|q| *q == f.path.to_path_buf()).ok_or("unknown path in group".to_string()))
            .collect::<Result<_, _>>()?;
        let glen = groups[0].file_len.0;
        // ---- operations
        let mut ops_of: Vec<Vec<String>> = vec![vec![]; paths.len()];
        let mut last_phase: Vec<u64> = vec![0; paths.len()];
        let mut fresh = paths.len();
        let mut apply = |phase: u64, ops_of: &mut Vec<Vec<String>>, share: &mut Vec<usize>| -> Result<(), String> {
            for o in case["ops"].as_array().unwrap() {
                if o["phase"].as_u64().unwrap() != phase {
                    continue;
                }
                let j = o["m"].as_u64().unwrap() as usize;
                let p = &paths[j];
                let kind = s(o, "kind");
                // ordinary writes go through a symbolic link to the data it leads to
                let is_file = statx(p, true).map(|x| x.mode & libc::S_IFMT == libc::S_IFREG).unwrap_or(false);
                let is_link = statx(p, false).map(|x| x.mode & libc::S_IFMT == libc::S_IFLNK).unwrap_or(false);
                let cur = if is_file { std::fs::read(p).unwrap_or_default() } else { vec![] };
                let fill = o["fill"].as_u64().unwrap_or(66) as u8;
                let e = |x: std::io::Error| format!("op {kind}: {x}");
                let hexd = |d: &[u8]| if d.is_empty() { "-".to_string() } else { hex_comp(d) };
                // content operations act on the inode (all members sharing it); path operations on the name
                let mut content_op: Option<String> = None;
                let mut path_op: Option<String> = None;
                match kind {
                    "write_same" | "write_diff" | "write_equal" => {
                        if !is_file {
                            continue;
                        }
                        let d: Vec<u8> = match kind {
                            "write_same" => vec![fill; cur.len()],
                            "write_equal" => cur.clone(),
                            _ => vec![fill; cur.len() + 1 + o["arg"].as_u64().unwrap_or(0) as usize],
                        };
                        std::fs::write(p, &d).map_err(e)?;
                        content_op = Some(format!("w:{}", hexd(&d)));
                    }
                    "append" => {
                        if !is_file {
                            continue;
                        }
                        let mut f = std::fs::OpenOptions::new().append(true).open(p).map_err(e)?;
                        f.write_all(&[fill, fill]).map_err(e)?;
                        content_op = Some(format!("a:{}", hexd(&[fill, fill])));
                    }
                    "truncate" => {
                        if !is_file {
                            continue;
                        }
                        let k = (o["arg"].as_u64().unwrap_or(1) as usize).min(cur.len());
                        let f = std::fs::OpenOptions::new().write(true).open(p).map_err(e)?;
                        f.set_len(k as u64).map_err(e)?;
                        if k == cur.len() {
                            // ftruncate to the same size still stamps mtime on Linux; it is a touch
                            content_op = Some(format!("tr:{k}"));
                        } else {
                            content_op = Some(format!("tr:{k}"));
                        }
                    }
                    "touch" => {
                        if !is_file {
                            continue;
                        }
                        filetime::set_file_mtime(p, ft_of_ns(now_ns())).map_err(e)?;
                        content_op = Some("touch".to_string());
                    }
                    "repoint_same" | "repoint_diff" => {
                        // re-point a link member at a NEW file (created now, so its stamp is the time of the operation)
                        if !is_link {
                            continue;
                        }
                        let d: Vec<u8> = if kind == "repoint_same" { vec![fill; len] } else { vec![fill; len + 2] };
                        let target = dir.join("outside").join(format!("rp{}_{}", j, now_ns()));
                        mkparents(&target);
                        std::fs::write(&target, &d).map_err(e)?;
                        std::fs::remove_file(p).map_err(e)?;
                        std::os::unix::fs::symlink(&target, p).map_err(e)?;
                        path_op = Some(format!("re:{}", hexd(&d)));
                    }
                    "unlink" | "recreate_same" | "recreate_diff" | "recreate_equal" | "dir" | "fifo" | "symlink_dangling" | "symlink_dir" => {
                        match statx(p, false) {
                            Some(x) if x.mode & libc::S_IFMT == libc::S_IFDIR => std::fs::remove_dir(p).map_err(e)?,
                            Some(_) => std::fs::remove_file(p).map_err(e)?,
                            None => {}
                        }
                        match kind {
                            "unlink" => path_op = Some("unlink".into()),
                            "recreate_same" | "recreate_diff" | "recreate_equal" => {
                                let d: Vec<u8> = match kind {
                                    "recreate_same" => vec![fill; len],
                                    "recreate_equal" => d0.clone(),
                                    _ => vec![fill; len + 2],
                                };
                                std::fs::write(p, &d).map_err(e)?;
                                path_op = Some(format!("re:{}", hexd(&d)));
                            }
                            "dir" => {
                                std::fs::create_dir(p).map_err(e)?;
                                path_op = Some("nonreg".into());
                            }
                            "fifo" => {
                                let c = CString::new(p.as_os_str().as_bytes()).unwrap();
                                if unsafe { libc::mkfifo(c.as_ptr(), 0o644) } != 0 {
                                    return Err("mkfifo".into());
                                }
                                path_op = Some("nonreg".into());
                            }
                            "symlink_dangling" => {
                                std::os::unix::fs::symlink(dir.join("nowhere"), p).map_err(e)?;
                                path_op = Some("dangling".into());
                            }
                            _ => {
                                std::os::unix::fs::symlink(&dir, p).map_err(e)?;
                                path_op = Some("nonreg".into());
                            }
                        }
                    }
                    k => return Err(format!("unknown op {k}")),
                }
                // the time the operation stamped (ordinary operations: mtime := time of the operation)
                let t = match statx(p, true) {
                    Some(x) if x.mode & libc::S_IFMT == libc::S_IFREG => x.mtime,
                    _ => now_ns(),
                };
                if let Some(c) = content_op {
                    for i in 0..paths.len() {
                        if share[i] == share[j] {
                            ops_of[i].push(format!("{t}:{c}"));
                            last_phase[i] = phase;
                        }
                    }
                }
                if let Some(c) = path_op {
                    ops_of[j].push(format!("{t}:{c}"));
                    last_phase[j] = phase;
                    share[j] = fresh;
                    fresh += 1;
                }
                sleep_ms(2);
            }
            Ok(())
        };
        sleep_ms(10);
        apply(1, &mut ops_of, &mut share)?;
        sleep_ms(10);
        // ---- report
        fclones::write_report_at(&gc, &log, &groups, start_time).map_err(|e| format!("write_report: {e}"))?;
        let t_written = now_ns();
        sleep_ms(10);
        apply(2, &mut ops_of, &mut share)?;
        sleep_ms(2);
        drop(apply);
        use fclones::report::ReportReader;
        let f = std::fs::File::open(dir.join("report")).map_err(|e| e.to_string())?;
        let mut reader = fclones::report::open_report(f).map_err(|e| e.to_string())?;
        let header = reader.read_header().map_err(|e| e.to_string())?;
        let written_offset = header.timestamp.offset().local_minus_utc();
        // the same instant as read by a dedupe run from a report written in another zone
        let ts = match case["tz_off"].as_i64() {
            Some(off) => header.timestamp.with_timezone(&FixedOffset::east_opt(off as i32).unwrap()),
            None => header.timestamp,
        };
        let ts_ns = ts.timestamp() as i128 * 1_000_000_000 + ts.timestamp_subsec_nanos() as i128;
        // ---- dedupe configuration as run_dedupe builds it
        let opname = s(case, "op");
        let movedir = dir.join("moved");
        let op = match opname {
            "rm" => DedupeOp::Remove,
            "sl" => DedupeOp::SymbolicLink,
            "hl" => DedupeOp::HardLink,
            "rl" => DedupeOp::RefLink,
            "mv" => DedupeOp::Move(Arc::new(FPath::from(&movedir))),
            _ => return Err("op".into()),
        };
        let hpats = |k: &str| -> Vec<Pattern> { strs(case, k).iter().map(|g| Pattern::glob(g).expect("glob")).collect() };
        let config = DedupeConfig {
            rf_over: Some(case["n"].as_u64().map(|n| n as usize).unwrap_or(gc.rf_over())),
            priority: case["prio"].as_array().unwrap().iter().map(|p| priority_of(p.as_u64().unwrap())).collect(),
            match_links: gc.match_links,
            no_check_size: case["nosize"].as_bool().unwrap_or(false),
            modified_before: Some(ts),
            // `--isolate` roots (given to the dedupe command, or inherited from the header by run_dedupe)
            isolated_roots: strs(case, "iso").iter().map(|r| FPath::from(tree.join(r))).collect(),
            keep_name_patterns: hpats("kn"),
            keep_path_patterns: hpats("kp"),
            name_patterns: hpats("dn"),
            path_patterns: hpats("dp"),
            ..DedupeConfig::default()
        };
        let pats = [hpats("kn"), hpats("kp"), hpats("dn"), hpats("dp")];
        // ---- state of every path right before the dedupe run
        let devices = DiskDevices::new(&std::collections::HashMap::new());
        let target_dir = FPath::from(&movedir);
        let mut nodes = vec![];
        let mut pre = vec![];
        let mut mems = vec![];
        let ordered: Vec<PathBuf> = order.iter().map(|j| paths[*j].clone()).collect();
        for (pos, j) in order.iter().enumerate() {
            let p = &paths[*j];
            let (n, inv) = observe(p);
            nodes.push(n);
            pre.push(inv);
            let st = statx(p, true);
            let (dev, ino, at, bt, ct) = match &st {
                Some(x) => (x.dev, x.ino, x.atime.to_string(), x.btime.map(|b| b.to_string()).unwrap_or("-".into()), x.ctime),
                None => (0, pos as u64, "-".to_string(), "-".to_string(), (0, 0)),
            };
            let same_mount = devices.get_mount_point(&FPath::from(p)) == devices.get_mount_point(&target_dir);
            let name = p.file_name().map(|n| n.to_string_lossy().to_string()).unwrap_or_default();
            let full = p.to_string_lossy().to_string();
            mems.push(format!(
                " {} {} {} {} {} {},{} {} {} {} {} {} {} {} {}",
                path_hex(p), dev, ino, at, bt, ct.0, ct.1, m0, t_read, same_mount as u8,
                bits(&pats[0], &name), bits(&pats[1], &full), bits(&pats[2], &name), bits(&pats[3], &full),
                if ops_of[*j].is_empty() { "-".to_string() } else { ops_of[*j].join(",") }
            ));
        }
        let line = format!(
            "H {} {} {} {} {} {} {} {} {},{},{},{} {} |{}",
            match opname {
                "mv" => format!("mv:{}", path_hex(&movedir)),
                o => o.to_string(),
            },
            config.rf_over.unwrap(),
            config.match_links as u8,
            config.no_check_size as u8,
            ts_ns,
            if config.priority.is_empty() { "-".to_string() } else { case["prio"].as_array().unwrap().iter().map(|p| p.to_string()).collect::<Vec<_>>().join(",") },
            glen,
            if config.isolated_roots.is_empty() { "-".to_string() } else { strs(case, "iso").iter().map(|r| path_hex(&tree.join(r))).collect::<Vec<_>>().join(",") },
            pats[0].len(), pats[1].len(), pats[2].len(), pats[3].len(),
            if d0.is_empty() { "-".to_string() } else { hex_comp(&d0) },
            mems.join(" ;")
        );
        // ---- dedupe + run_script
        let split = matches!(op, DedupeOp::HardLink | DedupeOp::RefLink);
        let script: Vec<(usize, Vec<FsCommand>)> = fclones::dedupe(groups, op, &config, &log).collect();
        let mut parts: BTreeMap<i128, Vec<String>> = BTreeMap::new();
        for (_, cmds) in &script {
            for c in cmds {
                let victim = c.file_to_remove().to_path_buf();
                let dev: i128 = if !split { -1 } else { statx(&victim, true).map(|x| x.dev as i128).unwrap_or(-3) };
                parts.entry(dev).or_default().push(cmd_str(&ordered, c));
            }
        }
        let sres = if parts.is_empty() {
            "-".to_string()
        } else {
            parts
                .iter()
                .map(|(d, cs)| format!("{}:{}", if *d == -1 { "*".to_string() } else { d.to_string() }, cs.join(",")))
                .collect::<Vec<_>>()
                .join(" || ")
        };
        let result = fclones::run_script(script, true, &log);
        let post: Vec<String> = ordered.iter().map(|p| observe(p).1).collect();
        let info = serde_json::json!({
            "ts_ns": ts_ns.to_string(), "t_read": t_read.to_string(), "t_written": t_written.to_string(),
            "last_phase": order.iter().map(|j| last_phase[*j]).collect::<Vec<_>>(),
            "order": order, "processed": result.processed_count,
            "header_utc_offset": written_offset, "cutoff_utc_offset": ts.offset().local_minus_utc(),
            "warnings": log.msgs.lock().unwrap().iter().filter(|m| m.starts_with("warn")).count(),
        });
        Ok(format!("{id}\t{line}\tF {} ## S {sres}\t{}\t{}\t{}", nodes.join(" "), pre.join(" "), post.join(" "), info))
    })();
    if !case["keep_files"].as_bool().unwrap_or(false) {
        let _ = std::fs::remove_dir_all(&dir);
    }
    match out {
        Ok(l) => l,
        Err(e) => format!("{id}\tPRECOND\t{e}"),
    }
}

fn main() {
    let args: Vec<String> = std::env::args().collect();
    if args.len() < 3 {
        eprintln!("usage: ddp api <scratch> <dev2|-> | ddp hist <scratch>");
        std::process::exit(2);
    }
    let scratch = PathBuf::from(&args[2]);
    std::fs::create_dir_all(&scratch).unwrap();
    let scratch = std::fs::canonicalize(&scratch).unwrap();
    let stdin = std::io::stdin();
    let stdout = std::io::stdout();
    match args[1].as_str() {
        "api" => {
            let dev2 = if args.len() > 3 && args[3] != "-" { Some(PathBuf::from(&args[3])) } else { None };
            let devices = DiskDevices::new(&std::collections::HashMap::new());
            for line in stdin.lock().lines() {
                let line = line.unwrap();
                if line.trim().is_empty() {
                    continue;
                }
                let case: Value = serde_json::from_str(&line).expect("case json");
                let out = run_api_case(&case, &scratch, dev2.as_deref(), &devices);
                let mut o = stdout.lock();
                writeln!(o, "{out}").unwrap();
            }
        }
        "hist" => {
            for line in stdin.lock().lines() {
                let line = line.unwrap();
                if line.trim().is_empty() {
                    continue;
                }
                let case: Value = serde_json::from_str(&line).expect("case json");
                let out = run_hist(&case, &scratch);
                let mut o = stdout.lock();
                writeln!(o, "{out}").unwrap();
            }
        }
        _ => std::process::exit(2),
    }
}
