//! dx — API-level harness of engine X (C11): the REAL `fclones::log_script` on adversarial arrival orders.
//!
//!   dx printer <existing file> <seed>
//!
//! Builds N (1500-3000) command groups (index i, 1-3 `FsCommand::Remove` commands on the synthetic paths
//! /dx/g<i>/c<j>, all sharing the metadata of <existing file>; nothing is executed) and hands them to
//! `fclones::log_script` as a rayon parallel iterator on a pool of 4 threads, for several arrival patterns:
//!   slow0      group 0 sleeps while > 1024 later groups overtake it
//!   slowmid    a group in the middle sleeps
//!   slowtwo    two groups sleep
//!   reversed   the vector is handed over in reversed index order
//!   shuffled   the vector is shuffled (SplitMix64 from <seed>)
//! One result line per pattern (same vocabulary as the model's `printer` line of drv_X.ml):
//!   pattern=<name> n=<groups> cmds=<commands> printed=<lines> count=<processed_count> bytes=<reclaimed> len=<file len>
//!   order=<ok | first position where the printed group index differs: pos:got:want> missing=<groups never printed>
//!   dup=<groups printed twice>
use std::time::Duration;

use fclones::verif_api::dedupe::FsCommand;
use fclones::{log_script, Path as FPath, PathAndMetadata};
use harness::SplitMix64;
use rayon::prelude::*;

fn build(n: usize, meta: &PathAndMetadata, rng: &mut SplitMix64) -> Vec<(usize, Vec<FsCommand>)> {
    (0..n)
        .map(|i| {
            let k = 1 + rng.below(3) as usize;
            let cmds = (0..k)
                .map(|j| FsCommand::Remove {
                    file: PathAndMetadata { path: FPath::from(format!("/dx/g{}/c{}", i, j)), metadata: meta.metadata.clone() },
                })
                .collect();
            (i, cmds)
        })
        .collect()
}

fn run(name: &str, items: Vec<(usize, Vec<FsCommand>)>, slow: Vec<usize>, pool: &rayon::ThreadPool, flen: u64) {
    let n = items.len();
    let ncmds: usize = items.iter().map(|(_, c)| c.len()).sum();
    let mut expected: Vec<(usize, usize)> = Vec::new();
    let mut sorted: Vec<(usize, usize)> = items.iter().map(|(i, c)| (*i, c.len())).collect();
    sorted.sort();
    for (i, k) in sorted {
        for j in 0..k {
            expected.push((i, j));
        }
    }
    let mut out: Vec<u8> = Vec::new();
    let res = pool.install(|| {
        log_script(
            items.into_par_iter().map(|(i, c)| {
                if slow.contains(&i) {
                    std::thread::sleep(Duration::from_millis(150));
                }
                (i, c)
            }),
            &mut out,
        )
    });
    let text = String::from_utf8_lossy(&out).to_string();
    let mut got: Vec<(usize, usize)> = Vec::new();
    for l in text.lines() {
        // rm /dx/g<i>/c<j>
        let p = l.trim_start_matches("rm /dx/g");
        let mut it = p.split("/c");
        let i: usize = it.next().unwrap_or("").parse().unwrap_or(usize::MAX);
        let j: usize = it.next().unwrap_or("").parse().unwrap_or(usize::MAX);
        got.push((i, j));
    }
    let mut order = "ok".to_string();
    for (pos, g) in got.iter().enumerate() {
        if pos >= expected.len() || *g != expected[pos] {
            let want = if pos < expected.len() { expected[pos].0 as i64 } else { -1 };
            order = format!("{}:{}:{}", pos, g.0, want);
            break;
        }
    }
    let mut seen = vec![0usize; n];
    for (i, j) in &got {
        if *i < n && *j == 0 {
            seen[*i] += 1;
        }
    }
    let missing = seen.iter().filter(|&&c| c == 0).count();
    let dup = seen.iter().filter(|&&c| c > 1).count();
    let (count, bytes) = match res {
        Ok(r) => (r.processed_count as i64, r.reclaimed_space.0 as i64),
        Err(_) => (-1, -1),
    };
    println!(
        "pattern={} n={} cmds={} printed={} count={} bytes={} len={} order={} missing={} dup={}",
        name, n, ncmds, got.len(), count, bytes, flen, order, missing, dup
    );
}

fn main() {
    let args: Vec<String> = std::env::args().collect();
    if args.len() < 4 || args[1] != "printer" {
        eprintln!("usage: dx printer <existing file> <seed>");
        std::process::exit(2);
    }
    let meta = PathAndMetadata::new(FPath::from(&args[2])).expect("metadata of the given file");
    let flen = meta.metadata.len().0;
    let mut rng = SplitMix64::new(args[3].parse().unwrap_or(1));
    let pool = rayon::ThreadPoolBuilder::new().num_threads(4).build().unwrap();
    let n = 1500 + rng.below(1500) as usize;
    run("slow0", build(n, &meta, &mut rng), vec![0], &pool, flen);
    let mid = 100 + rng.below((n - 1300) as u64) as usize;
    run("slowmid", build(n, &meta, &mut rng), vec![mid], &pool, flen);
    run("slowtwo", build(n, &meta, &mut rng), vec![1, mid], &pool, flen);
    let mut rev = build(n, &meta, &mut rng);
    rev.reverse();
    run("reversed", rev, vec![], &pool, flen);
    let mut sh = build(n, &meta, &mut rng);
    for i in (1..sh.len()).rev() {
        let j = rng.below((i + 1) as u64) as usize;
        sh.swap(i, j);
    }
    run("shuffled", sh, vec![3], &pool, flen);
}
