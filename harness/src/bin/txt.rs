//! Engine T correspondence harness (properties C17, C10): calls the real text codecs of fclones.
//!
//! Line protocol on stdin/stdout, identical to coq/driver/drv_T.ml (one case per line,
//! fields are byte strings written as dot-separated decimals, "-" = empty):
//!   q a            -> <arg::quote a>
//!   j a1 a2 ..     -> <arg::join [a1,a2,..]>
//!   s x            -> notstr | ok w1 w2 .. | err | panic        (arg::split)
//!   qs a1 a2 ..    -> <join> | <split(join ..)>
//!   e a            -> <arg::to_stfu8 a>
//!   d x            -> notstr | ok <bytes> | err                 (arg::from_stfu8)
//!   l a            -> <bytes of OsStr::to_string_lossy a>       (std; checks the UTF-8 model)
//!   u x            -> 1 | 0                                     (std::str::from_utf8(x).is_ok())
//!   sp             -> arg::verif::special_chars()
//! C10 commands: see the functions `cmd_w`, `cmd_r`, `cmd_rt` below.

use std::ffi::OsString;
use std::io::{BufRead, Write};
use std::os::unix::ffi::{OsStrExt, OsStringExt};
use std::panic::{catch_unwind, AssertUnwindSafe};

use fclones::verif_api::arg;
use harness::{bytes_field, parse_bytes_field};

fn os(b: &[u8]) -> OsString {
    OsString::from_vec(b.to_vec())
}

fn show_words(ws: &[Vec<u8>]) -> String {
    if ws.is_empty() {
        "ok".to_string()
    } else {
        format!(
            "ok {}",
            ws.iter().map(|w| bytes_field(w)).collect::<Vec<_>>().join(" ")
        )
    }
}

fn show_split(x: &[u8]) -> String {
    let s = match std::str::from_utf8(x) {
        Ok(s) => s,
        Err(_) => return "notstr".to_string(),
    };
    let r = catch_unwind(AssertUnwindSafe(|| arg::split(s)));
    match r {
        Err(_) => "panic".to_string(),
        Ok(Err(_)) => "err".to_string(),
        Ok(Ok(ws)) => {
            let ws: Vec<Vec<u8>> = ws.iter().map(|a| a.as_os_str().as_bytes().to_vec()).collect();
            show_words(&ws)
        }
    }
}

fn args_of(fields: &[&str]) -> Vec<arg::Arg> {
    fields
        .iter()
        .map(|f| arg::Arg::from(os(&parse_bytes_field(f))))
        .collect()
}

fn c17(cmd: &str, f: &[&str]) -> Option<String> {
    Some(match (cmd, f.len()) {
        ("q", 1) => bytes_field(arg::quote(os(&parse_bytes_field(f[0]))).as_bytes()),
        ("j", _) => bytes_field(arg::join(&args_of(f)).as_bytes()),
        ("s", 1) => show_split(&parse_bytes_field(f[0])),
        ("qs", _) => {
            let j = arg::join(&args_of(f));
            format!("{} | {}", bytes_field(j.as_bytes()), show_split(j.as_bytes()))
        }
        ("e", 1) => bytes_field(arg::to_stfu8(os(&parse_bytes_field(f[0]))).as_bytes()),
        ("d", 1) => {
            let x = parse_bytes_field(f[0]);
            match std::str::from_utf8(&x) {
                Err(_) => "notstr".to_string(),
                Ok(s) => match catch_unwind(AssertUnwindSafe(|| arg::from_stfu8(s))) {
                    Err(_) => "panic".to_string(),
                    Ok(Err(_)) => "err".to_string(),
                    Ok(Ok(o)) => format!("ok {}", bytes_field(o.as_bytes())),
                },
            }
        }
        ("l", 1) => bytes_field(os(&parse_bytes_field(f[0])).to_string_lossy().as_bytes()),
        ("u", 1) => {
            if std::str::from_utf8(&parse_bytes_field(f[0])).is_ok() {
                "1".to_string()
            } else {
                "0".to_string()
            }
        }
        ("sp", 0) => {
            let mut v = Vec::new();
            for c in arg::verif::special_chars() {
                let mut buf = [0u8; 4];
                v.extend_from_slice(c.encode_utf8(&mut buf).as_bytes());
            }
            bytes_field(&v)
        }
        _ => return None,
    })
}

fn main() {
    // panics of the code under test are caught and reported as "panic"; keep stderr quiet
    std::panic::set_hook(Box::new(|_| {}));
    let stdin = std::io::stdin();
    let stdout = std::io::stdout();
    let mut out = std::io::BufWriter::new(stdout.lock());
    for line in stdin.lock().lines() {
        let line = line.unwrap();
        let toks: Vec<&str> = line.split(' ').filter(|x| !x.is_empty()).collect();
        let res = if toks.is_empty() {
            "EXN empty line".to_string()
        } else {
            match c17(toks[0], &toks[1..]) {
                Some(r) => r,
                None => format!("EXN unknown command {}", toks[0]),
            }
        };
        writeln!(out, "{}", res).unwrap();
    }
    out.flush().unwrap();
}
