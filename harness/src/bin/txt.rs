//! Engine T correspondence harness (properties C17, C10): calls the real text codecs of fclones.
//!
//! Line protocol on stdin/stdout, identical to coq/driver/drv_T.ml (one case per line,
//! fields are byte strings written as dot-separated decimals, "-" = empty):
//!   q a            -> <arg::quote a>
//!   j a1 a2 ..     -> <arg::join [a1,a2,..]>
//!   s x            -> notstr | ok w1 w2 .. | err | panic        (arg::split)
//!   qs a1 a2 ..    -> <join> | <split(join ..)>
//!   aqs a          -> <Arg::from(a).quote()> | <split of that>
//!   e a            -> <arg::to_stfu8 a>
//!   d x            -> notstr | ok <bytes> | err                 (arg::from_stfu8)
//!   l a            -> <bytes of OsStr::to_string_lossy a>       (std; checks the UTF-8 model)
//!   u x            -> 1 | 0                                     (std::str::from_utf8(x).is_ok())
//!   sp             -> arg::verif::special_chars()
//!   pqs a          -> <bytes of Path::from(a)> | <Path::from(a).quote()> | <split of that>
//! C10 commands (w, wj, r, rk, pn, pd, hs): see the comment above `parse_report` below.

use std::ffi::OsString;
use std::io::{BufRead, Write};
use std::os::unix::ffi::{OsStrExt, OsStringExt};
use std::panic::{catch_unwind, AssertUnwindSafe};

use fclones::verif_api::arg;
use harness::{bytes_field, parse_bytes_field};

fn os(b: &[u8]) -> OsString {
    OsString::from_vec(b.to_vec())
}

fn show_words(ws: &[Vec<u8>]) -> String {
    if ws.is_empty() {
        "ok".to_string()
    } else {
        format!(
            "ok {}",
            ws.iter().map(|w| bytes_field(w)).collect::<Vec<_>>().join(" ")
        )
    }
}

fn show_split(x: &[u8]) -> String {
    let s = match std::str::from_utf8(x) {
        Ok(s) => s,
        Err(_) => return "notstr".to_string(),
    };
    let r = catch_unwind(AssertUnwindSafe(|| arg::split(s)));
    match r {
        Err(_) => "panic".to_string(),
        Ok(Err(_)) => "err".to_string(),
        Ok(Ok(ws)) => {
            let ws: Vec<Vec<u8>> = ws.iter().map(|a| a.as_os_str().as_bytes().to_vec()).collect();
            show_words(&ws)
        }
    }
}

fn args_of(fields: &[&str]) -> Vec<arg::Arg> {
    fields
        .iter()
        .map(|f| arg::Arg::from(os(&parse_bytes_field(f))))
        .collect()
}

fn c17(cmd: &str, f: &[&str]) -> Option<String> {
    Some(match (cmd, f.len()) {
        ("q", 1) => bytes_field(arg::quote(os(&parse_bytes_field(f[0]))).as_bytes()),
        ("j", _) => bytes_field(arg::join(&args_of(f)).as_bytes()),
        ("s", 1) => show_split(&parse_bytes_field(f[0])),
        ("qs", _) => {
            let j = arg::join(&args_of(f));
            format!("{} | {}", bytes_field(j.as_bytes()), show_split(j.as_bytes()))
        }
        // third quoting entry point: the method Arg::quote (what arg::join and the `# Command:` line use)
        ("aqs", 1) => {
            let q = arg::Arg::from(os(&parse_bytes_field(f[0]))).quote();
            format!("{} | {}", bytes_field(q.as_bytes()), show_split(q.as_bytes()))
        }
        ("e", 1) => bytes_field(arg::to_stfu8(os(&parse_bytes_field(f[0]))).as_bytes()),
        ("d", 1) => {
            let x = parse_bytes_field(f[0]);
            match std::str::from_utf8(&x) {
                Err(_) => "notstr".to_string(),
                Ok(s) => match catch_unwind(AssertUnwindSafe(|| arg::from_stfu8(s))) {
                    Err(_) => "panic".to_string(),
                    Ok(Err(_)) => "err".to_string(),
                    Ok(Ok(o)) => format!("ok {}", bytes_field(o.as_bytes())),
                },
            }
        }
        ("l", 1) => bytes_field(os(&parse_bytes_field(f[0])).to_string_lossy().as_bytes()),
        ("u", 1) => {
            if std::str::from_utf8(&parse_bytes_field(f[0])).is_ok() {
                "1".to_string()
            } else {
                "0".to_string()
            }
        }
        // second quoting entry point: fclones::Path::quote (used by dry-run scripts and logs).
        // Path::from normalises the bytes (std::path components); the normal form is printed first.
        ("pqs", 1) => {
            let b = parse_bytes_field(f[0]);
            match catch_unwind(AssertUnwindSafe(|| {
                let p = path_of(&b);
                (path_bytes(&p), p.quote())
            })) {
                Err(_) => "panic".to_string(),
                Ok((norm, q)) => format!(
                    "{} | {} | {}",
                    bytes_field(&norm),
                    bytes_field(q.as_bytes()),
                    show_split(q.as_bytes())
                ),
            }
        }
        ("sp", 0) => {
            let mut v = Vec::new();
            for c in arg::verif::special_chars() {
                let mut buf = [0u8; 4];
                v.extend_from_slice(c.encode_utf8(&mut buf).as_bytes());
            }
            bytes_field(&v)
        }
        _ => return None,
    })
}

// ------------------------------------------------------------------------------------------
// C10: reports
//
//   w  <report>      -> bytes of ReportWriter::write_as_text (color = false)
//   wj <report>      -> bytes of ReportWriter::write_as_json
//   r  <bytes>       -> what open_report + read_header + read_groups (drained until the first Err,
//                       like main.rs) deliver, in the canonical form below
//   <report> = <version> <timestamp text> <base dir> c<k> <arg>*k s<7 numbers, comma separated | -> g<k> { <hash> <len> f<k> <path>*k }*k
//              (anything after a `|` token is ignored here: the model gets the ByteSize texts there)
//   canonical read result:
//     unknown | json | hdr_err | hdr_panic |
//     text <version> <timestamp text> <base dir> c<k> .. s.. g<k> {..} end=ok|err|panic

use std::io::Cursor;

use chrono::{DateTime, FixedOffset};
use fclones::report::{open_report, FileStats, ReportHeader, ReportWriter};
use fclones::{FileGroup, FileHash, FileLen, Path};

struct Rep {
    header: ReportHeader,
    groups: Vec<FileGroup<Path>>,
}

fn path_of(b: &[u8]) -> Path {
    Path::from(os(b))
}

fn path_bytes(p: &Path) -> Vec<u8> {
    p.to_path_buf().into_os_string().into_vec()
}

fn parse_report(f: &[&str]) -> Result<Rep, String> {
    let mut i = 0;
    let mut next = |what: &str| -> Result<&str, String> {
        if i < f.len() {
            i += 1;
            Ok(f[i - 1])
        } else {
            Err(format!("missing {what}"))
        }
    };
    let version = String::from_utf8(parse_bytes_field(next("version")?)).map_err(|e| e.to_string())?;
    let ts_text = String::from_utf8(parse_bytes_field(next("ts")?)).map_err(|e| e.to_string())?;
    let timestamp: DateTime<FixedOffset> =
        DateTime::parse_from_str(&ts_text, fclones::verif_api::TIMESTAMP_FMT).map_err(|e| format!("bad ts: {e}"))?;
    // the moment a report is written has a sub-millisecond part that the text format does not show: HARNESS_TS_SUBMS_NANOS
    // (0..999999) is added to every header time stamp before it goes to the writer
    let timestamp = match std::env::var("HARNESS_TS_SUBMS_NANOS").ok().and_then(|v| v.parse::<i64>().ok()) {
        Some(n) => timestamp + chrono::Duration::nanoseconds(n),
        None => timestamp,
    };
    let base_dir = path_of(&parse_bytes_field(next("base dir")?));
    let c = next("c<k>")?;
    let k: usize = c[1..].parse().map_err(|_| "bad c<k>".to_string())?;
    let mut command = Vec::new();
    for _ in 0..k {
        command.push(arg::Arg::from(os(&parse_bytes_field(next("arg")?))));
    }
    let st = next("stats")?;
    let stats = if st == "s-" {
        None
    } else {
        let v: Vec<u64> = st[1..].split(',').map(|x| x.parse().unwrap()).collect();
        if v.len() != 7 {
            return Err("stats need 7 numbers".to_string());
        }
        Some(FileStats {
            group_count: v[0] as usize,
            total_file_count: v[1] as usize,
            total_file_size: FileLen(v[2]),
            redundant_file_count: v[3] as usize,
            redundant_file_size: FileLen(v[4]),
            missing_file_count: v[5] as usize,
            missing_file_size: FileLen(v[6]),
        })
    };
    let g = next("g<k>")?;
    let gk: usize = g[1..].parse().map_err(|_| "bad g<k>".to_string())?;
    let mut groups = Vec::new();
    for _ in 0..gk {
        let hash = parse_bytes_field(next("hash")?);
        let len: u64 = next("len")?.parse().map_err(|_| "bad len".to_string())?;
        let fk = next("f<k>")?;
        let fk: usize = fk[1..].parse().map_err(|_| "bad f<k>".to_string())?;
        let mut files = Vec::new();
        for _ in 0..fk {
            files.push(path_of(&parse_bytes_field(next("path")?)));
        }
        groups.push(FileGroup {
            file_len: FileLen(len),
            file_hash: FileHash::from(&hash[..]),
            files,
        });
    }
    Ok(Rep {
        header: ReportHeader {
            version,
            timestamp,
            command,
            base_dir,
            stats,
        },
        groups,
    })
}

fn show_header(h: &ReportHeader) -> String {
    let mut out = format!(
        "{} {} {} c{}",
        bytes_field(h.version.as_bytes()),
        bytes_field(h.timestamp.format(fclones::verif_api::TIMESTAMP_FMT).to_string().as_bytes()),
        bytes_field(&path_bytes(&h.base_dir)),
        h.command.len()
    );
    for a in &h.command {
        out.push(' ');
        out.push_str(&bytes_field(a.as_os_str().as_bytes()));
    }
    match &h.stats {
        None => out.push_str(" s-"),
        Some(s) => out.push_str(&format!(
            " s{},{},{},{},{},{},{}",
            s.group_count,
            s.total_file_count,
            s.total_file_size.0,
            s.redundant_file_count,
            s.redundant_file_size.0,
            s.missing_file_count,
            s.missing_file_size.0
        )),
    }
    out
}

fn show_groups(gs: &[FileGroup<Path>]) -> String {
    let mut out = format!(" g{}", gs.len());
    for g in gs {
        out.push_str(&format!(
            " {} {} f{}",
            bytes_field(&hex::decode(g.file_hash.to_string()).unwrap_or_default()),
            g.file_len.0,
            g.files.len()
        ));
        for p in &g.files {
            out.push(' ');
            out.push_str(&bytes_field(&path_bytes(p)));
        }
    }
    out
}

/// A `Read` that hands the data out in pieces: chunking of the byte stream (short reads on a pipe, buffer
/// boundaries) is an implementation dimension the round trip must be invariant under.
///   k<n>   every read returns at most n bytes
///   s<off> reads are as large as the caller allows but never cross the offset <off> (one short read there)
struct ChunkReader {
    data: Vec<u8>,
    pos: usize,
    max: usize,
    split: Option<usize>,
}

impl ChunkReader {
    fn new(data: Vec<u8>, mode: &str) -> ChunkReader {
        let n: usize = mode[1..].parse().unwrap_or(0);
        if mode.starts_with('k') {
            ChunkReader { data, pos: 0, max: n.max(1), split: None }
        } else {
            ChunkReader { data, pos: 0, max: usize::MAX, split: Some(n) }
        }
    }
}

impl std::io::Read for ChunkReader {
    fn read(&mut self, buf: &mut [u8]) -> std::io::Result<usize> {
        let mut n = buf.len().min(self.max).min(self.data.len() - self.pos);
        if let Some(off) = self.split {
            if self.pos < off {
                n = n.min(off - self.pos);
            }
        }
        buf[..n].copy_from_slice(&self.data[self.pos..self.pos + n]);
        self.pos += n;
        Ok(n)
    }
}

fn cmd_read(data: Vec<u8>) -> String {
    cmd_read_from(data, None)
}

fn cmd_read_from(data: Vec<u8>, mode: Option<&str>) -> String {
    let starts_json = String::from_utf8_lossy(&data[..data.len().min(16 * 1024)]).starts_with('{');
    let mode = mode.map(|m| m.to_string());
    let r = catch_unwind(AssertUnwindSafe(|| {
        let opened = match &mode {
            None => open_report(Cursor::new(data)),
            Some(m) => open_report(ChunkReader::new(data, m)),
        };
        let mut reader = match opened {
            Ok(r) => r,
            Err(_) => return if starts_json { "json".to_string() } else { "unknown".to_string() },
        };
        let header = match catch_unwind(AssertUnwindSafe(|| reader.read_header())) {
            Err(_) => return "hdr_panic".to_string(),
            Ok(Err(_)) => return "hdr_err".to_string(),
            Ok(Ok(h)) => h,
        };
        let mut groups = Vec::new();
        let mut end = "ok";
        let it = match reader.read_groups() {
            Ok(it) => it,
            Err(_) => return format!("{}{} end=err", show_header(&header), show_groups(&groups)),
        };
        let mut it = it;
        loop {
            match catch_unwind(AssertUnwindSafe(|| it.next())) {
                Err(_) => {
                    end = "panic";
                    break;
                }
                Ok(Err(_)) => {
                    end = "err";
                    break;
                }
                Ok(Ok(None)) => break,
                Ok(Ok(Some(g))) => groups.push(g),
            }
        }
        format!(
            "{} {}{} end={}",
            if starts_json { "jsonread" } else { "text" },
            show_header(&header),
            show_groups(&groups),
            end
        )
    }));
    r.unwrap_or_else(|_| "panic".to_string())
}

fn c10(cmd: &str, f: &[&str]) -> Option<String> {
    let cut = f.iter().position(|x| *x == "|").unwrap_or(f.len());
    Some(match cmd {
        "w" | "wj" => match parse_report(&f[..cut]) {
            Err(e) => format!("EXN {e}"),
            Ok(rep) => {
                let mut buf: Vec<u8> = Vec::new();
                let res = {
                    let mut w = ReportWriter::new(&mut buf, false);
                    if cmd == "w" {
                        w.write_as_text(&rep.header, rep.groups.iter())
                    } else {
                        w.write_as_json(&rep.header, rep.groups.iter())
                    }
                };
                match res {
                    Ok(()) => bytes_field(&buf),
                    Err(e) => format!("EXN write failed: {e}"),
                }
            }
        },
        "r" if f.len() == 1 => cmd_read(parse_bytes_field(f[0])),
        // the same through a Read that delivers the bytes in pieces (mode k<n> or s<off>)
        "rk" if f.len() == 2 => cmd_read_from(parse_bytes_field(f[1]), Some(f[0])),
        // Path::from(bytes).to_path_buf() (normalisation by std::path components)
        "pn" if f.len() == 1 => bytes_field(&path_bytes(&path_of(&parse_bytes_field(f[0])))),
        // Path::from_escaped_string
        "pd" if f.len() == 1 => {
            let x = parse_bytes_field(f[0]);
            match std::str::from_utf8(&x) {
                Err(_) => "notstr".to_string(),
                Ok(s) => match catch_unwind(AssertUnwindSafe(|| Path::from_escaped_string(s))) {
                    Err(_) => "panic".to_string(),
                    Ok(Err(_)) => "err".to_string(),
                    Ok(Ok(p)) => format!("ok {}", bytes_field(&path_bytes(&p))),
                },
            }
        }
        // ByteSize texts of the given numbers: n:<bytes> ...
        "hs" => f
            .iter()
            .map(|x| {
                let n: u64 = x.parse().unwrap();
                format!("{}:{}", n, bytes_field(FileLen(n).to_string().as_bytes()))
            })
            .collect::<Vec<_>>()
            .join(" "),
        _ => return None,
    })
}

fn main() {
    // panics of the code under test are caught and reported as "panic"; keep stderr quiet
    std::panic::set_hook(Box::new(|_| {}));
    let stdin = std::io::stdin();
    let stdout = std::io::stdout();
    let mut out = std::io::BufWriter::new(stdout.lock());
    for line in stdin.lock().lines() {
        let line = line.unwrap();
        let toks: Vec<&str> = line.split(' ').filter(|x| !x.is_empty()).collect();
        let res = if toks.is_empty() {
            "EXN empty line".to_string()
        } else {
            match c17(toks[0], &toks[1..]).or_else(|| c10(toks[0], &toks[1..])) {
                Some(r) => r,
                None => format!("EXN unknown command {}", toks[0]),
            }
        };
        writeln!(out, "{}", res).unwrap();
    }
    out.flush().unwrap();
}
