//! Implementation side of engine W (property C09): drives the real `fclones::walk::Walk` exactly as
//! group.rs `scan_files` does, on trees prepared by vlib/props/c09.py.
//!
//! stdin: one JSON object per line
//!   {"cwd": "...", "roots": ["..."], "depth": null|n, "hidden": b, "follow": b, "symlinks": b,
//!    "no_ignore": b, "one_fs": b, "min": n, "max": null|n, "names": [..], "paths": [..],
//!    "excludes": [..], "regex": b, "icase": b, "threads": n, "eval": ["abs path", ...]}
//! stdout: one JSON object per line
//!   {"walk": [paths sent to the consumer of Walk::run, sorted, with repetitions],
//!    "scan": [those that pass FileInfo (fs::metadata) + the --min/--max filter of scan_files],
//!    "sel_file": "0101..", "sel_dir": "0101.."   (PathSelector on every path of "eval"),
//!    "not_excl": "0101.."  (no --exclude pattern matches the path fully)}
//! or {"error": "..."}.
use std::io::{BufRead, Write};
use std::sync::Mutex;

use fclones::config::GroupConfig;
use fclones::verif_api::path::Path;
use fclones::verif_api::walk::Walk;
use fclones::FileLen;
use serde_json::{json, Value};

fn strs(v: &Value) -> Vec<String> {
    v.as_array()
        .map(|a| a.iter().map(|x| x.as_str().unwrap_or("").to_string()).collect())
        .unwrap_or_default()
}

fn run_case(case: &Value) -> Result<Value, String> {
    let cwd = case["cwd"].as_str().ok_or("cwd")?;
    std::env::set_current_dir(cwd).map_err(|e| format!("chdir {cwd}: {e}"))?;

    let mut config = GroupConfig::default();
    config.base_dir = Path::from(".");
    config.paths = strs(&case["roots"]).iter().map(Path::from).collect();
    config.depth = case["depth"].as_u64().map(|d| d as usize);
    config.hidden = case["hidden"].as_bool().unwrap_or(false);
    config.follow_links = case["follow"].as_bool().unwrap_or(false);
    config.symbolic_links = case["symlinks"].as_bool().unwrap_or(false);
    config.no_ignore = case["no_ignore"].as_bool().unwrap_or(false);
    config.one_fs = case["one_fs"].as_bool().unwrap_or(false);
    config.min_size = FileLen(case["min"].as_u64().unwrap_or(0));
    config.max_size = case["max"].as_u64().map(FileLen);
    config.name_patterns = strs(&case["names"]);
    config.path_patterns = strs(&case["paths"]);
    config.exclude_patterns = strs(&case["excludes"]);
    config.regex = case["regex"].as_bool().unwrap_or(false);
    config.ignore_case = case["icase"].as_bool().unwrap_or(false);
    // main.rs run_group
    config.resolve_base_dir().map_err(|e| e.to_string())?;

    // group.rs GroupCtx::new
    let base_dir = Path::from(std::env::current_dir().unwrap_or_default());
    let path_selector = config
        .path_selector(&base_dir)
        .map_err(|e| format!("Invalid pattern: {e}"))?;

    // group.rs scan_files
    let min_size = config.min_size;
    let max_size = config.max_size.unwrap_or(FileLen::MAX);
    let found: Mutex<Vec<String>> = Mutex::new(Vec::new());
    let scanned: Mutex<Vec<String>> = Mutex::new(Vec::new());
    let tick = |_: &Path| {};
    let mut walk = Walk::new();
    walk.depth = config.depth.unwrap_or(usize::MAX);
    walk.hidden = config.hidden;
    walk.follow_links = config.follow_links;
    walk.report_links = config.symbolic_links;
    walk.no_ignore = config.no_ignore;
    walk.one_fs = config.one_fs;
    walk.path_selector = path_selector.clone();
    walk.log = None;
    walk.on_visit = &tick;
    let threads = case["threads"].as_u64().unwrap_or(1) as usize;
    let pool = rayon::ThreadPoolBuilder::new()
        .num_threads(threads)
        .build()
        .map_err(|e| e.to_string())?;
    pool.install(|| {
        walk.run(config.input_paths(), |path: Path| {
            let pb = path.to_path_buf();
            let s = pb.to_string_lossy().to_string();
            found.lock().unwrap().push(s.clone());
            // file_info_or_log_err: FileMetadata::new = fs::metadata (follows links)
            if let Ok(md) = std::fs::metadata(&pb) {
                let l = FileLen(md.len());
                if l >= min_size && l <= max_size {
                    scanned.lock().unwrap().push(s);
                }
            }
        })
    });
    let mut found = found.into_inner().unwrap();
    let mut scanned = scanned.into_inner().unwrap();
    found.sort();
    scanned.sort();

    // the same selector without the include patterns: tells whether an --exclude pattern matches fully
    let mut only_excl = config.clone();
    only_excl.name_patterns = vec![];
    only_excl.path_patterns = vec![];
    let excl_selector = only_excl
        .path_selector(&base_dir)
        .map_err(|e| format!("Invalid pattern: {e}"))?;
    let mut sel_file = String::new();
    let mut sel_dir = String::new();
    let mut not_excl = String::new();
    for p in strs(&case["eval"]) {
        let p = Path::from(&p);
        sel_file.push(if path_selector.matches_full_path(&p) { '1' } else { '0' });
        sel_dir.push(if path_selector.matches_dir(&p) { '1' } else { '0' });
        not_excl.push(if excl_selector.matches_full_path(&p) { '1' } else { '0' });
    }
    Ok(json!({"walk": found, "scan": scanned, "sel_file": sel_file, "sel_dir": sel_dir, "not_excl": not_excl}))
}

fn main() {
    let stdin = std::io::stdin();
    let stdout = std::io::stdout();
    let mut out = stdout.lock();
    for line in stdin.lock().lines() {
        let line = line.unwrap();
        if line.trim().is_empty() {
            continue;
        }
        let res = match serde_json::from_str::<Value>(&line) {
            Ok(case) => match std::panic::catch_unwind(|| run_case(&case)) {
                Ok(Ok(v)) => v,
                Ok(Err(e)) => json!({"error": e}),
                Err(_) => json!({"error": "panic"}),
            },
            Err(e) => json!({"error": format!("bad json: {e}")}),
        };
        writeln!(out, "{}", res).unwrap();
        out.flush().unwrap();
    }
}
