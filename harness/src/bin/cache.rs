//! Engine K correspondence harness (property C12): the real `HashCache` and `FileHasher::new_cached`
//! driven by op sequences on real files.
//!
//! usage:  cache api <scratch_dir>     (sequences on stdin, one per line, ALL read before anything runs)
//!         cache ref                   (lines "<algo index> <dotted bytes>" -> hex of the reference hash)
//!
//! Line protocol: see coq/driver/drv_K.ml (same op tokens; `c` has no INO field on this side, its
//! output token `i<INO>` reports the canonical number of the inode the kernel allocated).  Output:
//!     <id> | <one token per op>
//! Tokens of `H`/`X` carry the model-free oracle after '|'-free separator '~':
//!     ok:HEX@META~HEX'      HEX' = the hash an UNCACHED FileHasher computes for the same call now
//!     err~err | ok:..~err | err~HEX'
//! Every sequence runs in its own directory `<scratch>/<id>/{files,xdg}`; the cache location is
//! `<scratch>/<id>/xdg/fclones` both for HashCache::open (explicit path) and for
//! FileHasher::new_cached (HashCache::open_default honours XDG_CACHE_HOME through dirs::cache_dir).
//! sled's flusher thread and typed-sled's layout are not observed: only get/put/hash results.

use std::collections::HashMap;
use std::fs::{self, OpenOptions};
use std::io::{self, BufRead, Write};
use std::os::unix::fs::{MetadataExt, OpenOptionsExt, PermissionsExt};
use std::panic::{catch_unwind, AssertUnwindSafe};
use std::path::{Path as StdPath, PathBuf};
use std::sync::Arc;

use fclones::log::{Log, LogLevel};
use fclones::progress::{NoProgressBar, ProgressTracker};
use fclones::verif_api::cache::HashCache;
use fclones::verif_api::file::{FileChunk, FileHash, FileLen, FileMetadata, FilePos};
use fclones::verif_api::hasher::{FileHasher, HashFn};
use fclones::verif_api::path::Path;
use fclones::verif_api::transform::Transform;
use harness::{parse_bytes_field, parse_ints_field};

struct QuietLog;
impl Log for QuietLog {
    fn progress_bar(&self, _msg: &str, _len: fclones::log::ProgressBarLength) -> Arc<dyn ProgressTracker> {
        Arc::new(NoProgressBar)
    }
    fn log(&self, _level: LogLevel, _msg: String) {}
}
static LOG: QuietLog = QuietLog;
static PANIC_MSG: std::sync::Mutex<String> = std::sync::Mutex::new(String::new());

/// index -> (command string, Transform.in_place, Transform.copy); same table as drv_K.ml / c12.py
const TTABLE: [(&str, bool, bool); 17] = [
    ("cat", false, false),
    ("head -c 3", false, false),
    ("tr a-m n-z", false, false),
    ("base64 -w0", false, false),
    ("false", false, false),
    ("vk_failz", false, false),
    ("sed -i y/abc/xyz/ $IN", false, true),
    ("sed -i y/abc/xyz/ $IN", true, true),
    ("cat $IN", false, true),
    ("cat $IN", false, false), // --no-copy
    ("<none>", false, true),   // copy forced by hand (before ea68843 the id then read "<none>")
    ("sed y/abc/xyz/ $IN --in-place", false, true),
    ("sed y/abc/xyz/ $IN", true, true),
    ("v1/vk_norm", false, false), // head -c 3   } same file name, other directory (relative to the cwd = scratch dir)
    ("v2/vk_norm", false, false), // cat         }
    ("head  -c 3", false, false), // = entry 1 with two blanks
    ("cat ", false, false),       // = entry 0 with a trailing blank
];

/// the id FileHasher::new_cached gives the configuration (used for HashCache::open by hand; the real
/// new_cached is exercised by the HO op, and G after H shows that both name the same tree)
fn transform_id(i: usize) -> String {
    let (cmd, in_place, copy) = TTABLE[i];
    format!("{}\0{}\0{}", cmd, if in_place { "--in-place" } else { "" }, if copy { "" } else { "--no-copy" })
}

fn algo(i: u64) -> HashFn {
    match i {
        0 => HashFn::Metro,
        1 => HashFn::Xxhash,
        2 => HashFn::Blake3,
        3 => HashFn::Sha256,
        4 => HashFn::Sha512,
        5 => HashFn::Sha3_256,
        6 => HashFn::Sha3_512,
        _ => panic!("bad algorithm index"),
    }
}

/// Reference hash computed with the hash crates directly (independent of hasher.rs).
fn ref_hash(a: u64, data: &[u8]) -> Vec<u8> {
    use sha2::Digest;
    match a {
        0 => {
            use std::hash::Hasher;
            let mut h = metrohash::MetroHash128::new();
            h.write(data);
            let (x, y) = h.finish128();
            ((((x as u128) << 64) | y as u128).to_le_bytes()).to_vec()
        }
        1 => xxhash_rust::xxh3::xxh3_128(data).to_le_bytes().to_vec(),
        2 => blake3::hash(data).as_bytes().to_vec(),
        3 => sha2::Sha256::digest(data).to_vec(),
        4 => sha2::Sha512::digest(data).to_vec(),
        5 => sha3::Sha3_256::digest(data).to_vec(),
        6 => sha3::Sha3_512::digest(data).to_vec(),
        _ => panic!("bad algorithm index"),
    }
}

/// Transform::new probes the program with spawn + kill and never waits for it: reap those zombies
/// (tens of thousands of sequences per run would otherwise exhaust the pid limit of the machine).
/// Only called between ops, when no transform execution is in flight.
fn reap_zombies() {
    for _ in 0..3 {
        loop {
            let mut status = 0;
            let r = unsafe { libc::waitpid(-1, &mut status, libc::WNOHANG) };
            if r <= 0 {
                break;
            }
        }
        std::thread::sleep(std::time::Duration::from_micros(200));
    }
}

fn make_transform(i: usize) -> Transform {
    let (cmd, in_place, copy) = TTABLE[i];
    let mut t = Transform::new(cmd.to_string(), in_place).expect("Transform::new");
    if i == 9 {
        t.copy = false; // what --no-copy does (config.rs build_transform)
    }
    if i == 10 {
        t.copy = true;
    }
    assert_eq!(t.copy, copy, "transform table: copy flag of entry {i}");
    t
}

fn set_mtime(p: &StdPath, ns: i64) {
    let secs = ns.div_euclid(1_000_000_000);
    let nanos = ns.rem_euclid(1_000_000_000) as u32;
    filetime::set_file_mtime(p, filetime::FileTime::from_unix_time(secs, nanos)).expect("set mtime");
}

struct Seq {
    files: PathBuf,
    cache_dir: PathBuf,
    inos: HashMap<(u64, u64), usize>,
}

impl Seq {
    fn path(&self, p: &str) -> PathBuf {
        self.files.join(format!("f{p}"))
    }
    fn canon(&mut self, md: &fs::Metadata) -> usize {
        let n = self.inos.len() + 1;
        *self.inos.entry((md.dev(), md.ino())).or_insert(n)
    }
    fn meta(&mut self, p: &str) -> Option<String> {
        let md = fs::metadata(self.path(p)).ok()?;
        let ino = self.canon(&md);
        let ns = md.mtime() as i128 * 1_000_000_000 + md.mtime_nsec() as i128;
        Some(format!("@{},{},{}", ino, ns, md.len()))
    }
}

fn run_seq(scratch: &StdPath, id: &str, ops: &[&str]) -> String {
    let dir = scratch.join(id);
    let _ = fs::remove_dir_all(&dir);
    let files = dir.join("files");
    let xdg = dir.join("xdg");
    fs::create_dir_all(&files).unwrap();
    fs::create_dir_all(&xdg).unwrap();
    std::env::set_var("XDG_CACHE_HOME", &xdg);
    let mut s = Seq { files, cache_dir: xdg.join("fclones"), inos: HashMap::new() };
    let mut direct: Option<HashCache> = None;
    // (cached hasher, uncached twin used only as the oracle)
    let mut hasher: Option<(FileHasher<'static>, FileHasher<'static>, u64)> = None;
    let mut out: Vec<String> = Vec::new();
    for tok in ops {
        let f: Vec<&str> = tok.split(':').collect();
        let r = match f.as_slice() {
            ["c", p, b, mt] => {
                let path = s.path(p);
                match OpenOptions::new().write(true).create_new(true).mode(0o644).open(&path) {
                    Ok(mut fh) => {
                        fh.write_all(&parse_bytes_field(b)).unwrap();
                        drop(fh);
                        set_mtime(&path, mt.parse().unwrap());
                        let md = fs::metadata(&path).unwrap();
                        format!("i{}", s.canon(&md))
                    }
                    Err(_) => "i-".to_string(),
                }
            }
            ["m", p, mt] => {
                // a directory: stat works, every read fails (EISDIR) — the "failed read" of hash_file
                let path = s.path(p);
                match fs::create_dir(&path) {
                    Ok(()) => {
                        set_mtime(&path, mt.parse().unwrap());
                        let md = fs::metadata(&path).unwrap();
                        format!("i{},{}", s.canon(&md), md.len())
                    }
                    Err(_) => "i-".to_string(),
                }
            }
            ["w", p, b, mt] => {
                let path = s.path(p);
                if let Ok(mut fh) = OpenOptions::new().write(true).truncate(true).open(&path) {
                    fh.write_all(&parse_bytes_field(b)).unwrap();
                    drop(fh);
                    set_mtime(&path, mt.parse().unwrap());
                }
                ".".to_string()
            }
            ["a", p, b, mt] => {
                let path = s.path(p);
                if let Ok(mut fh) = OpenOptions::new().append(true).open(&path) {
                    fh.write_all(&parse_bytes_field(b)).unwrap();
                    drop(fh);
                    set_mtime(&path, mt.parse().unwrap());
                }
                ".".to_string()
            }
            ["t", p, n, mt] => {
                let path = s.path(p);
                if let Ok(fh) = OpenOptions::new().write(true).open(&path) {
                    fh.set_len(n.parse().unwrap()).unwrap();
                    drop(fh);
                    set_mtime(&path, mt.parse().unwrap());
                }
                ".".to_string()
            }
            ["u", p, mt] => {
                let path = s.path(p);
                if path.exists() {
                    set_mtime(&path, mt.parse().unwrap());
                }
                ".".to_string()
            }
            ["r", p, q] => {
                let _ = fs::rename(s.path(p), s.path(q));
                ".".to_string()
            }
            ["d", p] => {
                let _ = fs::remove_file(s.path(p));
                ".".to_string()
            }
            ["l", p, q] => {
                let _ = fs::hard_link(s.path(p), s.path(q));
                ".".to_string()
            }
            ["O", a, tr] => {
                let id = if *tr == "-" { None } else { Some(transform_id(tr.parse::<usize>().unwrap())) };
                let cmd = id.as_deref();
                let mut opened = HashCache::open(&Path::from(&s.cache_dir), cmd, algo(a.parse().unwrap()));
                let mut tries = 0;
                while opened.is_err() && tries < 50 {
                    std::thread::sleep(std::time::Duration::from_millis(20));
                    opened = HashCache::open(&Path::from(&s.cache_dir), cmd, algo(a.parse().unwrap()));
                    tries += 1;
                }
                match opened {
                    Ok(c) => {
                        direct = Some(c);
                        ".".to_string()
                    }
                    Err(e) => format!("EXN open failed: {e}").split_whitespace().collect::<Vec<_>>().join("_"),
                }
            }
            ["C"] => match direct.take() {
                Some(c) => match c.close() {
                    Ok(()) => ".".to_string(),
                    Err(e) => format!("EXN close failed: {e}").split_whitespace().collect::<Vec<_>>().join("_"),
                },
                None => "EXN no open cache".split_whitespace().collect::<Vec<_>>().join("_"),
            },
            ["HO", a, tr] => {
                let a: u64 = a.parse().unwrap();
                let t = if *tr == "-" { None } else { Some(make_transform(tr.parse().unwrap())) };
                // sled releases its file lock asynchronously after the previous handle is dropped: retry briefly
                let mut opened = FileHasher::new_cached(algo(a), t.clone(), &LOG);
                let mut tries = 0;
                while opened.is_err() && tries < 50 {
                    std::thread::sleep(std::time::Duration::from_millis(20));
                    opened = FileHasher::new_cached(algo(a), t.clone(), &LOG);
                    tries += 1;
                }
                if tries > 0 {
                    eprintln!("cache harness: new_cached needed {tries} retries");
                }
                match opened {
                    Ok(h) => {
                        // precondition of the harness: the cache really lives under the scratch dir
                        assert!(s.cache_dir.join("db").exists(), "cache is not under the scratch dir");
                        hasher = Some((h, FileHasher::new(algo(a), t, &LOG), a));
                        ".".to_string()
                    }
                    Err(e) => format!("EXN new_cached failed: {e}").split_whitespace().collect::<Vec<_>>().join("_"),
                }
            }
            ["HC"] => {
                hasher = None; // Drop closes (flushes) the cache
                reap_zombies();
                ".".to_string()
            }
            ["P", p, pos, len, dl, h] => {
                let path = Path::from(s.path(p));
                match (FileMetadata::new(&path), s.meta(p)) {
                    (Ok(md), Some(meta)) => {
                        let c = direct.as_ref().expect("no open cache");
                        let chunk = FileChunk::new(&path, FilePos(pos.parse().unwrap()), FileLen(len.parse().unwrap()));
                        let key = c.key(&chunk, &md).unwrap();
                        let bytes = parse_bytes_field(h);
                        match c.put(&key, &md, FileLen(dl.parse().unwrap()), FileHash::from(bytes.as_slice())) {
                            Ok(()) => format!("ok{meta}"),
                            Err(e) => format!("EXN put failed: {e}").split_whitespace().collect::<Vec<_>>().join("_"),
                        }
                    }
                    _ => "nofile".to_string(),
                }
            }
            ["G", p, pos, len] => {
                let path = Path::from(s.path(p));
                match (FileMetadata::new(&path), s.meta(p)) {
                    (Ok(md), Some(meta)) => {
                        let c = direct.as_ref().expect("no open cache");
                        let chunk = FileChunk::new(&path, FilePos(pos.parse().unwrap()), FileLen(len.parse().unwrap()));
                        let key = c.key(&chunk, &md).unwrap();
                        match c.get(&key, &md) {
                            Ok(None) => format!("n{meta}"),
                            Ok(Some((dl, h))) => {
                                let hs = h.to_string();
                                format!("s:{}:{}{}", dl.0, if hs.is_empty() { "-".to_string() } else { hs }, meta)
                            }
                            Err(e) => format!("EXN get failed: {e}").split_whitespace().collect::<Vec<_>>().join("_"),
                        }
                    }
                    _ => "nofile".to_string(),
                }
            }
            [k @ ("H" | "X"), p, pos, len] => {
                let path = Path::from(s.path(p));
                let meta = s.meta(p).unwrap_or_default();
                let Some((h, plain, _a)) = hasher.as_ref() else {
                    out.push("EXN_no_hasher".to_string());
                    continue;
                };
                let chunk = FileChunk::new(&path, FilePos(pos.parse().unwrap()), FileLen(len.parse().unwrap()));
                if *k == "H" {
                    let cached = match h.hash_file(&chunk, |_| {}) {
                        Ok(x) => format!("ok:{x}{meta}"),
                        Err(_) => "err".to_string(),
                    };
                    let reference = match plain.hash_file(&chunk, |_| {}) {
                        Ok(x) => format!("{x}"),
                        Err(_) => "err".to_string(),
                    };
                    format!("{cached}~{reference}")
                } else {
                    let cached = match h.hash_transformed(&chunk, |_| {}) {
                        Ok((dl, x)) => format!("ok:{}:{x}{meta}", dl.0),
                        Err(_) => "err".to_string(),
                    };
                    let reference = match plain.hash_transformed(&chunk, |_| {}) {
                        Ok((dl, x)) => format!("{}:{x}", dl.0),
                        Err(_) => "err".to_string(),
                    };
                    format!("{cached}~{reference}")
                }
            }
            _ => format!("EXN bad token {tok}").split_whitespace().collect::<Vec<_>>().join("_"),
        };
        out.push(r);
    }
    drop(hasher);
    drop(direct);
    reap_zombies();
    let _ = fs::remove_dir_all(&dir);
    format!("{} | {}", id, out.join(" "))
}

fn write_helper(dir: &StdPath, name: &str, body: &str) {
    let p = dir.join(name);
    if p.exists() {
        return; // prepared by the check before the shards start (rewriting a running script fails with ETXTBSY)
    }
    fs::write(&p, body).unwrap();
    fs::set_permissions(&p, fs::Permissions::from_mode(0o755)).unwrap();
}

fn main() {
    let args: Vec<String> = std::env::args().collect();
    let stdin = io::stdin();
    // read everything first: Transform::new spawns the transform program with our stdin inherited
    let lines: Vec<String> = stdin.lock().lines().map(|l| l.unwrap()).collect();
    let stdout = io::stdout();
    let mut o = stdout.lock();
    match args.get(1).map(|s| s.as_str()) {
        Some("ref") => {
            for l in &lines {
                let f: Vec<&str> = l.split_whitespace().collect();
                if f.len() != 2 {
                    writeln!(o, "EXN malformed").unwrap();
                    continue;
                }
                let a = parse_ints_field(f[0])[0];
                writeln!(o, "{}", hex::encode(ref_hash(a, &parse_bytes_field(f[1])))).unwrap();
            }
        }
        Some("api") => {
            fs::create_dir_all(&args[2]).unwrap();
            // absolute: dirs::cache_dir ignores a relative XDG_CACHE_HOME and falls back to $HOME/.cache
            let scratch = fs::canonicalize(&args[2]).unwrap();
            assert!(scratch.is_absolute());
            let bin = scratch.join("bin");
            fs::create_dir_all(&bin).unwrap();
            // outputs its input, then fails iff the first byte is 'z' (hash computed, exit status != 0)
            write_helper(&bin, "vk_failz", "#!/bin/sh\nf=$(mktemp)\ncat > \"$f\"\ncat \"$f\"\nc=$(head -c1 \"$f\")\nrm -f \"$f\"\n[ \"$c\" != \"z\" ]\n");
            write_helper(&bin, "<none>", "#!/bin/sh\nexec head -c 2\n");
            // Transform::new probes the bare file name, the run uses the path as given (relative to the cwd)
            write_helper(&bin, "vk_norm", "#!/bin/sh\nexec head -c 3\n");
            for (d, body) in [("v1", "#!/bin/sh\nexec head -c 3\n"), ("v2", "#!/bin/sh\nexec cat\n")] {
                fs::create_dir_all(scratch.join(d)).unwrap();
                write_helper(&scratch.join(d), "vk_norm", body);
            }
            std::env::set_current_dir(&scratch).unwrap();
            let path = std::env::var("PATH").unwrap_or_default();
            std::env::set_var("PATH", format!("{}:{}", bin.display(), path));
            std::env::set_var("LC_ALL", "C");
            // Transform::new spawns the transform program with OUR stdout inherited (`sed` prints its usage there):
            // keep the result channel on a private close-on-exec descriptor and point fd 1 at stderr
            drop(o);
            let mut o = unsafe {
                use std::os::unix::io::FromRawFd;
                let fd = libc::fcntl(1, libc::F_DUPFD_CLOEXEC, 10);
                assert!(fd >= 0);
                libc::dup2(2, 1);
                fs::File::from_raw_fd(fd)
            };
            std::panic::set_hook(Box::new(|info| {
                *PANIC_MSG.lock().unwrap() = info.to_string();
            }));
            for l in &lines {
                let toks: Vec<&str> = l.split_whitespace().collect();
                if toks.is_empty() {
                    writeln!(o, "EXN empty line").unwrap();
                    continue;
                }
                let id = toks[0];
                let r = catch_unwind(AssertUnwindSafe(|| run_seq(&scratch, id, &toks[1..])));
                match r {
                    Ok(s) => writeln!(o, "{s}").unwrap(),
                    Err(_) => {
                        let msg = PANIC_MSG.lock().unwrap().clone().split_whitespace().collect::<Vec<_>>().join("_").replace('|', "/");
                        writeln!(o, "{id} | EXN_panic:{msg}").unwrap()
                    }
                }
                o.flush().unwrap();
            }
        }
        _ => {
            eprintln!("usage: cache api <scratch_dir> | cache ref");
            std::process::exit(2);
        }
    }
}
