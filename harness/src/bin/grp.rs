//! grp — implementation side of engine G (staged grouping): C01, C03, C06 (and later C13/C14/C15).
//!
//! stdin: one JSON case per line
//!   {"base_dir": "/abs/canonical/dir", "paths": ["r1", "./r2", ...],
//!    "opts": {"rf_over": n|null, "rf_under": n|null, "unique": bool, "isolate": bool, "match_links": bool,
//!             "symbolic_links": bool, "follow_links": bool, "max_prefix": n|null, "max_suffix": n|null,
//!             "min_size": n, "max_size": n|null, "hash_fn": "metro", "transform": "cmd"|null,
//!             "skip_content_hash": bool, "cache": bool, "threads": [["default", r, s], ...], "hidden": bool},
//!    "env": {"disk_kind": "ssd"|"hdd"|"unknown"|null, "mounts": "ssd=/abs/d1,hdd=/abs/d2"|null},
//!    "tmp": "/abs/tmpdir", "probes": [[pos, len], ...], "nd": 0}
//! stdout: one JSON line per case
//!   {"impl": "<groups in the canonical format of coq/driver/drv_G.ml>" | "ERR ..." | "PANIC ...",
//!    "model_in": "<input line for the model driver>",
//!    "scanned": [[hexpath, dev, ino, devidx, len], ...],
//!    "filter": {"repl": "O1", "by_id": true, "roots": [hexpath...]},
//!    "devices": [[index, kind, min_prefix, max_prefix, suffix_len, suffix_threshold], ...],
//!    "hashref_bad": ["..."], "hash_checked": n, "warnings": ["..."]}
//!
//! The implementation is called through its public API (`fclones::group_files`) on a `GroupConfig` built
//! from the options; the file table handed to the model is obtained with the implementation's own
//! `Walk`, `FileMetadata` and `DiskDevices`; the hash table with the implementation's own
//! `FileHasher::hash_file` / `hash_transformed` for every chunk the model may ask for.  Every table
//! entry is also compared with a one-shot reference hash over exactly data[pos .. min(pos+len, flen)]
//! computed directly with the hash crates.
use std::collections::{BTreeMap, BTreeSet};
use std::ffi::OsString;
use std::io::{BufRead, Write};
use std::os::unix::ffi::OsStrExt;
use std::path::Component;
use std::str::FromStr;
use std::sync::{Arc, Mutex};

use fclones::config::{GroupConfig, Parallelism};
use fclones::log::{Log, LogLevel, ProgressBarLength};
use fclones::progress::{NoProgressBar, ProgressTracker};
use fclones::verif_api::device::DiskDevices;
use fclones::verif_api::file::{FileChunk, FileMetadata, FilePos};
use fclones::verif_api::group::Replication;
use fclones::verif_api::hasher::{FileHasher, HashFn};
use fclones::verif_api::walk::Walk;
use fclones::{group_files, FileLen, Path};
use serde_json::{json, Value};

struct QLog {
    msgs: Mutex<Vec<String>>,
}

impl Log for QLog {
    fn progress_bar(&self, _msg: &str, _len: ProgressBarLength) -> Arc<dyn ProgressTracker> {
        Arc::new(NoProgressBar)
    }
    fn log(&self, level: LogLevel, msg: String) {
        match level {
            LogLevel::Info => {}
            _ => self.msgs.lock().unwrap().push(format!("{level:?}: {msg}")),
        }
    }
}

fn hex(b: &[u8]) -> String {
    let mut s = String::with_capacity(b.len() * 2);
    for x in b {
        s.push_str(&format!("{x:02x}"));
    }
    s
}

/// components hex-encoded and joined by ',' (the root component is "2f")
fn path_field(p: &Path) -> String {
    let pb = p.to_path_buf();
    let comps: Vec<String> = pb
        .components()
        .map(|c| match c {
            Component::RootDir => hex(b"/"),
            other => hex(other.as_os_str().as_bytes()),
        })
        .collect();
    comps.join(",")
}

fn kind_char(k: &sysinfo_kind::Kind) -> char {
    match k {
        sysinfo_kind::Kind::Ssd => 's',
        sysinfo_kind::Kind::Hdd => 'h',
        sysinfo_kind::Kind::Unknown => 'u',
    }
}

/// The harness has no direct dependency on sysinfo; the kind of a device is recovered from the
/// Debug rendering of `DiskKind` (SSD / HDD / Unknown(..)).
mod sysinfo_kind {
    pub enum Kind {
        Ssd,
        Hdd,
        Unknown,
    }
    pub fn of_debug(s: &str) -> Kind {
        if s.starts_with("SSD") {
            Kind::Ssd
        } else if s.starts_with("HDD") {
            Kind::Hdd
        } else {
            Kind::Unknown
        }
    }
}

fn reference_hash(algo: &str, data: &[u8]) -> String {
    match algo {
        "metro" => {
            use std::hash::Hasher;
            let mut h = metrohash::MetroHash128::new();
            h.write(data);
            let (a, b) = h.finish128();
            let v: u128 = ((a as u128) << 64) | (b as u128);
            hex(&v.to_le_bytes())
        }
        "xxhash3" => hex(&xxhash_rust::xxh3::xxh3_128(data).to_le_bytes()),
        "blake3" => hex(blake3::hash(data).as_bytes()),
        "sha256" => {
            use sha2::Digest;
            hex(sha2::Sha256::digest(data).as_slice())
        }
        "sha512" => {
            use sha2::Digest;
            hex(sha2::Sha512::digest(data).as_slice())
        }
        "sha3-256" => {
            use sha3::Digest;
            hex(sha3::Sha3_256::digest(data).as_slice())
        }
        "sha3-512" => {
            use sha3::Digest;
            hex(sha3::Sha3_512::digest(data).as_slice())
        }
        _ => "unknown-algorithm".to_string(),
    }
}

fn opt_u64(v: &Value) -> Option<u64> {
    v.as_u64()
}

fn build_config(case: &Value) -> GroupConfig {
    let o = &case["opts"];
    let mut c = GroupConfig::default();
    c.base_dir = Path::from(case["base_dir"].as_str().unwrap());
    c.paths = case["paths"]
        .as_array()
        .unwrap()
        .iter()
        .map(|p| Path::from(p.as_str().unwrap()))
        .collect();
    c.rf_over = opt_u64(&o["rf_over"]).map(|x| x as usize);
    c.rf_under = opt_u64(&o["rf_under"]).map(|x| x as usize);
    c.unique = o["unique"].as_bool().unwrap_or(false);
    c.isolate = o["isolate"].as_bool().unwrap_or(false);
    c.match_links = o["match_links"].as_bool().unwrap_or(false);
    c.symbolic_links = o["symbolic_links"].as_bool().unwrap_or(false);
    c.follow_links = o["follow_links"].as_bool().unwrap_or(false);
    c.hidden = o["hidden"].as_bool().unwrap_or(false);
    c.no_ignore = true;
    c.max_prefix_size = opt_u64(&o["max_prefix"]).map(FileLen);
    c.max_suffix_size = opt_u64(&o["max_suffix"]).map(FileLen);
    c.min_size = FileLen(opt_u64(&o["min_size"]).unwrap_or(0));
    c.max_size = opt_u64(&o["max_size"]).map(FileLen);
    c.hash_fn = HashFn::from_str(o["hash_fn"].as_str().unwrap_or("metro")).unwrap();
    c.transform = o["transform"].as_str().map(|s| s.to_string());
    c.skip_content_hash = o["skip_content_hash"].as_bool().unwrap_or(false);
    c.cache = o["cache"].as_bool().unwrap_or(false);
    if let Some(ts) = o["threads"].as_array() {
        for t in ts {
            let name = OsString::from(t[0].as_str().unwrap());
            c.threads.push((
                name,
                Parallelism {
                    random: t[1].as_u64().unwrap() as usize,
                    sequential: t[2].as_u64().unwrap() as usize,
                },
            ));
        }
    }
    c
}

fn set_env(case: &Value) {
    let e = &case["env"];
    match e["disk_kind"].as_str() {
        Some(k) => std::env::set_var("FCLONES_VERIF_DISK_KIND", k),
        None => std::env::remove_var("FCLONES_VERIF_DISK_KIND"),
    }
    match e["mounts"].as_str() {
        Some(m) => std::env::set_var("FCLONES_VERIF_MOUNTS", m),
        None => std::env::remove_var("FCLONES_VERIF_MOUNTS"),
    }
    // helper scripts used as transform programs (Transform::new looks the program up through PATH)
    if let Some(d) = e["path_prepend"].as_str() {
        let cur = std::env::var("PATH").unwrap_or_default();
        if !cur.split(':').any(|x| x == d) {
            std::env::set_var("PATH", format!("{d}:{cur}"));
        }
    }
    if let Some(t) = case["tmp"].as_str() {
        std::env::set_var("TMPDIR", t);
        std::env::set_var("XDG_CACHE_HOME", format!("{t}/cache"));
    }
}

fn groups_line(groups: &[fclones::FileGroup<fclones::FileInfo>]) -> String {
    if groups.is_empty() {
        return "-".to_string();
    }
    groups
        .iter()
        .map(|g| {
            format!(
                "{}:{}:{}",
                g.file_len.0,
                g.file_hash,
                g.files.iter().map(|f| path_field(&f.path)).collect::<Vec<_>>().join(";")
            )
        })
        .collect::<Vec<_>>()
        .join("|")
}

/// Runs the transform command on the file as the reference: `sh -c <cmd> < file`.
fn reference_transform(cmd: &str, file: &std::path::Path) -> Option<Vec<u8>> {
    let f = std::fs::File::open(file).ok()?;
    let out = std::process::Command::new("sh")
        .arg("-c")
        .arg(cmd)
        .env("IN", file)
        .stdin(f)
        .stderr(std::process::Stdio::null())
        .output()
        .ok()?;
    if out.status.success() {
        Some(out.stdout)
    } else {
        None
    }
}

fn run_case(case: &Value) -> Value {
    set_env(case);
    let config = build_config(case);
    let log = QLog {
        msgs: Mutex::new(vec![]),
    };
    let algo = case["opts"]["hash_fn"].as_str().unwrap_or("metro").to_string();

    // ---- the implementation
    let res = std::panic::catch_unwind(std::panic::AssertUnwindSafe(|| group_files(&config, &log)));
    let impl_line = match res {
        Ok(Ok(groups)) => groups_line(&groups),
        Ok(Err(e)) => format!("ERR {}", e.message),
        Err(p) => {
            let msg = p
                .downcast_ref::<String>()
                .cloned()
                .or_else(|| p.downcast_ref::<&str>().map(|s| s.to_string()))
                .unwrap_or_default();
            format!("PANIC {msg}")
        }
    };

    // ---- the file table as the implementation sees it (same Walk configuration as scan_files)
    let base_dir = config.base_dir.clone();
    let collected: Mutex<Vec<Path>> = Mutex::new(vec![]);
    {
        let mut walk = Walk::new();
        walk.depth = config.depth.unwrap_or(usize::MAX);
        walk.hidden = config.hidden;
        walk.follow_links = config.follow_links;
        walk.report_links = config.symbolic_links;
        walk.no_ignore = config.no_ignore;
        walk.one_fs = config.one_fs;
        walk.path_selector = config.path_selector(&base_dir).unwrap();
        walk.log = Some(&log);
        walk.run(config.input_paths(), |p| collected.lock().unwrap().push(p));
    }
    let mut paths = collected.into_inner().unwrap();
    paths.sort_by_key(|p| p.to_path_buf());
    let devices = DiskDevices::new(&config.thread_pool_sizes());
    struct Rec {
        path: Path,
        field: String,
        dev: u64,
        ino: u64,
        devidx: usize,
        len: u64,
    }
    let mut recs: Vec<Rec> = vec![];
    for p in paths {
        if let Ok(md) = FileMetadata::new(&p) {
            let id = md.file_id();
            let devidx = devices.get_by_path(&p).index;
            recs.push(Rec {
                field: path_field(&p),
                dev: id.device,
                ino: id.inode,
                devidx,
                len: md.len().0,
                path: p,
            });
        }
    }
    let kinds: String = devices
        .iter()
        .map(|d| kind_char(&sysinfo_kind::of_debug(&format!("{:?}", d.disk_kind))))
        .collect();
    let dev_json: Vec<Value> = devices
        .iter()
        .map(|d| {
            json!([d.index, kind_char(&sysinfo_kind::of_debug(&format!("{:?}", d.disk_kind))).to_string(),
                   d.min_prefix_len().0, d.max_prefix_len().0, d.suffix_len().0, d.suffix_threshold().0])
        })
        .collect();

    // ---- the filter the implementation derives from the options
    let filter = config.group_filter();
    let repl = match filter.replication {
        Replication::Overreplicated(n) => format!("O{n}"),
        Replication::Underreplicated(n) => format!("U{n}"),
    };
    let roots: Vec<String> = filter.root_paths.iter().map(path_field).collect();

    // ---- hash table: every chunk the model may ask for, hashed by the implementation's FileHasher
    let mut bad: Vec<String> = vec![];
    let mut checked = 0u64;
    let mut entries: Vec<String> = vec![];
    let transform = match config.transform() {
        None => None,
        Some(Ok(t)) => Some(t),
        Some(Err(e)) => {
            bad.push(format!("transform not constructible: {e}"));
            None
        }
    };
    let has_transform = config.transform.is_some();
    let used_devs: BTreeSet<usize> = recs.iter().map(|r| r.devidx).collect();
    let mut p_cands: BTreeSet<u64> = BTreeSet::new();
    let mut s_cands: BTreeSet<u64> = BTreeSet::new();
    match config.max_prefix_size {
        Some(p) => {
            p_cands.insert(p.0);
        }
        None => {
            for d in devices.iter().filter(|d| used_devs.contains(&d.index) || d.index == 0) {
                p_cands.insert(d.max_prefix_len().0);
            }
        }
    }
    match config.max_suffix_size {
        Some(s) => {
            s_cands.insert(s.0);
        }
        None => {
            for d in devices.iter().filter(|d| used_devs.contains(&d.index) || d.index == 0) {
                s_cands.insert(d.suffix_len().0);
            }
        }
    }
    let probes: Vec<(u64, u64)> = case["probes"]
        .as_array()
        .map(|a| a.iter().map(|x| (x[0].as_u64().unwrap(), x[1].as_u64().unwrap())).collect())
        .unwrap_or_default();
    {
        let hasher = FileHasher::new(config.hash_fn, transform, &log);
        let mut seen: BTreeMap<String, usize> = BTreeMap::new();
        for (i, r) in recs.iter().enumerate() {
            if seen.contains_key(&r.field) {
                continue;
            }
            seen.insert(r.field.clone(), i);
            let data = std::fs::read(r.path.to_path_buf()).unwrap_or_default();
            if data.len() as u64 != r.len {
                bad.push(format!("harness: stat length {} != read length {} for {}", r.len, data.len(), r.field));
            }
            if has_transform {
                let chunk = FileChunk::new(&r.path, FilePos(0), FileLen(r.len));
                match hasher.hash_transformed(&chunk, |_| {}) {
                    Ok((l, h)) => {
                        entries.push(format!("{}:T:{}:{}", i, l.0, h));
                        checked += 1;
                        match reference_transform(config.transform.as_ref().unwrap(), &r.path.to_path_buf()) {
                            Some(out) => {
                                let rh = reference_hash(&algo, &out);
                                if out.len() as u64 != l.0 || rh != h.to_string() {
                                    bad.push(format!(
                                        "hash_transformed({}) = ({}, {}) but the transform output has {} bytes, hash {}",
                                        r.field, l.0, h, out.len(), rh));
                                }
                            }
                            None => bad.push(format!("hash_transformed({}) succeeded but the reference run of the command failed", r.field)),
                        }
                    }
                    Err(_) => {
                        entries.push(format!("{}:T:!:!", i));
                        if reference_transform(config.transform.as_ref().unwrap(), &r.path.to_path_buf()).is_some() {
                            bad.push(format!("hash_transformed({}) failed but the reference run of the command succeeded", r.field));
                        }
                    }
                }
                continue;
            }
            let mut want: BTreeSet<(u64, u64)> = BTreeSet::new();
            for p in &p_cands {
                want.insert((0, *p));
            }
            want.insert((0, devices[r.devidx].min_prefix_len().0));
            for s in &s_cands {
                let s = std::cmp::min(*s, r.len);
                want.insert((r.len - s, s));
            }
            want.insert((0, r.len));
            let table: BTreeSet<(u64, u64)> = want.clone();
            for (pos, len) in &probes {
                let pos = std::cmp::min(*pos, r.len);
                want.insert((pos, *len));
            }
            for (pos, len) in want {
                let chunk = FileChunk::new(&r.path, FilePos(pos), FileLen(len));
                match hasher.hash_file(&chunk, |_| {}) {
                    Ok(h) => {
                        let hs = h.to_string();
                        if table.contains(&(pos, len)) {
                            entries.push(format!("{i}:{pos}:{len}:{hs}"));
                        }
                        let end = std::cmp::min(pos.saturating_add(len), data.len() as u64) as usize;
                        let start = std::cmp::min(pos as usize, data.len());
                        let rh = reference_hash(&algo, &data[start..end]);
                        checked += 1;
                        if rh != hs {
                            bad.push(format!(
                                "hash_file({}, pos={pos}, len={len}) = {hs} but the one-shot {algo} hash of data[{start}..{end}] is {rh}",
                                r.field));
                        }
                        if hs.len() < 32 {
                            bad.push(format!("hash shorter than 128 bits: {hs}"));
                        }
                    }
                    Err(e) => {
                        if table.contains(&(pos, len)) {
                            entries.push(format!("{i}:{pos}:{len}:!"));
                        }
                        bad.push(format!("hash_file({}, pos={pos}, len={len}) failed: {e}", r.field));
                    }
                }
            }
        }
    }

    let files_field = if recs.is_empty() {
        "-".to_string()
    } else {
        recs.iter()
            .map(|r| format!("{}:{}:{}:{}:{}", r.field, r.dev, r.ino, r.devidx, r.len))
            .collect::<Vec<_>>()
            .join(";")
    };
    let optn = |x: Option<FileLen>| x.map(|v| v.0.to_string()).unwrap_or_else(|| "-".to_string());
    let model_in = format!(
        "{} {} {} {} {} {} {} {} {} {} {} {} {}",
        case["nd"].as_u64().unwrap_or(0),
        if has_transform { 1 } else { 0 },
        if config.skip_content_hash { 1 } else { 0 },
        repl,
        if filter.group_by_id { 1 } else { 0 },
        optn(config.max_prefix_size),
        optn(config.max_suffix_size),
        config.min_size.0,
        optn(config.max_size),
        if kinds.is_empty() { "u".to_string() } else { kinds.clone() },
        if roots.is_empty() { "-".to_string() } else { roots.join(";") },
        files_field,
        if entries.is_empty() { "-".to_string() } else { entries.join(";") },
    );
    let warnings = log.msgs.lock().unwrap().clone();
    json!({
        "impl": impl_line,
        "model_in": model_in,
        "scanned": recs.iter().map(|r| json!([r.field, r.dev, r.ino, r.devidx, r.len])).collect::<Vec<_>>(),
        "filter": {"repl": repl, "by_id": filter.group_by_id, "roots": roots},
        "devices": dev_json,
        "hashref_bad": bad,
        "hash_checked": checked,
        "warnings": warnings,
    })
}

/// Pure replica-counting cases (no disk access): `Q <repl> <by_id> <roots> <files>` in the format of
/// coq/driver/drv_G.ml; answers `subgroup_count matches_strictly redundant_count missing_count unique_count`
/// computed by the implementation's own FileSubGroup::group / FileGroup methods on a generic file type.
#[derive(Clone)]
struct QFile {
    path: Path,
    id: fclones::FileId,
}
impl AsRef<Path> for QFile {
    fn as_ref(&self) -> &Path {
        &self.path
    }
}
impl AsRef<fclones::FileId> for QFile {
    fn as_ref(&self) -> &fclones::FileId {
        &self.id
    }
}

fn unhex(s: &str) -> Vec<u8> {
    (0..s.len() / 2).map(|i| u8::from_str_radix(&s[2 * i..2 * i + 2], 16).unwrap()).collect()
}

fn path_of_field(s: &str) -> Path {
    use std::os::unix::ffi::OsStringExt;
    let mut pb = std::path::PathBuf::new();
    for c in s.split(',') {
        pb.push(OsString::from_vec(unhex(c)));
    }
    Path::from(pb)
}

fn run_q(line: &str) -> String {
    let f: Vec<&str> = line.split_whitespace().collect();
    if f.len() != 5 {
        return "EXN malformed line".to_string();
    }
    let n: usize = f[1][1..].parse().unwrap();
    let replication = if f[1].starts_with('O') {
        Replication::Overreplicated(n)
    } else {
        Replication::Underreplicated(n)
    };
    let roots: Vec<Path> = if f[3] == "-" { vec![] } else { f[3].split(';').map(path_of_field).collect() };
    let files: Vec<QFile> = if f[4] == "-" {
        vec![]
    } else {
        f[4].split(';')
            .map(|e| {
                let x: Vec<&str> = e.split(':').collect();
                QFile {
                    path: path_of_field(x[0]),
                    id: fclones::FileId { device: x[1].parse().unwrap(), inode: x[2].parse().unwrap() },
                }
            })
            .collect()
    };
    let filter = fclones::verif_api::group::FileGroupFilter { replication, root_paths: roots, group_by_id: f[2] == "1" };
    let mut g = fclones::FileGroup { file_len: FileLen(0), file_hash: fclones::FileHash::from(0u128), files };
    let count = fclones::FileSubGroup::group(g.files.iter().cloned(), &filter.root_paths, filter.group_by_id).len();
    let strict = g.matches_strictly(&filter);
    let red = g.redundant_count(&filter);
    let mis = g.missing_count(&filter);
    g.sort_by_id();
    let uc = g.unique_count();
    format!("{} {} {} {} {}", count, if strict { 1 } else { 0 }, red, mis, uc)
}

fn main() {
    // keep panics of worker threads from spamming stderr; they are reported through "impl": "PANIC"
    std::panic::set_hook(Box::new(|_| {}));
    let args: Vec<String> = std::env::args().collect();
    // `grp <cases-file> <results-file>`: Transform::new spawns the transform program with INHERITED stdin/stdout
    // to see whether it is runnable, so the case stream must not be on fd 0/1: both are pointed at /dev/null.
    let (input, mut output): (Box<dyn BufRead>, Box<dyn Write>) = if args.len() >= 3 {
        let inp = std::io::BufReader::new(std::fs::File::open(&args[1]).expect("open cases file"));
        let out = std::fs::File::create(&args[2]).expect("create results file");
        unsafe {
            let devnull = libc::open(b"/dev/null\0".as_ptr() as *const libc::c_char, libc::O_RDWR);
            libc::dup2(devnull, 0);
            libc::dup2(devnull, 1);
        }
        (Box::new(inp), Box::new(out))
    } else {
        (Box::new(std::io::BufReader::new(std::io::stdin())), Box::new(std::io::stdout()))
    };
    for line in input.lines() {
        let line = line.unwrap();
        if line.trim().is_empty() {
            continue;
        }
        if line.starts_with("Q ") {
            let r = std::panic::catch_unwind(|| run_q(&line)).unwrap_or_else(|_| "PANIC".to_string());
            writeln!(output, "{}", r).unwrap();
            continue;
        }
        let out = match serde_json::from_str::<Value>(&line) {
            Ok(case) => run_case(&case),
            Err(e) => json!({"impl": format!("ERR bad case: {e}")}),
        };
        writeln!(output, "{}", out).unwrap();
        output.flush().unwrap();
    }
}
