//! Engine R correspondence harness (property C07): the transform I/O plan of the implementation.
//!
//! usage: ro <case file>      one case per line of the file, one JSON result per stdout line.
//! (The cases are NOT read from stdin: Transform::new probes the program with an inherited stdin, so a
//! probed `cat`/`dd` would eat the remaining cases.  Run with stdin = /dev/null.)
//!
//!   plan <in_place 0|1> <no_copy 0|1> <hex(path of an existing file)> <hex(command string)>
//!       builds the transform exactly as `fclones group` does (GroupConfig::transform(), i.e.
//!       config.rs build_transform -> Transform::new + the --no-copy override) and asks
//!       `transform::verif::plan` (make_args) for the plan of the file, running nothing.
//!       Paths are canonicalised: the input file -> ORIG, a path under tmp_dir -> TO if it equals
//!       Transform::output(file), else TI<k> with k = order of first appearance in the arguments.
//!       Also reported: whether the file is still intact after the handles returned by make_args were
//!       dropped, and whether the temp dir lies under $TMPDIR, existed while the Transform lived and is
//!       gone after it was dropped.
//!   exec <in_place> <no_copy> <hex(path)> <hex(command)>
//!       additionally executes Transform::run on the file once, drops the Execution and lists what is
//!       left in the temp dir (C07_tmp_cleaned_per_file), then drops the Transform.
use std::collections::HashMap;
use std::io::{BufRead, Write};
use std::os::unix::ffi::{OsStrExt, OsStringExt};
use std::os::unix::fs::MetadataExt;
use std::path::PathBuf;

use fclones::config::GroupConfig;
use fclones::verif_api::path::Path;
use fclones::verif_api::transform::verif::plan;
use serde_json::json;

fn unhex(s: &str) -> Vec<u8> {
    if s == "-" {
        vec![]
    } else {
        hex::decode(s).expect("hex")
    }
}

fn classify_err(msg: &str) -> &'static str {
    if msg.contains("$OUT conflicts with --in-place") {
        "out_conflicts_in_place"
    } else if msg.contains("$IN required with --in-place") {
        "in_required"
    } else if msg.contains("Command cannot be empty") {
        "empty_command"
    } else if msg.contains("Cannot launch") {
        "not_runnable"
    } else if msg.contains("Failed to create temporary directory") {
        "tmp_dir_failed"
    } else {
        "other"
    }
}

fn snapshot(p: &std::path::Path) -> Option<(u64, u64, i64, i64, Vec<u8>)> {
    let m = std::fs::symlink_metadata(p).ok()?;
    let data = std::fs::read(p).ok()?;
    Some((m.ino(), m.nlink(), m.mtime(), m.mtime_nsec(), data))
}

struct Canon {
    file: Vec<u8>,
    tmp_dir: Vec<u8>,
    out: Vec<u8>,
    names: HashMap<Vec<u8>, usize>,
}

impl Canon {
    fn path(&mut self, p: &[u8]) -> String {
        if p == self.file.as_slice() {
            "ORIG".to_string()
        } else if p == self.tmp_dir.as_slice() {
            "TDIR".to_string()
        } else if p == self.out.as_slice() {
            "TO".to_string()
        } else if p.starts_with(&self.tmp_dir) && p.get(self.tmp_dir.len()) == Some(&b'/') {
            let n = self.names.len();
            let k = *self.names.entry(p.to_vec()).or_insert(n);
            format!("TI{k}")
        } else {
            format!("OTHER:{}", String::from_utf8_lossy(p))
        }
    }

    /// replaces every occurrence of a temp path / of the input path inside an argument
    fn arg(&mut self, a: &[u8]) -> String {
        let mut out = String::new();
        let mut i = 0;
        let prefix = {
            let mut v = self.tmp_dir.clone();
            v.push(b'/');
            v
        };
        while i < a.len() {
            if a[i..].starts_with(&prefix) {
                let mut j = i + prefix.len();
                while j < a.len() && (a[j].is_ascii_alphanumeric() || a[j] == b'-' || a[j] == b'_' || a[j] == b'.') {
                    j += 1;
                }
                let name = a[i..j].to_vec();
                out.push('<');
                out.push_str(&self.path(&name));
                out.push('>');
                i = j;
            } else if !self.file.is_empty() && a[i..].starts_with(&self.file) {
                out.push_str("<ORIG>");
                i += self.file.len();
            } else {
                out.push(a[i] as char);
                i += 1;
            }
        }
        out
    }
}

fn main() {
    let case_file = std::env::args().nth(1).expect("usage: ro <case file>");
    let cases = std::io::BufReader::new(std::fs::File::open(case_file).expect("case file"));
    let stdout = std::io::stdout();
    let mut out = stdout.lock();
    for line in cases.lines() {
        let line = line.unwrap();
        let f: Vec<&str> = line.split(' ').collect();
        if f.len() != 5 {
            writeln!(out, "{}", json!({"exn": "malformed line"})).unwrap();
            continue;
        }
        let mode = f[0];
        let in_place = f[1] == "1";
        let no_copy = f[2] == "1";
        let file = PathBuf::from(std::ffi::OsString::from_vec(unhex(f[3])));
        let command = String::from_utf8(unhex(f[4])).expect("utf8 command");

        let mut cfg = GroupConfig::default();
        cfg.transform = Some(command.clone());
        cfg.in_place = in_place;
        cfg.no_copy = no_copy;
        let before = snapshot(&file);
        let res = match cfg.transform() {
            None => json!({"exn": "no transform"}),
            Some(Err(e)) => json!({"ok": false, "err": classify_err(&e.to_string()), "msg": e.to_string()}),
            Some(Ok(t)) => {
                let tmp_dir = t.tmp_dir.clone();
                let sys_tmp = std::env::temp_dir();
                let under_tmp = tmp_dir.starts_with(&sys_tmp) && tmp_dir != sys_tmp;
                let existed = tmp_dir.is_dir();
                let fpath = Path::from(&file);
                let outp = t.output(&fpath);
                let (args, in_kind, in_path, out_kind, out_path) = plan(&t, &fpath);
                // the handles make_args returned have been dropped inside plan()
                let intact_after_plan = snapshot(&file) == before;
                let mut c = Canon {
                    file: file.as_os_str().as_bytes().to_vec(),
                    tmp_dir: tmp_dir.as_os_str().as_bytes().to_vec(),
                    out: outp.as_os_str().as_bytes().to_vec(),
                    names: HashMap::new(),
                };
                let cargs: Vec<String> = args.iter().map(|a| c.arg(a.as_bytes())).collect();
                let cin = format!("{}:{}", in_kind, c.path(in_path.as_os_str().as_bytes()));
                let cout = match &out_path {
                    None => format!("{}:-", out_kind),
                    Some(p) => format!("{}:{}", out_kind, c.path(p.as_os_str().as_bytes())),
                };
                let mut left_after_run: Option<usize> = None;
                let mut run_result = "-";
                if mode == "exec" {
                    match t.run(&fpath) {
                        Ok(exec) => {
                            drop(exec);
                            run_result = "ok";
                        }
                        Err(_) => run_result = "err",
                    }
                    left_after_run = Some(std::fs::read_dir(&tmp_dir).map(|d| d.count()).unwrap_or(usize::MAX));
                }
                let intact_after_run = snapshot(&file) == before;
                let copy = t.copy;
                let ip = t.in_place;
                drop(t);
                let cleaned = !tmp_dir.exists();
                json!({"ok": true, "copy": copy, "in_place": ip, "in": cin, "out": cout, "args": cargs,
                       "intact_after_plan": intact_after_plan, "intact_after_run": intact_after_run,
                       "tmp_under_tmpdir": under_tmp, "tmp_existed": existed, "cleaned": cleaned,
                       "run": run_result, "left_after_run": left_after_run})
            }
        };
        writeln!(out, "{}", res).unwrap();
        out.flush().unwrap();
    }
}
