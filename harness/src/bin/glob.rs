//! Engine P correspondence harness (property C16, selection half of C09).
//!
//! Reads one case per stdin line, prints one result line per case in the same canonical format as
//! the extracted model driver coq/driver/drv_P.ml.  Every string is a dot-separated list of
//! decimal Unicode scalar values ("-" = empty string).
//!
//! input:   D <ci> <glob> <path>*            direct mode: Pattern::glob_with + matches*
//!          S <ci> <base> <glob> <path>*     selector mode: PathSelector::new(base) with the glob as the
//!                                           only include path / exclude path / include name
//!          M <ci> <base> <incs> <excs> <names> <path>*   PathSelector with several include paths, exclude paths
//!                                           and names (comma-separated lists of strings, "_" = empty list)
//!          K <ci> <glob> <path>*            the dedupe-side options: the glob as the only --keep-name / --keep-path / --name / --path
//!                                           pattern of a DedupeConfig; res = <should_keep(kn)><should_keep(kp)><may_drop(n)><may_drop(p)>
//!          F <regex text>                   regex::verif::get_fixed_prefix
//!          L <c>                            String::to_lowercase of the single character c
//! output:  D: `ok <regex text> <res>*` | `err` | `panic`
//!             res = <matches><matches_prefix> ":" <matches_partially(q)>* ":" <matches_prefix(q)>*
//!                   ":" <matches_partially(path)>
//!             where q ranges over the prefixes of the path that end in '/' (ancestor dirs + '/')
//!          S: `ok - <res>*` | `err` | `panic`
//!             res = <inc.full><exc.full><name.full> ":" <inc.matches_dir(d)>* ":" <exc.matches_dir(d)>*
//!                   ":" <inc.matches_dir(path)><exc.matches_dir(path)>
//!             where d ranges over the ancestor directories of the path
//!          M: `ok - <res>*` | `err`;  sel = names+includes+excludes, sel0 = names+includes
//!             res = <sel.full><sel0.full> ":" <sel.matches_dir(d)>* ":" <sel0.matches_dir(d)>* ":" <sel.matches_dir(path)><sel0.matches_dir(path)>
//!          F: `fp <prefix> <max_suffix_len or ->`
//!          L: `low <string>`
//! A panic anywhere while evaluating a case gives the single word `panic`.

use std::io::{BufRead, Write};
use std::panic::{catch_unwind, AssertUnwindSafe};

use fclones::verif_api::path::Path;
use fclones::verif_api::pattern::{Pattern, PatternOpts};
use fclones::verif_api::regex::verif::get_fixed_prefix;
use fclones::verif_api::selector::PathSelector;

fn dec(f: &str) -> String {
    harness::parse_ints_field(f)
        .into_iter()
        .map(|x| char::from_u32(x as u32).expect("scalar value"))
        .collect()
}

fn enc(s: &str) -> String {
    harness::ints_field(s.chars().map(|c| c as u64))
}

fn bit(b: bool) -> char {
    if b {
        '1'
    } else {
        '0'
    }
}

fn opts(ci: bool) -> PatternOpts {
    if ci {
        PatternOpts::case_insensitive()
    } else {
        PatternOpts::default()
    }
}

/// prefixes of `p` that end with '/'
fn slash_prefixes(p: &str) -> Vec<&str> {
    p.char_indices()
        .filter(|(_, c)| *c == '/')
        .map(|(i, _)| &p[..=i])
        .collect()
}

/// ancestor directories of `p` ("/" for the root)
fn ancestors(p: &str) -> Vec<&str> {
    p.char_indices()
        .filter(|(_, c)| *c == '/')
        .map(|(i, _)| if i == 0 { "/" } else { &p[..i] })
        .collect()
}

fn direct(ci: bool, glob: &str, paths: &[String]) -> String {
    let pat = match Pattern::glob_with(glob, &opts(ci)) {
        Ok(p) => p,
        Err(_) => return "err".to_string(),
    };
    let mut out = format!("ok {}", enc(&pat.to_string()));
    for p in paths {
        out.push(' ');
        out.push(bit(pat.matches(p)));
        out.push(bit(pat.matches_prefix(p)));
        out.push(':');
        for q in slash_prefixes(p) {
            out.push(bit(pat.matches_partially(q)));
        }
        out.push(':');
        for q in slash_prefixes(p) {
            out.push(bit(pat.matches_prefix(q)));
        }
        out.push(':');
        out.push(bit(pat.matches_partially(p)));
    }
    out
}

fn selector(ci: bool, base: &str, glob: &str, paths: &[String]) -> String {
    let mk = || Pattern::glob_with(glob, &opts(ci));
    if mk().is_err() {
        return "err".to_string();
    }
    let inc = PathSelector::new(Path::from(base)).include_paths(vec![mk().unwrap()]);
    let exc = PathSelector::new(Path::from(base)).exclude_paths(vec![mk().unwrap()]);
    let nam = PathSelector::new(Path::from(base)).include_names(vec![mk().unwrap()]);
    let mut out = "ok -".to_string();
    for p in paths {
        let path = Path::from(p.as_str());
        out.push(' ');
        out.push(bit(inc.matches_full_path(&path)));
        out.push(bit(exc.matches_full_path(&path)));
        out.push(bit(nam.matches_full_path(&path)));
        out.push(':');
        for d in ancestors(p) {
            out.push(bit(inc.matches_dir(&Path::from(d))));
        }
        out.push(':');
        for d in ancestors(p) {
            out.push(bit(exc.matches_dir(&Path::from(d))));
        }
        out.push(':');
        out.push(bit(inc.matches_dir(&path)));
        out.push(bit(exc.matches_dir(&path)));
    }
    out
}

fn dec_list(f: &str) -> Vec<String> {
    if f == "_" {
        vec![]
    } else {
        f.split(',').map(dec).collect()
    }
}

/// selectors with several include paths / excludes / names; `sel0` is the same selector without excludes
fn multi(ci: bool, base: &str, incs: &[String], excs: &[String], names: &[String], paths: &[String]) -> String {
    let mk = |l: &[String]| -> Result<Vec<Pattern>, ()> {
        l.iter().map(|g| Pattern::glob_with(g, &opts(ci)).map_err(|_| ())).collect()
    };
    if mk(incs).is_err() || mk(excs).is_err() || mk(names).is_err() {
        return "err".to_string();
    }
    let sel0 = PathSelector::new(Path::from(base))
        .include_names(mk(names).unwrap())
        .include_paths(mk(incs).unwrap());
    let sel = sel0.clone().exclude_paths(mk(excs).unwrap());
    let mut out = "ok -".to_string();
    for p in paths {
        let path = Path::from(p.as_str());
        out.push(' ');
        out.push(bit(sel.matches_full_path(&path)));
        out.push(bit(sel0.matches_full_path(&path)));
        out.push(':');
        for d in ancestors(p) {
            out.push(bit(sel.matches_dir(&Path::from(d))));
        }
        out.push(':');
        for d in ancestors(p) {
            out.push(bit(sel0.matches_dir(&Path::from(d))));
        }
        out.push(':');
        out.push(bit(sel.matches_dir(&path)));
        out.push(bit(sel0.matches_dir(&path)));
    }
    out
}

fn keepdrop(ci: bool, glob: &str, paths: &[String]) -> String {
    use fclones::verif_api::dedupe::verif::{may_drop, should_keep};
    use fclones::config::DedupeConfig;
    let mk = || Pattern::glob_with(glob, &opts(ci));
    if mk().is_err() {
        return "err".to_string();
    }
    let kn = DedupeConfig { keep_name_patterns: vec![mk().unwrap()], ..DedupeConfig::default() };
    let kp = DedupeConfig { keep_path_patterns: vec![mk().unwrap()], ..DedupeConfig::default() };
    let dn = DedupeConfig { name_patterns: vec![mk().unwrap()], ..DedupeConfig::default() };
    let dp = DedupeConfig { path_patterns: vec![mk().unwrap()], ..DedupeConfig::default() };
    let mut out = "ok -".to_string();
    for p in paths {
        let path = Path::from(p.as_str());
        out.push(' ');
        out.push(bit(should_keep(&path, &kn)));
        out.push(bit(should_keep(&path, &kp)));
        out.push(bit(may_drop(&path, &dn)));
        out.push(bit(may_drop(&path, &dp)));
    }
    out
}

fn case(line: &str) -> String {
    let f: Vec<&str> = line.split(' ').filter(|x| !x.is_empty()).collect();
    match f.first().copied() {
        Some("D") if f.len() >= 3 => {
            let paths: Vec<String> = f[3..].iter().map(|x| dec(x)).collect();
            direct(f[1] == "1", &dec(f[2]), &paths)
        }
        Some("S") if f.len() >= 4 => {
            let paths: Vec<String> = f[4..].iter().map(|x| dec(x)).collect();
            selector(f[1] == "1", &dec(f[2]), &dec(f[3]), &paths)
        }
        Some("K") if f.len() >= 3 => {
            let paths: Vec<String> = f[3..].iter().map(|x| dec(x)).collect();
            keepdrop(f[1] == "1", &dec(f[2]), &paths)
        }
        Some("M") if f.len() >= 6 => {
            let paths: Vec<String> = f[6..].iter().map(|x| dec(x)).collect();
            multi(f[1] == "1", &dec(f[2]), &dec_list(f[3]), &dec_list(f[4]), &dec_list(f[5]), &paths)
        }
        Some("F") if f.len() == 2 => {
            let (p, m) = get_fixed_prefix(&dec(f[1]));
            format!(
                "fp {} {}",
                enc(&p),
                m.map(|x| x.to_string()).unwrap_or_else(|| "-".to_string())
            )
        }
        Some("L") if f.len() == 2 => {
            let c = char::from_u32(f[1].parse::<u32>().unwrap()).unwrap();
            format!("low {}", enc(&c.to_string().to_lowercase()))
        }
        _ => "EXN malformed line".to_string(),
    }
}

fn main() {
    std::panic::set_hook(Box::new(|_| {}));
    let stdin = std::io::stdin();
    let stdout = std::io::stdout();
    let mut out = std::io::BufWriter::new(stdout.lock());
    for line in stdin.lock().lines() {
        let line = line.expect("stdin");
        let r = catch_unwind(AssertUnwindSafe(|| case(&line))).unwrap_or_else(|_| "panic".to_string());
        writeln!(out, "{r}").unwrap();
    }
    out.flush().unwrap();
}
