//! Engine A correspondence harness (properties C05 / C18 / C20), API level.
//!
//! usage:  fsx mt                 stdin lines `<dir> <path>` (percent-encoded, '/' literal)
//!                                -> one line per case: the components of
//!                                   PartitionedFileGroup::move_target(dir, path), percent-encoded, joined by '|'
//!         fsx lock <0|1>         stdin lines `<path>`  -> `ok 1` (lock taken and released) | `ok 0` (locking off or
//!                                   unsupported) | `err <io::ErrorKind>`     (FsCommand::maybe_lock)
//!         fsx exec <0|1>         stdin lines (tab separated, percent-encoded paths), executed IN ORDER through
//!                                FsCommand::execute(should_lock, log):
//!                                   rm <a> | sl <t> <a> | hl <t> <a> | rl <t> <a> | mv <src> <tgt> <use_rename 0|1>
//!                                -> `ok <len>` | `err <kind>`  followed by `warn=<number of warnings logged so far>`
//!                                (run under LD_PRELOAD=fsshim.so by the python side; this is how Move with
//!                                use_rename = false — another mount point — is reached in a one-file-system sandbox)
//!
//! The output formats are the ones coq/driver/drv_A.ml prints for the same cases.

use std::io::{self, BufRead, Write};
use std::sync::atomic::{AtomicUsize, Ordering};
use std::sync::Arc;

use fclones::log::{Log, LogLevel, ProgressBarLength};
use fclones::progress::{NoProgressBar, ProgressTracker};
use fclones::verif_api::dedupe::{verif, FsCommand, PathAndMetadata};
use fclones::Path;

fn unpct(s: &str) -> Vec<u8> {
    let b = s.as_bytes();
    let mut out = Vec::with_capacity(b.len());
    let mut i = 0;
    while i < b.len() {
        if b[i] == b'%' && i + 2 < b.len() {
            let h = std::str::from_utf8(&b[i + 1..i + 3]).unwrap();
            out.push(u8::from_str_radix(h, 16).unwrap());
            i += 3;
        } else {
            out.push(b[i]);
            i += 1;
        }
    }
    out
}

fn pct(b: &[u8]) -> String {
    let mut s = String::new();
    for &c in b {
        if c.is_ascii_alphanumeric() || c == b'_' || c == b'.' || c == b'-' {
            s.push(c as char);
        } else {
            s.push_str(&format!("%{:02X}", c));
        }
    }
    s
}

fn path_of(s: &str) -> Path {
    use std::os::unix::ffi::OsStringExt;
    Path::from(std::ffi::OsString::from_vec(unpct(s)))
}

fn components(p: &Path) -> Vec<Vec<u8>> {
    // Path does not expose its component list; rebuild it by walking the parents
    use std::os::unix::ffi::OsStrExt;
    let mut out = Vec::new();
    let mut cur: Option<&Path> = Some(p);
    // file_name() hides "/", "." and ".."; use the difference of the lossless byte forms instead
    while let Some(q) = cur {
        let whole = q.to_path_buf().into_os_string();
        let wb = whole.as_os_str().as_bytes().to_vec();
        match q.parent() {
            Some(par) => {
                let pb = par.to_path_buf().into_os_string().as_os_str().as_bytes().to_vec();
                // PathBuf::push inserts exactly one '/' unless the parent ends with one
                let mut rest = wb[pb.len()..].to_vec();
                if !pb.ends_with(b"/") && rest.first() == Some(&b'/') {
                    rest.remove(0);
                }
                out.push(rest);
                cur = Some(par.as_ref());
            }
            None => {
                out.push(wb);
                cur = None;
            }
        }
    }
    out.reverse();
    out
}

struct CountLog {
    warns: AtomicUsize,
}

impl Log for CountLog {
    fn progress_bar(&self, _msg: &str, _len: ProgressBarLength) -> Arc<dyn ProgressTracker> {
        Arc::new(NoProgressBar)
    }
    fn log(&self, level: LogLevel, msg: String) {
        if matches!(level, LogLevel::Warn | LogLevel::Error) {
            self.warns.fetch_add(1, Ordering::SeqCst);
        }
        eprintln!("log {:?}: {}", level as u8, msg);
    }
}

fn main() {
    let args: Vec<String> = std::env::args().collect();
    let mode = args.get(1).map(|s| s.as_str()).unwrap_or("");
    let stdin = io::stdin();
    let out = io::stdout();
    let mut out = out.lock();
    match mode {
        "mt" => {
            for line in stdin.lock().lines() {
                let line = line.unwrap();
                let f: Vec<&str> = line.split(' ').collect();
                let dir = Arc::new(path_of(f[0]));
                let p = path_of(f[1]);
                let t = verif::move_target(&dir, &p);
                let comps: Vec<String> = components(&t).iter().map(|c| pct(c)).collect();
                writeln!(out, "{}", comps.join("|")).unwrap();
            }
        }
        "tf" => {
            // FsCommand::temp_file: <pct path> -> "<same parent 0|1> <suffix is '.' + 24 alphanumerics 0|1> <pct stem>"
            use std::os::unix::ffi::OsStrExt;
            for line in stdin.lock().lines() {
                let line = line.unwrap();
                let p = path_of(line.trim());
                let t = FsCommand::temp_file(&p);
                let name = t.file_name().map(|n| n.as_bytes().to_vec()).unwrap_or_default();
                let same_parent = p.parent() == t.parent();
                let (stem, sfx_ok) = if name.len() >= 25 {
                    let (a, b) = name.split_at(name.len() - 25);
                    (a.to_vec(), b[0] == b'.' && b[1..].iter().all(|c| c.is_ascii_alphanumeric()))
                } else {
                    (name.clone(), false)
                };
                writeln!(out, "{} {} {}", same_parent as u8, sfx_ok as u8, pct(&stem)).unwrap();
            }
        }
        "lock" => {
            let on = args.get(2).map(|s| s == "1").unwrap_or(true);
            for line in stdin.lock().lines() {
                let line = line.unwrap();
                match verif::maybe_lock(&path_of(line.trim()), on) {
                    Ok(b) => writeln!(out, "ok {}", if b { 1 } else { 0 }).unwrap(),
                    Err(e) => writeln!(out, "err {:?}", e.kind()).unwrap(),
                }
                out.flush().unwrap();
            }
        }
        "exec" => {
            let sl = args.get(2).map(|s| s == "1").unwrap_or(true);
            let log = CountLog { warns: AtomicUsize::new(0) };
            // metadata of every operand is read before anything is executed (as dedupe() does per group)
            let lines: Vec<String> = stdin.lock().lines().map(|l| l.unwrap()).collect();
            let mut cmds = Vec::new();
            for line in &lines {
                let f: Vec<&str> = line.split('\t').collect();
                let pm = |s: &str| PathAndMetadata::new(path_of(s));
                let c = match f[0] {
                    "rm" => pm(f[1]).map(|file| FsCommand::Remove { file }),
                    "sl" => pm(f[1]).and_then(|t| pm(f[2]).map(|link| FsCommand::SoftLink { target: Arc::new(t), link })),
                    "hl" => pm(f[1]).and_then(|t| pm(f[2]).map(|link| FsCommand::HardLink { target: Arc::new(t), link })),
                    "rl" => pm(f[1]).and_then(|t| pm(f[2]).map(|link| FsCommand::RefLink { target: Arc::new(t), link })),
                    "mv" => pm(f[1]).map(|source| FsCommand::Move { source, target: path_of(f[2]), use_rename: f[3] == "1" }),
                    _ => panic!("bad command {line}"),
                };
                cmds.push(c);
            }
            for c in cmds {
                match c {
                    Err(e) => writeln!(out, "nometa {:?}", e.kind()).unwrap(),
                    Ok(c) => match c.execute(sl, &log) {
                        Ok(len) => writeln!(out, "ok {} warn={}", len.0, log.warns.load(Ordering::SeqCst)).unwrap(),
                        Err(e) => {
                            // run_script logs the error as a warning
                            log.warns.fetch_add(1, Ordering::SeqCst);
                            writeln!(out, "err {:?} warn={}", e.kind(), log.warns.load(Ordering::SeqCst)).unwrap()
                        }
                    },
                }
                out.flush().unwrap();
            }
        }
        _ => {
            eprintln!("usage: fsx mt | lock <0|1> | exec <0|1>");
            std::process::exit(2);
        }
    }
}
