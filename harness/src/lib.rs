//! Shared helpers of the correspondence harness: the single PRNG (same algorithm as
//! vlib/core.py SplitMix64) and small encoding helpers for the line protocols.

pub struct SplitMix64(pub u64);

impl SplitMix64 {
    pub fn new(seed: u64) -> Self {
        SplitMix64(seed)
    }
    pub fn next(&mut self) -> u64 {
        self.0 = self.0.wrapping_add(0x9E3779B97F4A7C15);
        let mut z = self.0;
        z = (z ^ (z >> 30)).wrapping_mul(0xBF58476D1CE4E5B9);
        z = (z ^ (z >> 27)).wrapping_mul(0x94D049BB133111EB);
        z ^ (z >> 31)
    }
    pub fn below(&mut self, n: u64) -> u64 {
        if n == 0 {
            0
        } else {
            self.next() % n
        }
    }
    pub fn chance(&mut self, num: u64, den: u64) -> bool {
        self.below(den) < num
    }
    pub fn fork(&mut self) -> SplitMix64 {
        SplitMix64(self.next())
    }
}

/// dot-separated decimal list; "-" for the empty list
pub fn ints_field<I: IntoIterator<Item = u64>>(xs: I) -> String {
    let v: Vec<String> = xs.into_iter().map(|x| x.to_string()).collect();
    if v.is_empty() {
        "-".to_string()
    } else {
        v.join(".")
    }
}

pub fn parse_ints_field(s: &str) -> Vec<u64> {
    if s == "-" || s.is_empty() {
        vec![]
    } else {
        s.split('.').map(|x| x.parse().unwrap()).collect()
    }
}

pub fn bytes_field(b: &[u8]) -> String {
    ints_field(b.iter().map(|x| *x as u64))
}

pub fn parse_bytes_field(s: &str) -> Vec<u8> {
    parse_ints_field(s).into_iter().map(|x| x as u8).collect()
}
