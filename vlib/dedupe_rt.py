"""Whole-program helpers for the dedupe checks (C02, C11): scenario generation, report production,
running a dedupe operation, snapshot/restore of a tree, inventory comparison up to inode renaming."""
import hashlib
import os
import shutil
import stat
import subprocess

from . import core, treegen


def snapshot(src, dst):
    """cp -a preserves hard links (within the copied tree), symlinks, modes and mtimes."""
    shutil.rmtree(dst, ignore_errors=True)
    subprocess.run(["cp", "-a", src, dst], check=True)


def restore(backup, dst):
    shutil.rmtree(dst, ignore_errors=True)
    subprocess.run(["cp", "-a", backup, dst], check=True)


def read_through(path):
    """sha256 of the bytes read through the path (following symlinks); None if unreadable."""
    try:
        with open(path, "rb") as f:
            return hashlib.sha256(f.read()).hexdigest()
    except OSError:
        return None


def structure(inv, base):
    """Inventory up to inode renumbering: {relative path: (type, link-class index, target, sha, mtime_ns, mode)} where the
    link-class index identifies the set of paths sharing an inode (by its smallest member)."""
    by_ino = {}
    for p, v in inv.items():
        if v[0] in ("f", "l", "o"):
            by_ino.setdefault(v[1], []).append(p)
    cls = {}
    for ino, ps in by_ino.items():
        m = min(ps)
        for p in ps:
            cls[p] = os.path.relpath(m, base)
    out = {}
    for p, v in inv.items():
        rel = os.path.relpath(p, base)
        if v[0] == "d":
            out[rel] = ("d",)
        else:
            out[rel] = (v[0], cls.get(p), v[3], v[4], v[5] if v[0] == "f" else None, v[6])
    return out


class Scenario:
    def __init__(self, rng, base, hostile=None, symlinks=None):
        self.rng = rng
        self.base = base if isinstance(base, bytes) else base.encode()
        hostile = rng.chance(1, 3) if hostile is None else hostile
        self.use_symlinks = rng.chance(1, 4) if symlinks is None else symlinks
        self.tree = treegen.gen_tree(rng, os.path.join(self.base, b"tree"), nroots=1 + rng.below(3), nfiles=5 + rng.below(16),
                                     sizes=[0, 1, 50, 100, 4096, 5000, 9000], names="hostile" if hostile else "plain",
                                     hardlinks=True, symlinks=self.use_symlinks, max_depth=2, families=1 + rng.below(3))
        self.roots = self.tree.roots
        self.treedir = os.path.join(self.base, b"tree")
        self.group_opts = []
        if self.use_symlinks:
            self.group_opts.append("--symbolic-links")
        k = rng.below(8)
        if k == 0 and len(self.roots) >= 2:
            self.group_opts.append("--isolate")
        elif k == 1 and not self.use_symlinks:
            self.group_opts.append("--match-links")
        elif k == 2:
            self.group_opts += ["--rf-over", "2"]
        self.fmt = rng.choice(["default", "json"])
        self.env = {"FCLONES_VERIF_DISK_KIND": "ssd"}

    def make_report(self):
        rc, out, err = treegen.fclones(["group"] + self.roots + self.group_opts + ["-f", self.fmt], cwd=self.base, env=self.env)
        if rc != 0:
            raise RuntimeError("group failed: " + err.decode("utf-8", "replace")[-400:])
        self.report = out
        # groups as listed (JSON for parsing regardless of the format fed to the dedupe command)
        rc, jout, err = treegen.fclones(["group"] + self.roots + self.group_opts + ["-f", "json"], cwd=self.base, env=self.env)
        _, self.groups = treegen.parse_json_report(jout.decode("utf-8"))
        return self.groups

    def pick_op(self):
        rng = self.rng
        op = rng.choice(["remove", "link", "softlink", "dedupe", "move"])
        args = {"remove": ["remove"], "link": ["link"], "softlink": ["link", "--soft"], "dedupe": ["dedupe"],
                "move": ["move", os.path.join(self.base, b"moved")]}[op]
        opts = []
        k = rng.below(6)
        if k == 0:
            opts += ["-n", str(1 + rng.below(3))]
        elif k == 1:
            opts += ["--priority", rng.choice(["newest", "oldest", "most-nested", "least-nested", "bottom", "top",
                                               "most-recently-modified", "least-recently-modified"])]
        elif k == 2:
            opts += ["--keep-path", (self.roots[0] + b"/**").decode("utf-8", "surrogateescape")] if self.roots[0].isascii() else []
        elif k == 3:
            opts += ["--name", "*1*"]
        return op, args, opts

    def run_op(self, args, opts, dry_run=False, timeout=120):
        a = list(args) + list(opts) + (["--dry-run"] if dry_run else [])
        return treegen.fclones(a, cwd=self.base, env=self.env, stdin=self.report, timeout=timeout)
