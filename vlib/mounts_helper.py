#!/usr/bin/env python3
"""Runs INSIDE a private mount namespace (`unshare -m python3 mounts_helper.py <scratch> <fclones> <seed> <n>`).

Every scenario mounts two or three FRESH tmpfs instances and creates the files on them in lock step, so that files on
different file systems get EQUAL inode numbers (st_ino) with different st_dev, all mapped by fclones to one DiskDevice.
Prints one JSON line per run: the scenario, the files with (dev, ino, sha) and the groups fclones reported."""
import hashlib
import json
import os
import subprocess
import sys

scratch, exe, seed, n = sys.argv[1], sys.argv[2], int(sys.argv[3]), int(sys.argv[4])
mode = sys.argv[5] if len(sys.argv) > 5 else "group"

M = (1 << 64) - 1


class Rng:
    def __init__(self, s):
        self.s = s & M

    def next(self):
        self.s = (self.s + 0x9E3779B97F4A7C15) & M
        z = self.s
        z = ((z ^ (z >> 30)) * 0xBF58476D1CE4E5B9) & M
        z = ((z ^ (z >> 27)) * 0x94D049BB133111EB) & M
        return z ^ (z >> 31)

    def below(self, k):
        return self.next() % k

    def choice(self, l):
        return l[self.below(len(l))]


def content(tag, size):
    out = bytearray()
    i = 0
    while len(out) < size:
        out += hashlib.sha256(b"%d:%d" % (tag, i)).digest()
        i += 1
    return bytes(out[:size])


def sh(*a):
    return subprocess.run(a, stdout=subprocess.PIPE, stderr=subprocess.PIPE)


def inventory(mnts):
    inv = {}
    for m in mnts:
        for d, _, fs in os.walk(m):
            for f in fs:
                p = os.path.join(d, f)
                if os.path.islink(p):
                    inv[p] = ["l", os.readlink(p)]
                else:
                    inv[p] = ["f", hashlib.sha256(open(p, "rb").read()).hexdigest()]
    return inv


def stale_scenario(si, mnts, files, cache_home):
    """C04 across file systems: `group` over the mounts, then ONE member of a group whose members share an inode NUMBER (on
    different file systems) is rewritten in place by an ordinary write (same length, new mtime), then a dedupe command."""
    import time
    env = dict(os.environ, NO_COLOR="1", XDG_CACHE_HOME=cache_home, HOME=cache_home, FCLONES_VERIF_DISK_KIND="ssd")
    p = subprocess.run([exe, "group"] + mnts + ["--rf-over", "1"], env=env, stdout=subprocess.PIPE, stderr=subprocess.PIPE, timeout=120)
    if p.returncode != 0:
        print(json.dumps({"scenario": si, "rc": p.returncode, "stderr": p.stderr.decode("utf-8", "replace")[-600:], "stage": "group"}))
        return
    report = p.stdout
    jp = subprocess.run([exe, "group"] + mnts + ["--rf-over", "1", "-f", "json"], env=env, stdout=subprocess.PIPE, stderr=subprocess.PIPE, timeout=120)
    groups = [g["files"] for g in json.loads(jp.stdout.decode()).get("groups", [])]
    byp = {f["path"]: f for f in files}
    cands = []
    for g in groups:
        for i, a in enumerate(g):
            if any(b != a and byp[b]["ino"] == byp[a]["ino"] and byp[b]["dev"] != byp[a]["dev"] for b in g):
                cands.append((g, i))
    if not cands:
        print(json.dumps({"scenario": si, "skipped": "no group with colliding inode numbers"}))
        return
    g, i = cands[rng.below(len(cands))]
    victim = g[i]
    time.sleep(0.05)
    old = open(victim, "rb").read()
    new = bytes([old[0] ^ 0x55]) + old[1:] if old else b""
    with open(victim, "r+b") as f:
        f.write(new)
    t = time.time_ns() + 2 * 10**9
    os.utime(victim, ns=(t, t))
    op = rng.choice([["remove"], ["link", "--soft"], ["move", os.path.join(mnts[0], "moved")], ["remove", "--priority", "top"],
                     ["remove", "--priority", "newest"]])
    inv0 = inventory(mnts)
    q = subprocess.run([exe] + op, env=env, input=report, stdout=subprocess.PIPE, stderr=subprocess.PIPE, timeout=120)
    inv1 = inventory(mnts)
    print(json.dumps({"scenario": si, "mounts": mnts, "op": op, "victim": victim, "victim_index": i, "group": g,
                      "files": files, "rc": q.returncode, "stderr": q.stderr.decode("utf-8", "replace")[-600:],
                      "before": inv0, "after": inv1}))


rng = Rng(seed)
for si in range(n):
    nm = 2 + rng.below(2)
    mnts = [os.path.join(scratch, "m%d_%d" % (si, k)) for k in range(nm)]
    ok = True
    for m in mnts:
        os.makedirs(m, exist_ok=True)
        ok = ok and sh("mount", "-t", "tmpfs", "-o", "size=64m", "none", m).returncode == 0
    if not ok:
        print(json.dumps({"error": "mount failed"}))
        break
    size = rng.choice([1, 100, 4096, 5000, 70000, 200000])
    nslots = 2 + rng.below(4)
    files = []
    # slot j is created on every mount before slot j+1, so the j-th file has the same inode number everywhere
    for j in range(nslots):
        shared = rng.below(3) == 0           # the same content on every mount (true duplicates across file systems)
        if mode == "stale" and j == 1:
            shared = True
        for k, m in enumerate(mnts):
            p = os.path.join(m, "f%d" % j)
            tag = (si * 1000 + j * 10) if shared else (si * 1000 + j * 10 + k + 1)
            data = content(tag, size)
            if not shared and rng.below(2) == 0 and size > 1:
                # differs from the slot's base content in one byte only
                base = bytearray(content(si * 1000 + j * 10, size))
                off = rng.below(size)
                base[off] ^= 1 + k
                data = bytes(base)
            with open(p, "wb") as f:
                f.write(data)
    # a hard link on every mount (again in lock step)
    for k, m in enumerate(mnts):
        os.link(os.path.join(m, "f0"), os.path.join(m, "h0"))
    for m in mnts:
        for nm_ in sorted(os.listdir(m)):
            p = os.path.join(m, nm_)
            st = os.stat(p)
            files.append({"path": p, "dev": st.st_dev, "ino": st.st_ino, "len": st.st_size,
                          "sha": hashlib.sha256(open(p, "rb").read()).hexdigest()})
    cache_home = os.path.join(scratch, "cache%d" % si)
    if mode == "stale":
        stale_scenario(si, mnts, files, cache_home)
        for m in mnts:
            sh("umount", m)
        continue
    for run in range(2):
        opts = ["--rf-over", str(rng.below(2))]
        if rng.below(3) == 0:
            opts += ["--hash-fn", rng.choice(["metro", "xxhash", "blake3", "sha256"])]
        if rng.below(3) == 0:
            opts += ["--threads", "1"]
        if rng.below(3) == 0:
            opts += ["--cache"]
        if rng.below(4) == 0:
            opts += ["--match-links"]
        env = dict(os.environ, NO_COLOR="1", XDG_CACHE_HOME=cache_home, HOME=cache_home, FCLONES_VERIF_DISK_KIND=rng.choice(["ssd", "hdd", "unknown"]))
        order = list(mnts)
        if rng.below(2):
            order.reverse()
        try:
            p = subprocess.run([exe, "group"] + order + opts + ["-f", "json"], env=env, stdout=subprocess.PIPE, stderr=subprocess.PIPE, timeout=120)
            rc, out, err = p.returncode, p.stdout.decode("utf-8", "replace"), p.stderr.decode("utf-8", "replace")
        except subprocess.TimeoutExpired:
            rc, out, err = -9, "", "timeout"
        groups = None
        if rc == 0:
            try:
                groups = [{"len": g["file_len"], "files": g["files"]} for g in json.loads(out).get("groups", [])]
            except Exception as ex:   # noqa
                err += "\nunparsable report: %r" % ex
        print(json.dumps({"scenario": si, "mounts": order, "opts": opts, "disk_kind": env["FCLONES_VERIF_DISK_KIND"], "files": files,
                          "rc": rc, "groups": groups, "stderr": err[-600:]}))
    for m in mnts:
        sh("umount", m)
