"""C07 — `group` and `--dry-run` never modify the scanned tree (engine R).

Proof obligations: coq/Props_C07.v over coq/ReadOnlyModel.v (the calls fclones itself issues, for every
command string / flag combination / failure pattern).

Correspondence (the tie to the code, on every run):
  (a) plan: for the 16 combinations x several command strings, GroupConfig::transform() (config.rs
      build_transform -> Transform::new) + transform::verif::plan (make_args) of the CURRENT source
      (harness/src/bin/ro.rs) must give the error / copy flag / input handle / output handle / substituted
      arguments the extracted model gives (coq/driver/drv_R.ml), and Transform::run + drops must leave the
      temp dir empty and then gone.
  (b) trace: the real binary runs under `strace -f` on generated trees in every mode; the mutating
      syscalls of fclones' OWN threads (children after a successful execve are the external program),
      grouped per temp path, must be n x the per-file profile of the model + mkdir/rmdir of the temp dir,
      and must stay inside the path classes the model allows for the mode (temp dir only with
      --transform, cache dir only with --cache, the -o file only with -o).
Direct oracle (model-free, found_input=True): a full inventory of the scanned tree (path, type, inode,
nlink, mode, size, link target, sha256, mtime ns, ctime ns; NOT atime) is identical before and after every
run; no process issues a mutating syscall or a writable open on a path under the scanned root; nothing is
left in $TMPDIR; dry runs create nothing anywhere except the -o file.
"""
import hashlib
import json
import os
import re
import shutil
import stat
import subprocess
from concurrent.futures import ThreadPoolExecutor

from .. import core

RO = os.path.join(core.BIN, "ro")

TRACE_SET = ("open,openat,?openat2,creat,rename,renameat,renameat2,unlink,unlinkat,rmdir,link,linkat,symlink,"
             "symlinkat,mkdir,mkdirat,mknod,mknodat,truncate,ftruncate,chmod,fchmod,fchmodat,?fchmodat2,chown,"
             "fchown,lchown,fchownat,?utime,?utimes,?futimesat,utimensat,setxattr,lsetxattr,fsetxattr,removexattr,"
             "lremovexattr,fremovexattr,fallocate,execve,execveat,clone,?clone3,fork,vfork")

SCRIPTS = {
    # appends to every argument that is an existing regular file (used on the temporary COPY only)
    "rewrite.sh": '#!/bin/sh\nfor f in "$@"; do if [ -f "$f" ]; then printf REWRITTEN >> "$f"; fi; done\n',
    "trunc.sh": '#!/bin/sh\nif [ $# -ge 1 ] && [ -f "$1" ]; then : > "$1"; fi\n',
    # truncates its LAST argument if that is an existing regular file (used on the temporary COPY only)
    "trunclast.sh": '#!/bin/sh\nfor f in "$@"; do l="$f"; done\nif [ $# -ge 1 ] && [ -f "$l" ]; then : > "$l"; fi\n',
    "in2out.sh": '#!/bin/sh\nif [ $# -ge 2 ]; then cat "$1" > "$2"; fi\n',
    "readfail.sh": '#!/bin/sh\nif [ $# -ge 1 ]; then cat "$1" > /dev/null; else cat > /dev/null; fi\nexit 3\n',
}

NAMES = [b"a", b"b.txt", b"with space", b"quote'\"q", b"$IN", b"$OUT", b"-dash", b"new\nline", b"tab\there",
         b"\xff\xfe", b"unicod\xc3\xa9", b"semi;colon", b"back\\slash", b"star*", b"#hash", b"..dots", b" lead",
         b"trail ", b"c", b"d.dat", b"e", b"f", b"g>,h", b"(deleted)", b"x<y>"]


# ------------------------------------------------------------------------------------------------
# trees

def gen_tree(rng, big):
    """A tree spec: list of entries {t: dir|file|hard|sym, p: hex relpath, ...} in creation order."""
    names = rng.shuffle(NAMES)
    dirs = [b""]
    spec = []
    for i in range(1 + rng.below(4)):
        parent = rng.choice(dirs)
        d = os.path.join(parent, b"dir%d_" % i + names[i][:6].replace(b"/", b"_")) if parent else b"dir%d_" % i + names[i][:6]
        dirs.append(d)
        spec.append({"t": "dir", "p": d.hex()})
    contents = []
    for c in range(2 + rng.below(3)):
        size = rng.choice([0, 1, 7, 100, 4096, 5000, 20000]) if c else 11
        contents.append((c, size))
    if big:
        contents.append((9, 70000))
    files = []
    used = set()
    nfiles = 6 + rng.below(9)
    for i in range(nfiles):
        d = rng.choice(dirs)
        nm = rng.choice(names)
        p = os.path.join(d, nm) if d else nm
        if p in used or p in dirs:
            p = p + b"_%d" % i
        used.add(p)
        c, size = contents[i % len(contents)] if i < 2 * len(contents) else rng.choice(contents)
        files.append(p)
        spec.append({"t": "file", "p": p.hex(), "c": c, "size": size, "mode": rng.choice([0o644, 0o644, 0o600, 0o755, 0o444])})
    for i in range(1 + rng.below(3)):
        tgt = rng.choice(files)
        d = rng.choice(dirs)
        p = os.path.join(d, b"hl%d" % i) if d else b"hl%d" % i
        spec.append({"t": "hard", "p": p.hex(), "to": tgt.hex()})
    for i in range(1 + rng.below(3)):
        d = rng.choice(dirs)
        p = os.path.join(d, b"sl%d" % i) if d else b"sl%d" % i
        k = rng.below(4)
        if k == 0:
            to = b"/nonexistent/dangling"
        elif k == 1 and len(dirs) > 1:
            to = os.path.relpath(rng.choice(dirs[1:]), d or b".")
        else:
            to = os.path.relpath(rng.choice(files), d or b".")
        spec.append({"t": "sym", "p": p.hex(), "to": to.hex()})
    return spec


def content_bytes(c, size):
    seed = hashlib.sha256(b"content%d" % c).digest()
    out = (seed * (size // len(seed) + 1))[:size]
    return out


def materialise(spec, root):
    shutil.rmtree(root, ignore_errors=True)
    rootb = os.fsencode(root)
    os.makedirs(rootb)
    t = 1_500_000_000
    for e in spec:
        p = os.path.join(rootb, bytes.fromhex(e["p"]))
        if e["t"] == "dir":
            os.makedirs(p, exist_ok=True)
        elif e["t"] == "file":
            with open(p, "wb") as f:
                f.write(content_bytes(e["c"], e["size"]))
            os.chmod(p, e.get("mode", 0o644))
        elif e["t"] == "hard":
            os.link(os.path.join(rootb, bytes.fromhex(e["to"])), p)
        elif e["t"] == "sym":
            os.symlink(bytes.fromhex(e["to"]), p)
    # distinct, old modification times (files first, then directories bottom-up)
    for e in spec:
        p = os.path.join(rootb, bytes.fromhex(e["p"]))
        if e["t"] in ("file",):
            t += 1000
            os.utime(p, ns=(t * 10**9 + 123456789, t * 10**9 + 987654321))
    for dp, dn, fn in os.walk(rootb, topdown=False):
        t += 1000
        os.utime(dp, ns=(t * 10**9 + 111, t * 10**9 + 222))


def inventory(root):
    """path -> (type, ino, nlink, mode, size, mtime_ns, ctime_ns, target-or-sha256); atime deliberately absent."""
    rootb = os.fsencode(root)
    inv = {}

    def add(p):
        st = os.lstat(p)
        rel = os.path.relpath(p, rootb).hex()
        if stat.S_ISLNK(st.st_mode):
            extra = "->" + os.readlink(p).hex()
            ty = "l"
        elif stat.S_ISREG(st.st_mode):
            fd = os.open(p, os.O_RDONLY | getattr(os, "O_NOATIME", 0))
            try:
                h = hashlib.sha256()
                while True:
                    b = os.read(fd, 1 << 20)
                    if not b:
                        break
                    h.update(b)
            finally:
                os.close(fd)
            extra = h.hexdigest()
            ty = "f"
        elif stat.S_ISDIR(st.st_mode):
            extra = ""
            ty = "d"
        else:
            extra = ""
            ty = "o%o" % stat.S_IFMT(st.st_mode)
        inv[rel] = (ty, st.st_ino, st.st_nlink, stat.S_IMODE(st.st_mode), st.st_size, st.st_mtime_ns, st.st_ctime_ns, extra)

    add(rootb)
    for dp, dn, fn in os.walk(rootb):
        for n in dn + fn:
            add(os.path.join(dp, n))
    return inv


ASPECTS = ["type", "inode", "nlink", "mode", "size", "mtime", "ctime", "bytes_or_target"]


def inv_diff(a, b):
    """list of (aspect, hex path) differences, most serious first"""
    out = []
    for p in sorted(set(a) | set(b)):
        if p not in b:
            out.append(("path_removed", p))
        elif p not in a:
            out.append(("path_added", p))
        else:
            for i, asp in enumerate(ASPECTS):
                if a[p][i] != b[p][i]:
                    out.append((asp, p))
    order = {"path_removed": 0, "path_added": 1, "bytes_or_target": 2, "type": 3, "size": 4, "inode": 5, "nlink": 6,
             "mode": 7, "mtime": 8, "ctime": 9}
    out.sort(key=lambda x: (order.get(x[0], 99), x[1]))
    return out


# ------------------------------------------------------------------------------------------------
# strace parsing

def unescape(s):
    out = bytearray()
    i = 0
    simple = {"n": 10, "t": 9, "r": 13, "v": 11, "f": 12, "a": 7, "b": 8, "e": 27, "\\": 92, '"': 34, "'": 39}
    while i < len(s):
        c = s[i]
        if c == "\\" and i + 1 < len(s):
            d = s[i + 1]
            if d in simple:
                out.append(simple[d])
                i += 2
            elif d == "x":
                out.append(int(s[i + 2:i + 4], 16))
                i += 4
            elif d.isdigit():
                j = i + 1
                while j < len(s) and j < i + 4 and s[j] in "01234567":
                    j += 1
                out.append(int(s[i + 1:j], 8) & 0xFF)
                i = j
            else:
                out.append(ord(d) & 0xFF)
                i += 2
        else:
            out += c.encode("utf-8", "surrogateescape")
            i += 1
    return bytes(out)


def split_args(s):
    """Split the text between the outer parentheses of a strace line into top-level arguments.
    Returns a list of ('str', bytes) | ('fd', name, bytes path) | ('raw', text)."""
    args = []
    i, n = 0, len(s)
    while i < n:
        while i < n and s[i] in " ,":
            i += 1
        if i >= n:
            break
        if s[i] == '"':
            j = i + 1
            while j < n:
                if s[j] == "\\":
                    j += 2
                    continue
                if s[j] == '"':
                    break
                j += 1
            args.append(("str", unescape(s[i + 1:j])))
            i = j + 1
            if s.startswith("...", i):
                i += 3
            continue
        m = re.match(r"(AT_FDCWD|-?\d+)<", s[i:])
        if m:
            # fd annotated with its path: up to the '>' that is followed by ',' / end
            j = i + m.end()
            k = j
            end = None
            while True:
                k = s.find(">", k)
                if k < 0:
                    break
                if k + 1 >= n or s[k + 1] == ",":
                    end = k
                    break
                k += 1
            if end is None:
                end = n - 1
            args.append(("fd", m.group(1), unescape(s[j:end])))
            i = end + 1
            continue
        # raw token up to the next top-level comma
        depth = 0
        j = i
        while j < n:
            c = s[j]
            if c in "[{(":
                depth += 1
            elif c in "]})":
                depth -= 1
            elif c == '"':
                j += 1
                while j < n and s[j] != '"':
                    j += 2 if s[j] == "\\" else 1
            elif c == "," and depth == 0:
                break
            j += 1
        args.append(("raw", s[i:j].strip()))
        i = j
    return args


LINE_RE = re.compile(r"^(\w+)\((.*)\)\s+= (-?\d+|\?)(.*)$", re.S)
WRITE_FLAGS = ("O_WRONLY", "O_RDWR", "O_CREAT", "O_TRUNC", "O_APPEND", "O_TMPFILE")


def parse_trace_file(path):
    evs = []
    with open(path, "r", encoding="utf-8", errors="surrogateescape") as f:
        for line in f:
            line = line.rstrip("\n")
            if not line or line.startswith("---") or line.startswith("+++"):
                continue
            m = LINE_RE.match(line)
            if not m:
                m2 = re.match(r"^(\w+)\((.*)$", line, re.S)
                if m2:      # unfinished (killed inside the call): an attempt with unknown result
                    evs.append({"sys": m2.group(1), "args": split_args(m2.group(2).replace("<unfinished ...>", "")),
                                "ret": None, "raw": line})
                continue
            ret = None if m.group(3) == "?" else int(m.group(3))
            evs.append({"sys": m.group(1), "args": split_args(m.group(2)), "ret": ret, "raw": line})
    return evs


def _join(base, p):
    if p.startswith(b"/"):
        return os.path.normpath(p)
    return os.path.normpath(os.path.join(base, p))


def effects(ev, cwd):
    """[(kind, absolute path bytes)] of the paths a syscall may modify; kind = create|openw|rm|rmdir|mkdir|mkfifo|
    rename|link|symlink|chmod|chown|utimes|xattr|truncate|mknod"""
    s, a = ev["sys"], ev["args"]

    def path_at(i_fd, i_path):
        base = cwd
        if i_fd is not None and i_fd < len(a) and a[i_fd][0] == "fd":
            base = a[i_fd][2] if a[i_fd][2] else cwd
        if i_path < len(a) and a[i_path][0] == "str":
            return _join(base, a[i_path][1])
        return None

    def fd_path(i):
        if i < len(a) and a[i][0] == "fd":
            return os.path.normpath(a[i][2])
        return None

    def raw(i):
        return a[i][1] if i < len(a) and a[i][0] == "raw" else ""

    out = []
    if s in ("open", "creat"):
        fl = "O_CREAT|O_WRONLY|O_TRUNC" if s == "creat" else raw(1)
        if any(w in fl for w in WRITE_FLAGS):
            out.append(("create" if ("O_CREAT" in fl or "O_TMPFILE" in fl) else "openw", path_at(None, 0)))
    elif s in ("openat", "openat2"):
        fl = raw(2)
        if any(w in fl for w in WRITE_FLAGS):
            out.append(("create" if ("O_CREAT" in fl or "O_TMPFILE" in fl) else "openw", path_at(0, 1)))
    elif s == "rename":
        out += [("rename", path_at(None, 0)), ("rename", path_at(None, 1))]
    elif s in ("renameat", "renameat2"):
        out += [("rename", path_at(0, 1)), ("rename", path_at(2, 3))]
    elif s == "unlink":
        out.append(("rm", path_at(None, 0)))
    elif s == "rmdir":
        out.append(("rmdir", path_at(None, 0)))
    elif s == "unlinkat":
        out.append(("rmdir" if "AT_REMOVEDIR" in raw(2) else "rm", path_at(0, 1)))
    elif s == "link":
        out += [("link", path_at(None, 0)), ("link", path_at(None, 1))]
    elif s == "linkat":
        out += [("link", path_at(0, 1)), ("link", path_at(2, 3))]
    elif s == "symlink":
        out.append(("symlink", path_at(None, 1)))
    elif s == "symlinkat":
        out.append(("symlink", path_at(1, 2)))
    elif s == "mkdir":
        out.append(("mkdir", path_at(None, 0)))
    elif s == "mkdirat":
        out.append(("mkdir", path_at(0, 1)))
    elif s == "mknod":
        out.append(("mkfifo" if "S_IFIFO" in raw(1) else "mknod", path_at(None, 0)))
    elif s == "mknodat":
        out.append(("mkfifo" if "S_IFIFO" in raw(2) else "mknod", path_at(0, 1)))
    elif s == "truncate":
        out.append(("truncate", path_at(None, 0)))
    elif s in ("ftruncate", "fallocate"):
        out.append(("truncate", fd_path(0)))
    elif s in ("chmod",):
        out.append(("chmod", path_at(None, 0)))
    elif s in ("fchmod",):
        out.append(("chmod", fd_path(0)))
    elif s in ("fchmodat", "fchmodat2"):
        out.append(("chmod", path_at(0, 1)))
    elif s in ("chown", "lchown"):
        out.append(("chown", path_at(None, 0)))
    elif s == "fchown":
        out.append(("chown", fd_path(0)))
    elif s == "fchownat":
        out.append(("chown", path_at(0, 1)))
    elif s in ("utime", "utimes"):
        out.append(("utimes", path_at(None, 0)))
    elif s == "futimesat":
        out.append(("utimes", path_at(0, 1)))
    elif s == "utimensat":
        p = path_at(0, 1)
        out.append(("utimes", p if p is not None else fd_path(0)))
    elif s in ("setxattr", "lsetxattr", "removexattr", "lremovexattr"):
        out.append(("xattr", path_at(None, 0)))
    elif s in ("fsetxattr", "fremovexattr"):
        out.append(("xattr", fd_path(0)))
    return [(k, p) for k, p in out]


def analyse_trace(tdir, prefix, cwd, fclones_bin):
    """Split the per-tid trace files into fclones' own events and the external programs' events.
    Returns dict(own=[(kind,path,ev)], ext=[...], nspawn=number of external programs started by fclones, unparsed=n)."""
    files = {}
    for fn in os.listdir(tdir):
        if fn.startswith(prefix + "."):
            files[int(fn.rsplit(".", 1)[1])] = parse_trace_file(os.path.join(tdir, fn))
    root = None
    for tid, evs in files.items():
        if evs and evs[0]["sys"] == "execve" and evs[0]["args"] and evs[0]["args"][0][0] == "str" \
                and evs[0]["args"][0][1] == os.fsencode(fclones_bin) and evs[0]["ret"] == 0:
            root = tid
    if root is None:
        raise RuntimeError("strace: root process not found in " + tdir)
    own_tids, ext_tids, children = {root}, set(), []
    # clone edges
    edges = {}
    for tid, evs in files.items():
        for ev in evs:
            if ev["sys"] in ("clone", "clone3", "fork", "vfork") and ev["ret"] and ev["ret"] > 0:
                is_thread = "CLONE_THREAD" in ev["raw"]
                edges.setdefault(tid, []).append((ev["ret"], is_thread))
    work = [root]
    seen = set()
    while work:
        t = work.pop()
        if t in seen:
            continue
        seen.add(t)
        for child, is_thread in edges.get(t, []):
            if t in own_tids and is_thread:
                own_tids.add(child)
            elif t in own_tids:
                children.append(child)       # a process forked by fclones: own until its first successful execve
            else:
                ext_tids.add(child)
            work.append(child)
    for c in children:
        for t in _descendants(c, edges):
            ext_tids.add(t)
    own, ext = [], []
    nspawn = 0
    unattributed = 0
    for tid, evs in files.items():
        if tid in own_tids:
            mode = "own"
            start = 1 if tid == root else 0
        elif tid in children:
            mode = "prexec"
            start = 0
        elif tid in ext_tids:
            mode = "ext"
            start = 0
        else:
            mode = "own"          # conservative: cannot attribute -> treat as fclones' own
            start = 0
            unattributed += 1
        for ev in evs[start:]:
            if ev["sys"] in ("execve", "execveat"):
                if mode == "prexec" and ev["ret"] in (0, None):
                    mode = "ext"
                    nspawn += 1
                continue
            if ev["sys"] in ("clone", "clone3", "fork", "vfork"):
                continue
            for kind, p in effects(ev, cwd):
                (own if mode in ("own", "prexec") else ext).append((kind, p, ev))
    # number of external programs fclones started = processes forked by its own threads (the probe of Transform::new is
    # killed at once and may not even reach its execve, so successful execves are not a reliable count)
    return {"own": own, "ext": ext, "nspawn": len(children), "nexec": nspawn, "unattributed": unattributed, "ntids": len(files)}


def _descendants(t, edges):
    out, work = set(), [t]
    while work:
        x = work.pop()
        for c, _ in edges.get(x, []):
            if c not in out:
                out.add(c)
                work.append(c)
    return out


# ------------------------------------------------------------------------------------------------
# run specs

def transform_commands(hi, ho, ip, nc):
    """(label, command) triples for one of the 16 combinations: reads / ignores / fails on its input (+ extras)."""
    if not hi and not ho:
        return [("read", "cat"), ("ignore", "true"), ("fail", "false"), ("readfail", "readfail.sh"), ("partial", "head -c 3")]
    if hi and not ho:
        if ip and not nc:
            return [("rewrite_copy", "rewrite.sh $IN"), ("ignore", "true $IN"), ("fail", "false $IN"), ("trunc_copy", "trunc.sh $IN")]
        if ip and nc:
            return [("read", "head -c 8 $IN"), ("ignore", "true $IN"), ("fail", "false $IN"), ("readfail", "readfail.sh $IN")]
        if nc:
            return [("read", "cat $IN"), ("ignore", "true $IN"), ("fail", "false $IN"), ("read_twice", "cat $IN $IN")]
        return [("read", "cat $IN"), ("ignore", "true $IN"), ("fail", "false $IN"), ("read_twice", "cat $IN $IN"),
                ("rewrite_copy", "rewrite.sh $IN")]
    if ho and not hi:
        return [("read", "tee $OUT"), ("ignore", "true $OUT"), ("fail", "false $OUT"), ("read_dd", "dd of=$OUT")]
    if ip:
        return [("read", "cp $IN $OUT"), ("ignore", "true $IN $OUT"), ("fail", "false $IN $OUT")]
    return [("read", "dd if=$IN of=$OUT"), ("ignore", "true $IN $OUT"), ("fail", "false $IN $OUT"),
            ("read_sh", "in2out.sh $IN $OUT"), ("read_var", "dd if=$IN of=$OUT status=$none")]


def multi_commands(hi, ho, ip, nc):
    """Commands naming $IN (or $OUT) two or three times; run in EVERY tier.  With a private copy (no --no-copy) each $IN
    is a fresh temp name and only the last one is the copy, so programs that write to a later $IN (sort -o, cp, the
    rewriting scripts) are safe there — they must never reach a scanned file.  With --no-copy every $IN is the original:
    read-only programs only."""
    out = []
    if hi and not nc:
        out += [("multi_in_sort", "sort $IN -o $IN"), ("multi_in_rewrite", "rewrite.sh $IN $IN"), ("multi_in_cp", "cp $IN $IN"),
                ("multi_in3_rewrite", "rewrite.sh $IN $IN $IN"), ("multi_in_trunc", "trunclast.sh $IN $IN"),
                ("multi_in_cpnull", "cp /dev/null $IN $IN")]
        if ho:
            out = [("multi_in_out_rewrite", "rewrite.sh $IN $IN $OUT"), ("multi_in_out_trunc", "trunclast.sh $OUT $IN $IN"),
                   ("multi_in_out_sh", "in2out.sh $IN $OUT $IN"), ("multi_in_out2", "true $IN $OUT $OUT $IN")]
    elif hi and nc:
        out += [("multi_in_read", "cat $IN $IN"), ("multi_in3_ignore", "true $IN $IN $IN")]
        if ho:
            out = [("multi_in_read_out", "true $IN $OUT $IN")]
    elif ho and not ip:
        out += [("multi_out_tee", "tee $OUT $OUT"), ("multi_out_ignore", "true $OUT $OUT")]
    return out


def tokenize(command):
    """The tokens parse_command sees: list of arguments, each a list of (kind, text); kind in L I O V."""
    args = []
    for a in re.split(r"[ \t]+", command):
        if a == "":
            continue
        toks = []
        for m in re.finditer(r"\$([A-Za-z0-9_]+)|([^$]+)", a):
            if m.group(1) is not None:
                toks.append(("I" if m.group(1) == "IN" else "O" if m.group(1) == "OUT" else "V", m.group(1)))
            else:
                toks.append(("L", m.group(2)))
        args.append(toks)
    return args


def toks_string(command):
    s = "".join(k for a in tokenize(command) for k, _ in a)
    return s or "-"


def gen_runs(rng, thorough, cmds_per_mode):
    runs = []
    for hi in (0, 1):
        for ho in (0, 1):
            for ip in (0, 1):
                for nc in (0, 1):
                    cmds = transform_commands(hi, ho, ip, nc)
                    pick = cmds[:3] + rng.shuffle(cmds[3:])
                    multi = multi_commands(hi, ho, ip, nc)
                    multi = multi if thorough else multi[:1] + rng.shuffle(multi[1:])[:1]
                    for label, cmd in pick[:cmds_per_mode] + multi:
                        extra = []
                        k = rng.below(8)
                        if k == 0:
                            extra = ["--cache"]
                        elif k == 1:
                            extra = ["-o", "@OUT@"]
                        elif k == 2:
                            extra = ["--threads", "1"]
                        elif k == 3:
                            extra = ["--hash-fn", "blake3"]
                        runs.append({"kind": "group", "transform": cmd, "label": label, "in_place": ip, "no_copy": nc, "extra": extra})
    plain = [[], ["--cache"], ["-o", "@OUT@"], ["--cache", "-o", "@OUT@"], ["-H"], ["-f", "json"], ["-L"], ["-S"], ["--unique"],
             ["--rf-under", "3"], ["--hash-fn", "sha256"], ["--threads", "1"], ["-f", "csv", "-s", "1"], ["--cache", "--transform-none-second-run"]]
    for ex in (plain if thorough else plain[:4] + rng.shuffle(plain[4:])[:4]):
        if "--transform-none-second-run" in ex:
            runs.append({"kind": "group", "transform": None, "extra": ["--cache"], "label": "cache_warm", "warm": True})
        else:
            runs.append({"kind": "group", "transform": None, "extra": ex, "label": "plain"})
    # cache warm-up with a transform: second run must not start the program for cached files
    # (a command string no other run uses: the cache tree is keyed by it, so the first run of the pair is really cold)
    runs.append({"kind": "group", "transform": "head -c 100000 $IN", "in_place": 0, "no_copy": 0, "extra": ["--cache"], "label": "cache_warm", "warm": True})
    # unusable / missing $TMPDIR x working directory inside / outside the scanned tree x $IN / $OUT / stdin:
    # the unchanged code rejects the transform ("Failed to create temporary directory") and touches nothing
    combos = [(t, c, cmd) for t in ("below_file", "dangling", "missing") for c in ("tree", "base")
              for cmd in ("cat $IN", "tee $OUT", "cat", "dd if=$IN of=$OUT")]
    fixed = [("below_file", "tree", "cat $IN"), ("dangling", "tree", "tee $OUT"), ("missing", "tree", "dd if=$IN of=$OUT")]
    rest = [x for x in rng.shuffle(combos) if x not in fixed]
    for t, c, cmd in fixed + (rest if thorough else rest[:4]):
        runs.append({"kind": "group", "transform": cmd, "in_place": 0, "no_copy": 0, "extra": rng.choice([[], [], ["-o", "@OUT@"], ["--cache"]]),
                     "label": "tmpdir_" + t, "tmpdir": t, "cwd": c, "root": rng.choice([".", "abs"])})
    # --base-dir (the tree itself / the directory above it) + relative roots + a RELATIVE -o (fresh name, the name of a scanned
    # file, a name inside a scanned directory), started from a working directory outside the tree, in every report format:
    # the roots are relative to the base dir, the report belongs to the working directory
    bcombos = [(bd, o, fmt, r) for bd in ("tree", "above") for o in ("dupes.txt", "@EXISTING@", "@EXISTING_DIR@/new.txt", "sub/r.out")
               for fmt in ("default", "fdupes", "csv", "json") for r in ("dot", "subdirs")]
    bfixed = [("tree", "dupes.txt", "default", "dot"), ("tree", "@EXISTING@", "json", "dot"), ("above", "@EXISTING@", "csv", "subdirs")]
    brest = [x for x in rng.shuffle(bcombos) if x not in bfixed]
    for bd, o, fmt, r in bfixed + (brest[:20] if thorough else brest[:3]):
        extra = ["-f", fmt] + rng.choice([[], [], ["--cache"], ["-H"]])
        run = {"kind": "group", "transform": None, "extra": extra, "label": "base_dir", "base_dir": bd, "roots": r, "out_rel": o,
               "cwd": "work", "base_dir_style": rng.choice(["abs", "rel"]), "has_output": True}
        if rng.chance(1, 5):
            run.update({"transform": "cat $IN", "in_place": 0, "no_copy": 0})
            run["extra"] = ["-f", fmt]
        runs.append(run)
    # usable $TMPDIR, fclones started from inside the tree
    for cmd, ip, nc in (("cat $IN", 0, 0), ("true $IN $OUT", 0, 1)) + ((("rewrite.sh $IN", 1, 0), ("cat", 0, 0)) if thorough else ()):
        runs.append({"kind": "group", "transform": cmd, "in_place": ip, "no_copy": nc, "extra": [], "label": "cwd_in_tree", "cwd": "tree",
                     "root": rng.choice([".", "abs"])})
    dopts = [[], ["--priority", "newest"], ["--no-lock"], ["-o", "@OUT@"], ["--rf-over", "2"], ["--keep-name", "*a*"],
             ["--path", "**/dir0*/**"], ["--no-check-size"], ["--priority", "most-nested", "--priority", "oldest"], ["-H"]]
    for op in (["remove"], ["link"], ["link", "--soft"], ["dedupe"], ["move", "@MOVEDIR@"]):
        opts = [dopts[0]] + rng.shuffle(dopts[1:])[:(3 if thorough else 1)]
        for o in opts:
            runs.append({"kind": "dedupe", "op": op, "opts": o, "label": "dry_" + "_".join(op[:2]).replace("@MOVEDIR@", "DIR").replace("--", "")})
    return runs


# ------------------------------------------------------------------------------------------------
# one job = one materialised tree + a list of runs

class Job:
    def __init__(self, base, spec, fclones, root_style):
        self.base = base
        self.spec = spec
        self.fclones = fclones
        self.tree = os.path.join(base, "tree")
        self.tmp = os.path.join(base, "tmp")
        self.cache = os.path.join(base, "cache")
        self.out = os.path.join(base, "out")
        self.bin = os.path.join(base, "bin")
        self.home = os.path.join(base, "home")
        self.work = os.path.join(base, "work")      # a working directory outside the tree that is not the base dir either
        self.root_style = root_style
        for d in (self.tmp, self.cache, self.out, self.bin, self.home, self.work):
            shutil.rmtree(d, ignore_errors=True)
            os.makedirs(d)
        for n, body in SCRIPTS.items():
            p = os.path.join(self.bin, n)
            with open(p, "w") as f:
                f.write(body)
            os.chmod(p, 0o755)
        materialise(spec, self.tree)
        self.baseline = inventory(self.tree)
        self.report = None
        self.nrun = 0

    def tmp_for(self, run):
        """$TMPDIR of this run. Unusable variants: `below_file` (a path below a regular file: ENOTDIR even for root),
        `dangling` (a symlink to nowhere), `missing` (does not exist yet: create_dir_all creates it — usable)."""
        k = run.get("tmpdir", "ok")
        n = self.nrun
        if k == "ok":
            return self.tmp
        if k == "below_file":
            blocker = os.path.join(self.base, "blocker_%d" % n)
            open(blocker, "w").write("not a directory\n")
            return os.path.join(blocker, "t")
        if k == "dangling":
            link = os.path.join(self.base, "dangling_%d" % n)
            os.symlink(os.path.join(self.base, "nowhere_%d" % n, "x"), link)
            return link
        if k == "missing":
            return os.path.join(self.base, "missing_%d" % n, "deeper")
        raise ValueError(k)

    def env(self, tmp=None):
        return {"TMPDIR": tmp or self.tmp, "XDG_CACHE_HOME": self.cache, "HOME": self.home,
                "PATH": self.bin + ":/usr/bin:/bin", "LANG": "C.UTF-8", "RUST_BACKTRACE": "0"}

    def argv(self, run):
        outfile = os.path.join(self.out, "out_%d.txt" % self.nrun)
        sub = lambda xs: [x.replace("@OUT@", outfile).replace("@MOVEDIR@", os.path.join(self.out, "moved_%d" % self.nrun)) for x in xs]
        self.outfile_abs = None
        if run["kind"] == "group" and run.get("base_dir"):
            # `--base-dir DIR <relative roots> -o <relative name>` started from self.work: the roots are relative to DIR,
            # the report path is relative to the working directory
            files = [bytes.fromhex(e["p"]) for e in self.spec if e["t"] == "file"]
            dirs = [bytes.fromhex(e["p"]) for e in self.spec if e["t"] == "dir"]
            if run["base_dir"] == "tree":
                bd, pre = self.tree, ""
                roots = {"dot": ["."], "subdirs": [os.fsdecode(d) for d in dirs[:2]] or ["."]}[run.get("roots", "dot")]
            else:
                bd, pre = self.base, "tree/"
                roots = {"dot": ["tree"], "subdirs": ["tree/" + os.fsdecode(d) for d in dirs[:2]] or ["tree"]}[run.get("roots", "dot")]
            name = run["out_rel"]
            if name == "@EXISTING@":        # a name that exists below the base dir (a scanned file)
                name = pre + os.fsdecode(files[0])
            elif name == "@EXISTING_DIR@/new.txt":
                name = pre + (os.fsdecode(dirs[0]) + "/new.txt" if dirs else "new.txt")
            if name.startswith("-"):
                name = "./" + name          # clap would take it for an option
            shutil.rmtree(self.work, ignore_errors=True)
            os.makedirs(os.path.dirname(os.path.join(self.work, name)) or self.work, exist_ok=True)
            self.outfile_abs = os.path.normpath(os.path.join(self.work, name))
            bd_arg = bd if run.get("base_dir_style", "abs") == "abs" else os.path.relpath(bd, self.work)
            a = [self.fclones, "group", "--base-dir", bd_arg] + roots + ["-o", name] + sub(run.get("extra", []))
            if run.get("transform") is not None:
                a += ["--transform", run["transform"]]
            return a, None
        if run["kind"] == "group":
            root = {"abs": self.tree, "rel": "tree", "dot": "./tree/"}[self.root_style]
            if run.get("cwd") == "tree":        # fclones is started from inside the scanned tree
                root = run.get("root", ".")
                root = self.tree if root == "abs" else root
            a = [self.fclones, "group", root] + sub(run.get("extra", []))
            if run.get("transform") is not None:
                a += ["--transform", run["transform"]]
                if run.get("in_place"):
                    a.append("--in-place")
                if run.get("no_copy"):
                    a.append("--no-copy")
            return a, None
        a = [self.fclones] + sub(run["op"]) + ["--dry-run"] + sub(run["opts"])
        return a, self.ensure_report()

    def ensure_report(self):
        if self.report is None:
            rp = os.path.join(self.out, "report.txt")
            p = subprocess.run([self.fclones, "group", self.tree, "-o", rp], env=dict(os.environ, **self.env()),
                               stdin=subprocess.DEVNULL, stdout=subprocess.PIPE, stderr=subprocess.PIPE, cwd=self.base, timeout=120)
            if p.returncode != 0:
                raise RuntimeError("could not produce the report for the dry runs: " + p.stderr.decode(errors="replace")[-500:])
            self.report = rp
        return self.report

    def execute(self, run, trace=True, timeout=90):
        """Run fclones once (under strace) and evaluate every oracle. Returns a result dict."""
        self.nrun += 1
        argv, stdin_file = self.argv(run)
        tmp_run = self.tmp_for(run)
        cwd = self.tree if run.get("cwd") == "tree" else self.work if run.get("cwd") == "work" else self.base
        tdir = os.path.join(self.base, "trace_%d" % self.nrun)
        shutil.rmtree(tdir, ignore_errors=True)
        os.makedirs(tdir)
        cmd = ["strace", "-f", "-ff", "-y", "-qq", "-s", "65536", "-e", "trace=" + TRACE_SET, "-o", os.path.join(tdir, "t")] + argv
        stdin = open(stdin_file, "rb") if stdin_file else subprocess.DEVNULL
        res = {"argv": argv, "stdin": stdin_file, "problems": [], "cwd": cwd, "TMPDIR": tmp_run}
        proc = subprocess.Popen(cmd, env=dict(os.environ, **self.env(tmp_run)), stdin=stdin, stdout=subprocess.PIPE,
                                stderr=subprocess.PIPE, cwd=cwd, start_new_session=True)
        try:
            so, se = proc.communicate(timeout=timeout)
            res["rc"] = proc.returncode
            res["stdout"] = so
            res["stderr"] = se.decode(errors="replace")[-1500:]
        except subprocess.TimeoutExpired:
            try:
                os.killpg(proc.pid, 9)      # strace, fclones and every transform child (own session)
            except OSError:
                pass
            proc.communicate()
            res["rc"] = None
            res["stdout"] = b""
            res["stderr"] = "TIMEOUT"
            res["problems"].append(("run_timeout", "fclones did not finish within %d s" % timeout, None))
        finally:
            if stdin_file:
                stdin.close()
        # --- direct oracle 1: the inventory
        after = inventory(self.tree)
        diff = inv_diff(self.baseline, after)
        if diff:
            asp = diff[0][0]
            res["problems"].append(("tree_modified:" + asp,
                                    "scanned tree changed: " + ", ".join("%s %r" % (a, bytes.fromhex(p)) for a, p in diff[:6]),
                                    {"diff": diff[:40]}))
        # --- direct oracle 2: nothing left in $TMPDIR; dry runs create nothing but the -o file
        left = sorted(os.listdir(tmp_run)) if os.path.isdir(tmp_run) else []
        if left:
            res["problems"].append(("temp_left_behind", "entries left in $TMPDIR after the run: %r" % left[:5], {"left": left}))
            for n in left:
                shutil.rmtree(os.path.join(tmp_run, n), ignore_errors=True)
        if run.get("tmpdir") == "dangling" and os.path.lexists(os.path.join(self.base, "nowhere_%d" % self.nrun)):
            res["problems"].append(("write_outside_allowed_places", "the target of the dangling $TMPDIR symlink was created", None))
        # a temp dir anywhere else fclones could think of: the working directory and the directory of the binary
        strays = [n for n in os.listdir(cwd) if n.startswith(".fclones") or n.startswith("fclones-")]
        if strays and cwd != self.tree:
            res["problems"].append(("temp_left_behind", "temp entries left in the working directory: %r" % strays[:5], {"left": strays}))
        if run["kind"] == "dedupe":
            mv = [x for x in os.listdir(self.out) if x.startswith("moved_")]
            if mv:
                res["problems"].append(("dry_run_created_target", "move --dry-run created %r" % mv, None))
                for n in mv:
                    shutil.rmtree(os.path.join(self.out, n), ignore_errors=True)
        if self.outfile_abs is not None and res["rc"] == 0:
            # direct oracle 3: the report is where the user asked for it: <working directory>/<name>
            if not os.path.isfile(self.outfile_abs):      # (may be empty: fdupes format without groups)
                res["problems"].append(("report_not_in_working_directory",
                                        "the run succeeded but there is no report at <cwd>/%s" % os.path.relpath(self.outfile_abs, self.work), None))
        if res["rc"] is not None and res["rc"] not in (0, 1):
            res["problems"].append(("fclones_crashed", "exit status %r: %s" % (res["rc"], res["stderr"][-300:]), None))
        # --- the trace
        tr = analyse_trace(tdir, "t", os.fsencode(cwd), self.fclones)
        res["nspawn"] = tr["nspawn"]
        res["ntids"] = tr["ntids"]
        treeb = os.fsencode(os.path.realpath(self.tree))
        tmpb = os.fsencode(os.path.abspath(tmp_run))
        cacheb = os.fsencode(os.path.realpath(self.cache))
        outb = os.fsencode(os.path.realpath(self.out))

        def under(p, d):
            return p is not None and (p == d or p.startswith(d + b"/"))

        classes = {"Tmp": 0, "CacheDir": 0, "OutFile": 0}
        per_tmp = {}
        for who, lst in (("own", tr["own"]), ("ext", tr["ext"])):
            for kind, p, ev in lst:
                if p is None:
                    res["problems"].append(("unparsed_syscall", "could not resolve the path of: " + ev["raw"][:300], None))
                    continue
                if under(p, treeb):
                    k = "write_open_under_root" if kind == "openw" else "mutating_syscall_under_root"
                    if who == "ext":
                        k = "external_program_" + k
                    res["problems"].append((k, "%s issued %s" % ("fclones" if who == "own" else "the transform program", ev["raw"][:400]),
                                            {"syscall": ev["raw"][:1000], "who": who}))
                    continue
                if who != "own":
                    continue
                if p.startswith(b"/dev/") or p.startswith(b"/proc/"):
                    continue
                m = re.match(rb"^" + re.escape(tmpb) + rb"/fclones-[^/]+(/[^/]+)?$", p)
                if not m and kind == "mkdir" and (tmpb == p or tmpb.startswith(p + b"/")) and run.get("tmpdir", "ok") != "ok" \
                        and (ev["ret"] != 0 or run.get("tmpdir") == "missing"):
                    classes["Tmp"] += 1        # create_dir_all walking up the ancestors of an unusable / missing $TMPDIR
                    continue
                if m:
                    classes["Tmp"] += 1
                    per_tmp.setdefault(p, []).append((kind, ev["ret"]))
                elif under(p, cacheb):
                    classes["CacheDir"] += 1
                elif (under(p, outb) and os.path.basename(p).startswith(b"out_")) or \
                        (self.outfile_abs is not None and p == os.fsencode(self.outfile_abs)):
                    classes["OutFile"] += 1
                else:
                    res["problems"].append(("write_outside_allowed_places",
                                            "fclones issued %s (not under $TMPDIR/fclones-*, the cache dir or the -o file)" % ev["raw"][:400],
                                            {"syscall": ev["raw"][:1000]}))
        res["classes"] = classes
        res["per_tmp"] = per_tmp
        res["unattributed"] = tr["unattributed"]
        shutil.rmtree(tdir, ignore_errors=True)
        if diff:
            # restore the tree so that the next run is judged on its own
            materialise(self.spec, self.tree)
            self.baseline = inventory(self.tree)
            self.report = None
        return res


# ------------------------------------------------------------------------------------------------
# model side

def model_plan(model, runs):
    lines = []
    for r in runs:
        cache = 1 if "--cache" in r.get("extra", []) else 0
        out = 1 if ("-o" in r.get("extra", []) or r.get("has_output")) else 0
        if r["kind"] == "group" and r.get("transform") is not None:
            lines.append("plan %d %d %d %d %s%s" % (r.get("in_place", 0), r.get("no_copy", 0), cache, out, toks_string(r["transform"]),
                                                    " failmk" if r.get("tmpdir") in ("below_file", "dangling") else ""))
        elif r["kind"] == "group":
            lines.append("plan 0 0 %d %d none" % (cache, out))
        else:
            lines.append("dry %d 4" % (1 if "-o" in r["opts"] else 0))
    return core.run_lines(model, lines)


def parse_model(line):
    f = line.split()
    d = {"err": f[1] if f[0] == "err" else None}
    for kv in f[1:]:
        if "=" in kv:
            k, v = kv.split("=", 1)
            d[k] = v
    return d


def model_profiles(file_calls):
    """per-path op sets of ONE file from the model's call list (reads dropped, openw optional)"""
    paths = {}
    if file_calls in ("-", "", None):
        return []
    for c in file_calls.split(","):
        k, p = c.split(":", 1)
        if k == "copy":
            p = p.split(">")[1]
            k = "create"
        if k in ("openr", "openw"):
            continue
        paths.setdefault(p, set()).add(k)
    return sorted(tuple(sorted(v)) for v in paths.values())


def trace_profiles(per_tmp):
    dirs, files = [], []
    for p, ops in per_tmp.items():
        kinds = set(k for k, _ in ops) - {"chmod", "openw"}
        if re.search(rb"/fclones-[^/]+$", p):
            dirs.append(tuple(sorted(kinds)))
        else:
            files.append(tuple(sorted(kinds)))
    return sorted(dirs), sorted(files)


def allowed_classes(mrun):
    """classes of paths the model allows mutating calls on, from its `run=` list"""
    out = set()
    for c in (mrun or "-").split(","):
        if ":" in c:
            p = c.split(":", 1)[1].split(">")[-1]
            out.add({"TDIR": "Tmp", "TO": "Tmp", "CACHE": "CacheDir", "OUTFILE": "OutFile"}.get(p, "Tmp" if p.startswith("TI") else p))
    return out


# ------------------------------------------------------------------------------------------------
# plan correspondence through the API

PLAN_COMMANDS = ["cat", "true", "cat $IN", "true $IN", "dd of=$OUT", "true $OUT", "dd if=$IN of=$OUT", "true $IN $OUT",
                 "cat $IN $IN", "true $OUT $OUT", "true $IN $OUT $IN", "true a=$IN,b=$OUT", "true $FOO", "true $IN$OUT",
                 "true $INPUT $OUTPUT", "true $OUT $IN", "false $IN"]


def render_model_args(command, subs):
    """what the implementation's canonicalised argument vector should look like according to the model"""
    subs = [] if subs in ("-", "") else subs.split(",")
    out, i = [], 0
    for a in tokenize(command):
        s = ""
        for k, text in a:
            m = subs[i]
            i += 1
            if k == "L":
                assert m == "L"
                s += text
            elif k == "V":
                assert m == "V"
                s += text
            else:
                assert m.startswith("P:")
                s += "<" + m[2:] + ">"
        out.append(s)
    assert i == len(subs)
    return out


def plan_correspondence(ctx, model, tree_dir, files, tmpdir, thorough, failmk=False):
    """failmk: tmpdir is unusable (below a regular file): Transform::new must fail with the temp-dir error after the
    validation of the command, and create nothing"""
    cases = []
    for cmd in (PLAN_COMMANDS[:8] if failmk else PLAN_COMMANDS) + [" "]:
        for ip in (0, 1):
            for nc in (0, 1):
                cases.append((cmd, ip, nc, ctx.rng.choice(files)))
    mlines = core.run_lines(model, ["plan %d %d 0 0 %s%s" % (ip, nc, toks_string(cmd), " failmk" if failmk else "") for cmd, ip, nc, _ in cases])
    casefile = os.path.join(ctx.scratch, "ro_cases.txt")
    with open(casefile, "w") as f:
        for cmd, ip, nc, fp in cases:
            f.write("exec %d %d %s %s\n" % (ip, nc, os.fsencode(fp).hex(), cmd.encode().hex() or "-"))
    env = dict(os.environ, TMPDIR=tmpdir, PATH="/usr/bin:/bin")
    p = subprocess.run([RO, casefile], env=env, stdin=subprocess.DEVNULL, stdout=subprocess.PIPE, stderr=subprocess.PIPE, timeout=600)
    if p.returncode != 0:
        raise RuntimeError("ro harness failed: " + p.stderr.decode(errors="replace")[-2000:])
    ilines = [json.loads(l) for l in p.stdout.decode().split("\n") if l.strip()]
    if len(ilines) != len(cases):
        raise RuntimeError("ro harness: %d results for %d cases" % (len(ilines), len(cases)))
    mism = []
    for (cmd, ip, nc, fp), ml, im in zip(cases, mlines, ilines):
        ctx.count()
        m = parse_model(ml)
        toks = toks_string(cmd)
        ctx.distinct(("plan", cmd, ip, nc, failmk), True)
        ctx.bump("plan_TMPDIR", "below a regular file" if failmk else "ok")
        ctx.bump("plan_combination", "in=%d out=%d in_place=%d no_copy=%d" % ("I" in toks, "O" in toks, ip, nc))
        ctx.bump("plan_outcome", m["err"] or "ok")
        case = {"layer": "plan", "command": cmd, "in_place": ip, "no_copy": nc, "file": fp, "model": ml, "impl": im,
                "replay_cmd": "printf 'exec %d %d %s %s\\n' > /tmp/c && TMPDIR=/tmp %s /tmp/c" % (ip, nc, os.fsencode(fp).hex(), cmd.encode().hex() or "-", RO)}
        if im.get("ok"):
            # direct oracle on the API level
            if not im["intact_after_plan"] or not im["intact_after_run"]:
                ctx.violation({"kind": "file_damaged_by_transform_api"},
                              "Transform (command %r, in_place=%d, no_copy=%d): the input file was modified or removed by fclones' own handles "
                              "(after make_args+drops intact=%s, after run+drop intact=%s)" % (cmd, ip, nc, im["intact_after_plan"], im["intact_after_run"]),
                              case, found_input=True)
            if not im["cleaned"] or not im["tmp_under_tmpdir"]:
                ctx.violation({"kind": "temp_dir_not_cleaned_api"}, "temp dir %s after dropping the Transform (command %r)" %
                              ("still exists" if not im["cleaned"] else "is not under $TMPDIR", cmd), case, found_input=True)
        if m["err"] or not im.get("ok"):
            if (m["err"] or None) != (im.get("err") if not im.get("ok") else None):
                mism.append((case, "configuration outcome: model %r, implementation %r" % (m["err"], im.get("err") or "ok")))
            continue
        exp_args = render_model_args(cmd, m["subs"])
        got = {"copy": "1" if im["copy"] else "0", "in": im["in"], "out": im["out"], "args": im["args"]}
        exp = {"copy": m["copy"], "in": m["in"], "out": m["out"], "args": exp_args}
        if got != exp:
            mism.append((case, "plan differs: model %r, implementation %r" % (exp, got)))
            continue
        # per-file cleanliness: only what the program itself created may be left (in-place + $OUT written by dd)
        exp_left = 1 if (ip and "O" in toks and cmd.startswith("dd ")) else 0
        if im["left_after_run"] != exp_left:
            mism.append((case, "entries left in the temp dir after Transform::run + drop: %r (model: %d)" % (im["left_after_run"], exp_left)))
        ctx.sample({"layer": "plan", "command": cmd, "in_place": ip, "no_copy": nc, "model": ml[:160]})
    return mism


# ------------------------------------------------------------------------------------------------
# evaluation of one run against the model

def judge(ctx, tree_id, spec, run, res, mline, pending_corr, job):
    ctx.count()
    m = parse_model(mline)
    label = run.get("label", "")
    nontrivial = True
    if run["kind"] == "group" and run.get("transform") is not None:
        toks = toks_string(run["transform"])
        ctx.bump("transform_mode", "in=%d out=%d in_place=%d no_copy=%d" % ("I" in toks, "O" in toks, run.get("in_place", 0), run.get("no_copy", 0)))
        ctx.bump("command_behaviour", label)
        ctx.bump("TMPDIR", run.get("tmpdir", "ok"))
        ctx.bump("cwd", "inside the scanned tree" if run.get("cwd") == "tree" else "outside")
        nontrivial = m["err"] is None
    elif run["kind"] == "group":
        ctx.bump("plain_group_options", " ".join(x for x in run.get("extra", []) if x.startswith("-")) or "(none)")
    else:
        ctx.bump("dry_run_op", " ".join(x for x in run["op"] if not x.startswith("@")))
        ctx.bump("dry_run_options", " ".join(x for x in run["opts"] if x.startswith("-")) or "(none)")
    if run.get("base_dir"):
        ctx.bump("base_dir_run", "base=%s roots=%s -o %s format=%s" % (run["base_dir"], run.get("roots"), run["out_rel"].replace("@", ""), run["extra"][1]))
    ctx.bump("external_programs_started", min(res.get("nspawn", 0), 20))
    ctx.distinct((tree_id, json.dumps(run, sort_keys=True)), nontrivial)
    case = {"layer": "cli", "tree": spec, "run": run, "argv": res["argv"], "cwd": res.get("cwd"), "TMPDIR": res.get("TMPDIR"),
            "stdin_report": res["stdin"], "rc": res["rc"],
            "stderr": res["stderr"], "root_style": job.root_style,
            "how_to_replay": "./check C07 --replay <this file>   (materialises the tree, runs argv under strace, compares inventories)"}
    for kind, what, extra in res["problems"]:
        sig = {"kind": kind.split(":")[0]}
        if ":" in kind:
            sig["aspect"] = kind.split(":")[1]
        c = dict(case)
        if extra:
            c.update(extra)
        direct = kind.split(":")[0] not in ("run_timeout", "unparsed_syscall", "fclones_crashed")
        ctx.violation(sig, "%s: %s" % (" ".join(os.path.basename(a) if i == 0 else a for i, a in enumerate(res["argv"])), what), c, found_input=direct)
    # ---- correspondence with the model
    if res["rc"] is None:
        return
    if run["kind"] == "group":
        if m["err"]:
            if res["rc"] == 0 or "Invalid transform" not in res["stderr"] or \
                    (m["err"] == "tmp_dir_failed" and "Failed to create temporary directory" not in res["stderr"]):
                pending_corr.append((case, "model: configuration error %s; implementation: rc=%r stderr=%r" % (m["err"], res["rc"], res["stderr"][-200:])))
            allowed = allowed_classes(m.get("run"))
            for cls, n in res["classes"].items():
                if bool(n) != (cls in allowed):
                    pending_corr.append((case, "after a configuration error the model's run is %s; implementation wrote: %r" % (m.get("run"), res["classes"])))
            return
        if res["rc"] != 0:
            pending_corr.append((case, "model: the run succeeds; implementation: rc=%r stderr=%r" % (res["rc"], res["stderr"][-300:])))
            return
        allowed = allowed_classes(m.get("run"))
        for cls, n in res["classes"].items():
            if n and cls not in allowed:
                pending_corr.append((case, "implementation issued %d mutating calls on class %s, which the model's run (%s) never touches" % (n, cls, m.get("run"))))
            if cls in allowed and not n and cls != "Tmp":
                pending_corr.append((case, "model expects mutating calls on class %s, implementation issued none" % cls))
        if run.get("transform") is not None:
            dirs, files = trace_profiles(res["per_tmp"])
            n = max(res["nspawn"] - 1, 0)
            exp_files = sorted(model_profiles(m.get("file")) * n)
            if dirs != [("mkdir", "rmdir")]:
                pending_corr.append((case, "temp dir life cycle in the trace: %r (model: created once, removed once)" % (dirs,)))
            if files != exp_files:
                pending_corr.append((case, "per-temp-path profiles of fclones' own mutating syscalls for %d transformed files: %r; model: %r" % (n, files[:8], exp_files[:8])))
            if res["nspawn"] < 1:
                pending_corr.append((case, "model: Transform::new probes the program; no spawn seen in the trace"))
            if not run.get("warm_second") and n == 0 and len([e for e in spec if e["t"] == "file"]) >= 2 \
                    and ("--cache" not in run.get("extra", []) or run.get("warm")):
                pending_corr.append((case, "no file was transformed although the tree has files (vacuous run)"))
            if run.get("warm_second") and n != 0:
                pending_corr.append((case, "cache warm: model says no transform runs for cached files, %d programs were started" % n))
    else:
        allowed = allowed_classes(m.get("run"))
        for cls, n in res["classes"].items():
            if n and cls not in allowed:
                pending_corr.append((case, "dry run issued %d mutating calls on class %s; model's dry run: %s" % (n, cls, m.get("run"))))
        if res["nspawn"]:
            pending_corr.append((case, "dry run started %d external programs" % res["nspawn"]))
        if res["rc"] != 0:
            pending_corr.append((case, "dry run failed: rc=%r %s" % (res["rc"], res["stderr"][-300:])))
        else:
            printed = res["stdout"]
            if "-o" in run["opts"]:
                nlines = None
            else:
                nlines = len([l for l in printed.split(b"\n") if l.strip()])
                ctx.bump("dry_run_printed_commands", min(nlines, 10))
    ctx.sample({"layer": "cli", "argv": [os.path.basename(res["argv"][0])] + [re.sub(r"^.*/job_\d+_\d+/", "<job>/", a) for a in res["argv"][1:]], "rc": res["rc"], "programs_started": res.get("nspawn"),
                "own_mutating_calls_by_class": res["classes"], "model": mline[:200]})


def run_job(args):
    base, spec, runs, fclones, root_style, mlines = args
    job = Job(base, spec, fclones, root_style)
    out = []
    for run, ml in zip(runs, mlines):
        if run.get("warm"):
            # first (cold) run fills the cache, the second must find every hash there
            r1 = job.execute(run)
            out.append((run, r1, ml))
            run2 = dict(run)
            run2["warm_second"] = True
            out.append((run2, job.execute(run2), ml))
        else:
            out.append((run, job.execute(run), ml))
    shutil.rmtree(base, ignore_errors=True)
    return out


def shrink(ctx, fclones, spec, run, kind, budget=24):
    """greedy: drop tree entries while the same kind of problem persists"""
    base = os.path.join(ctx.scratch, "shrink")
    cur = list(spec)

    def fails(s):
        try:
            job = Job(base, s, fclones, "abs")
            r = job.execute(run)
            return any(k.split(":")[0] == kind for k, _, _ in r["problems"])
        except Exception:
            return False

    i = len(cur) - 1
    while i >= 0 and budget > 0:
        e = cur[i]
        cand = cur[:i] + cur[i + 1:]
        # keep the tree well formed: do not drop something others depend on
        dep = any((x.get("to") == e["p"] and x["t"] == "hard") or
                  (x is not e and bytes.fromhex(x["p"]).startswith(bytes.fromhex(e["p"]) + b"/")) for x in cur)
        if not dep:
            budget -= 1
            if fails(cand):
                cur = cand
        i -= 1
    shutil.rmtree(base, ignore_errors=True)
    return cur


def fault_scenarios(ctx, fclones):
    """Environment faults around the private `$IN` copy and the launch of the transform program (model-free: inventory before /
    after, $TMPDIR empty afterwards).
      copy_fault:   a per-process file size limit (RLIMIT_FSIZE 16 KiB, SIGXFSZ ignored) makes every write beyond 16 KiB fail with
                    EFBIG, exactly like a full $TMPDIR: the private copy of a 64 KiB file cannot be made.  The transform programs
                    REWRITE their `$IN` (legitimate: without --no-copy it is a private copy).
      no_launch:    the program cannot be launched (missing; a file that is not executable; a bogus executable).
      cache_unusable: --cache with a cache home that is a regular file."""
    import resource
    import signal
    import subprocess

    def limited():
        signal.signal(signal.SIGXFSZ, signal.SIG_IGN)
        resource.setrlimit(resource.RLIMIT_FSIZE, (16384, 16384))

    for i in range(ctx.pick(6, 40)):
        rng = ctx.rng.fork()
        base = os.path.realpath(os.path.join(ctx.scratch, "fault%d" % i))
        shutil.rmtree(base, ignore_errors=True)
        root, tmpd, bind = os.path.join(base, "tree"), os.path.join(base, "tmp"), os.path.join(base, "bin")
        for d in (root, tmpd, bind, os.path.join(root, "sub")):
            os.makedirs(d)
        big = os.urandom(65536)
        small = b"small file\n" * 20
        for nm, data in (("a.bin", big), ("sub/b.bin", big), ("c.txt", small), ("sub/d.txt", small), ("e.bin", big[:-1] + b"x")):
            with open(os.path.join(root, nm), "wb") as f:
                f.write(data)
        os.link(os.path.join(root, "a.bin"), os.path.join(root, "sub", "a_hardlink.bin"))
        t0 = 1_600_000_000
        for k, (dp, dn, fn) in enumerate(sorted(os.walk(root))):
            for n in sorted(fn):
                os.utime(os.path.join(dp, n), (t0 + k, t0 + k))
        open(os.path.join(bind, "not_executable"), "w").write("#!/bin/sh\ncat\n")
        open(os.path.join(bind, "bogus_elf"), "wb").write(b"\x7fELF garbage")
        os.chmod(os.path.join(bind, "bogus_elf"), 0o755)
        kind = ["copy_fault", "no_launch", "cache_unusable"][i % 3]
        cache_env = {}
        if kind == "cache_unusable":
            # --cache whose database directory cannot be created / opened (the cache home is a regular FILE): whatever
            # fclones does then, nothing may be left in $TMPDIR and the tree stays as it is
            blocker = os.path.join(base, "cache_home_is_a_file")
            open(blocker, "w").write("not a directory\n")
            cache_env = {"XDG_CACHE_HOME": blocker, "HOME": blocker}
            cmd = rng.choice(["", "cat", "cat $IN"])
            flags = ["--cache"]
            pre = None
        elif kind == "copy_fault":
            cmd = rng.choice(["truncate -s 10 $IN", "sh -c 'echo tail >> $IN'", "sh -c 'echo x > $IN; cat $IN'", "cp /dev/null $IN"])
            flags = rng.choice([["--in-place"], ["--in-place"], []])
            pre = limited
        else:
            prog = rng.choice(["no_such_program_c07", os.path.join(bind, "not_executable"), os.path.join(bind, "bogus_elf")])
            cmd = prog + rng.choice([" $IN", "", " $IN $OUT"])
            flags = rng.choice([[], ["--in-place"], ["--cache"]]) if "$OUT" not in cmd else []
            if "$IN" not in cmd and "--in-place" in flags:
                flags = []
            pre = None
        argv = [fclones, "group", root] + (["--transform", cmd] if cmd else []) + flags + rng.choice([[], ["--threads", "1"]])
        env = dict(os.environ, TMPDIR=tmpd, HOME=base, XDG_CACHE_HOME=os.path.join(base, "cache"), NO_COLOR="1",
                   PATH=os.environ.get("PATH", "/usr/bin:/bin"))
        env.update(cache_env)
        before = inventory(root)
        try:
            p = subprocess.run(argv, env=env, cwd=base, stdout=subprocess.PIPE, stderr=subprocess.PIPE, timeout=120, preexec_fn=pre)
            rc, err = p.returncode, p.stderr.decode("utf-8", "replace")
        except subprocess.TimeoutExpired:
            rc, err = -9, "timeout"
        after = inventory(root)
        ctx.count()
        ctx.distinct(("c07fault", i, kind, cmd, tuple(flags)), True)
        ctx.bump("fault_scenario", kind + (" " + " ".join(flags) if flags else ""))
        payload = {"layer": "fault", "scenario": kind, "argv": argv[1:], "rlimit_fsize": 16384 if pre else None, "rc": rc, "stderr": err[-600:],
                   "tree": "a.bin = sub/b.bin (64 KiB) + hard link sub/a_hardlink.bin, e.bin (64 KiB, differs), c.txt = sub/d.txt (small)"}
        d = inv_diff(before, after)
        if d:
            payload["diff"] = d[:20]
            ctx.violation({"kind": "tree_modified", "aspect": d[0][0], "layer": "fault"},
                          "`fclones group --transform %r %s` under %s changed the scanned tree: %r" % (cmd, " ".join(flags), kind, d[:4]),
                          payload, found_input=True)
        left = sorted(os.listdir(tmpd))
        if left:
            payload["left_in_tmpdir"] = left[:10]
            ctx.violation({"kind": "temp_left_behind", "layer": "fault"},
                          "entries left in $TMPDIR after `fclones group --transform %r` (%s): %r" % (cmd, kind, left[:4]), payload, found_input=True)
        shutil.rmtree(base, ignore_errors=True)


def run(ctx):
    ctx.rule = ("(cli) generated trees (duplicates, hard links, symlinks incl. dangling and to directories, empty files, hostile names, old "
                "mtimes, mixed modes) x every transform I/O combination ($IN? $OUT? --in-place? --no-copy?) with commands that read / ignore / "
                "fail on their input (and, on the private COPY only, rewrite or truncate it) + plain group with cache / -o / format / link "
                "options + cache cold/warm pairs + every dedupe op (remove, link, link --soft, dedupe, move DIR) with --dry-run and sampled "
                "options; each run under strace -f with inventories before/after; (plan) 16 combinations x 18 command strings through "
                "GroupConfig::transform() + verif::plan + Transform::run vs the extracted model. A case = one run; non-trivial = the configuration "
                "is accepted (the run does work); distinct = distinct (tree, run spec)")
    ctx.assumptions = ["what the external transform program does with the paths it is handed is outside fclones (the commands used here never write "
                       "to a scanned file; with --no-copy the program IS handed the original: the documented exception, C07_no_copy_exception)",
                       "atime is not part of the inventory (files are opened O_NOATIME when permitted)",
                       "strace -f sees every syscall of every thread and child (the trace is the observation of `mutating call`)",
                       "removal calls issued by the Drops succeed (their results are ignored by the code); a create_dir_all of the temp dir that "
                       "fails half-way is excluded in C07_tmp_cleaned"]
    ctx.trusted.append("C07: strace 6 output parser and the attribution of tids to fclones / external program (clone edges, first successful execve) in "
                       "vlib/props/c07.py; python inventory (lstat + sha256); tokeniser of the command string duplicating transform.rs parse_command "
                       "(checked against the implementation's argument vector on every plan case); canonicalisation of temp names in harness/src/bin/ro.rs")
    ctx.use_coq()
    model = core.build_model("R")
    core.build_harness(["ro"])
    fclones = core.build_fclones()
    pending_corr = []

    table = core.run_lines(model, ["table"])[0].split(" ")
    ctx.extra["model_mode_table"] = table

    if ctx.replay:
        rp = json.load(open(ctx.replay))
        if rp.get("layer") == "plan":
            os.makedirs(os.path.join(ctx.scratch, "t"), exist_ok=True)
            fp = os.path.join(ctx.scratch, "t", "file")
            open(fp, "w").write("hello world")
            tmpd = os.path.join(ctx.scratch, "tmp")
            os.makedirs(tmpd, exist_ok=True)
            global PLAN_COMMANDS
            PLAN_COMMANDS = [rp["command"]]
            pending_corr += plan_correspondence(ctx, model, None, [fp], tmpd, False)
        else:
            job = Job(os.path.join(ctx.scratch, "replay"), rp["tree"], fclones, rp.get("root_style", "abs"))
            run_ = rp["run"]
            ml = model_plan(model, [run_])[0]
            if run_.get("warm_second"):
                job.execute(dict(run_, warm_second=False))
            res = job.execute(run_)
            judge(ctx, "replay", rp["tree"], run_, res, ml, pending_corr, job)
    else:
        # corpus of minimised past failures first
        cdir = os.path.join(core.VERIF, "corpus", "C07")
        for fn in sorted(os.listdir(cdir)) if os.path.isdir(cdir) else []:
            if fn.endswith(".json"):
                rp = json.load(open(os.path.join(cdir, fn)))
                job = Job(os.path.join(ctx.scratch, "corpus"), rp["tree"], fclones, rp.get("root_style", "abs"))
                ml = model_plan(model, [rp["run"]])[0]
                judge(ctx, "corpus:" + fn, rp["tree"], rp["run"], job.execute(rp["run"]), ml, pending_corr, job)
                ctx.bump("corpus_cases", fn)
        ntrees = ctx.pick(3, 20)
        cmds_per_mode = ctx.pick(3, 5)
        chunks_per_tree = ctx.pick(5, 2)
        jobs = []
        for t in range(ntrees):
            spec = gen_tree(ctx.rng, big=(t % 2 == 0))
            ctx.bump("tree_entries", "%d-%d" % (len(spec) // 5 * 5, len(spec) // 5 * 5 + 4))
            ctx.bump("tree_hardlinks", sum(1 for e in spec if e["t"] == "hard"))
            ctx.bump("tree_symlinks", sum(1 for e in spec if e["t"] == "sym"))
            runs = gen_runs(ctx.rng, not ctx.quick, cmds_per_mode)
            mlines = model_plan(model, runs)
            root_style = ["abs", "rel", "dot"][t % 3]
            ctx.bump("root_argument", root_style)
            idx = list(range(len(runs)))
            for c in range(chunks_per_tree):
                part = idx[c::chunks_per_tree]
                jobs.append((os.path.join(ctx.scratch, "job_%d_%d" % (t, c)), spec, [runs[i] for i in part], fclones, root_style,
                             [mlines[i] for i in part], t))
        with ThreadPoolExecutor(max_workers=core.NCPU) as ex:
            results = list(ex.map(lambda j: run_job(j[:6]), jobs))
        first_bad = {}
        for j, outs in zip(jobs, results):
            for run_, res, ml in outs:
                class J:       # judge only needs root_style of the job
                    root_style = j[4]
                judge(ctx, j[6], j[1], run_, res, ml, pending_corr, J)
                for kind, _, _ in res["problems"]:
                    first_bad.setdefault(kind.split(":")[0], (j[1], run_))
        # plan layer on a small tree of its own
        pbase = os.path.join(ctx.scratch, "plan")
        spec = gen_tree(ctx.rng, big=False)
        materialise(spec, os.path.join(pbase, "tree"))
        os.makedirs(os.path.join(pbase, "tmp"), exist_ok=True)
        files = [os.path.join(pbase, "tree", os.fsdecode(bytes.fromhex(e["p"]))) for e in spec if e["t"] == "file"]
        before = inventory(os.path.join(pbase, "tree"))
        pending_corr += plan_correspondence(ctx, model, os.path.join(pbase, "tree"), files, os.path.join(pbase, "tmp"), not ctx.quick)
        open(os.path.join(pbase, "blocker"), "w").write("not a directory\n")
        pending_corr += plan_correspondence(ctx, model, os.path.join(pbase, "tree"), files, os.path.join(pbase, "blocker", "t"), not ctx.quick, failmk=True)
        d = inv_diff(before, inventory(os.path.join(pbase, "tree")))
        if d:
            ctx.violation({"kind": "tree_modified", "aspect": d[0][0]}, "the tree changed while only Transform::new / plan / run were called: %r" % d[:5],
                          {"layer": "plan", "tree": spec, "diff": d[:40]}, found_input=True)
        if os.listdir(os.path.join(pbase, "tmp")):
            ctx.violation({"kind": "temp_left_behind"}, "entries left in $TMPDIR after the plan cases: %r" % os.listdir(os.path.join(pbase, "tmp"))[:5],
                          {"layer": "plan"}, found_input=True)
        fault_scenarios(ctx, fclones)
        # minimise the first concrete failing input of each kind (the replay written by ctx.violation is the unminimised one;
        # the minimised tree is stored next to it)
        for kind, (spec_, run_) in list(first_bad.items())[:3]:
            if kind in ("run_timeout", "unparsed_syscall"):
                continue
            try:
                small = shrink(ctx, fclones, spec_, run_, kind)
                ctx.write_replay("min_" + re.sub(r"[^A-Za-z0-9]+", "_", kind)[:40],
                                 {"layer": "cli", "tree": small, "run": run_, "root_style": "abs", "property": "C07", "minimised_for": kind,
                                  "entries": len(small), "from_entries": len(spec_)})
            except Exception as e:  # shrinking is best effort
                core.log("shrink failed: %r" % (e,))

    if pending_corr:
        have_input = any(v[3] for v in ctx.violations)
        case, why = pending_corr[0]
        c = dict(case)
        c["correspondence"] = why
        c["disagreements"] = len(pending_corr)
        c["all_reasons"] = sorted(set(w[:200] for _, w in pending_corr))[:20]
        if not have_input:
            ctx.violation({"kind": "model_mismatch"}, "model (coq/ReadOnlyModel.v) and implementation disagree: %s; no run explored changed the tree "
                          "or wrote under the scanned root" % why, c, found_input=False)
        else:
            core.log("model/implementation disagreement on %d cases (first: %s)" % (len(pending_corr), why[:300]))
    ctx.extra["exhaustive"] = False
    ctx.extra["correspondence_disagreements"] = len(pending_corr)
