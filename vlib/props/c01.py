"""C01 — reported groups contain only byte-identical files, printed length is that length (engine G).

Proof obligations: coq/Props_C01.v over the model coq/GroupModel.v (all file tables, configurations,
hash functions, nondeterminism records incl. read faults).  Correspondence: the extracted model must
reproduce the report body of `fclones::group_files` on generated trees, given the hash table of the
implementation's own FileHasher, and every table entry must equal a one-shot reference hash of exactly
the chunk bytes (64 KiB buffer boundaries included).  Direct oracle: byte comparison of all files of
every reported group (transform output under --transform).  A sample also goes through the CLI binary.
The class of the repaired defect K11 (suffix XOR cancelled the prefix hash, f4a00ae) stays targeted by a
dedicated generator and a corpus case.
"""
import json

from .. import core
from . import grp_common as G
from . import mounts_rt, midrun_rt


def cli_sample(ctx, eng, specs):
    """clap glue / report writer: the CLI binary with -f json must print the body group_files returned"""
    fbin = core.build_fclones()
    res = eng.run_specs(specs, keep=True)
    for r in res:
        ctx.count()
        ctx.bump("cli_layer", "run")
        api = G.parse_groups(r["out"]["impl"]) if not r["out"]["impl"].startswith(("ERR", "PANIC")) else None
        cli = G.run_cli(fbin, r["case"])
        import shutil
        shutil.rmtree(r["where"], ignore_errors=True)
        if api is None or isinstance(cli, str) or [(a, b, c) for a, b, c in api] != [(a, b, c) for a, b, c in cli]:
            ctx.violation({"kind": "cli_ne_api"}, "the fclones binary (-f json) and fclones::group_files disagree on the report body: "
                          "cli=%s api=%s" % (str(cli)[:300], str(api)[:300]),
                          G.replay_payload(r, {"cli_args": G.cli_args(r["case"])}), found_input=False)
    G.process_results(ctx, eng, res, do_search=False)


def run(ctx):
    ctx.rule = ("generated trees (1-3 content families x 1-3 single-byte variants, sizes from the stage-threshold table relative to the "
                "configured prefix P / suffix S / suffix threshold and the 64 KiB read buffer, hard links, file symlinks, 1-5 roots) x option "
                "product (7 hash functions, rf-over/rf-under/unique, isolate, match-links, max-prefix/suffix sizes, disk kind pin ssd/hdd/unknown, "
                "fake mounts, 6 transforms, thread specs, cache) + trees aimed at the repaired K11 class (suffix covers the whole file); one case = one tree + one option set, run through "
                "fclones::group_files and the extracted model; non-trivial = some group reported or two scanned files of equal length; "
                "distinct = distinct spec")
    ctx.assumptions = list(G.COMMON_ASSUMPTIONS)
    ctx.trusted += G.COMMON_TRUSTED
    ctx.use_coq()
    if ctx.replay:
        G.run_replay(ctx, "C01")
        return
    eng, _ = G.run_generated(ctx, "C01", ctx.pick(420, 6000))
    k11 = [G.gen_k11_spec(ctx.rng.fork()) for _ in range(ctx.pick(24, 300))]
    res = eng.run_specs(k11)
    for r in res:
        ctx.bump("k11_targeted", "hit" if any(b["kind"] == "group_not_identical" for b in r["oracle_bad"]) else "no-merge")
    G.process_results(ctx, eng, res)
    cli_sample(ctx, eng, [G.gen_spec(ctx.rng.fork(), "C01", small=True) for _ in range(ctx.pick(16, 200))])
    # cache history at the CLI level ("with or without the hash cache"): stale entries after an in-place rewrite
    G.cache_history_check(ctx, eng, ctx.pick(8, 80))

    # several file systems whose files share inode numbers (fresh tmpfs instances in a private mount namespace)
    mounts_rt.colliding_inodes_check(ctx, ctx.pick(6, 60), completeness=False)

    # an external writer hits a file at a precise point of a cached run; the next cached run must still be sound
    midrun_rt.midrun_overwrite_check(ctx, ctx.pick(30, 400))
    # a file system that returns short reads before EOF; a transform that failed in an earlier cached run
    midrun_rt.short_read_check(ctx, ctx.pick(24, 300))
    midrun_rt.failing_transform_cache_check(ctx, ctx.pick(12, 120))
    midrun_rt.cached_transform_length_check(ctx, ctx.pick(10, 100))
    midrun_rt.symlink_target_rewrite_cache_check(ctx, ctx.pick(10, 100))

    # transform dimension: `$IN` temp copies with equal base names in several directories on a multi-threaded sequential pool,
    # and programs that fail (exit status / killed by a signal, with and without partial output) for some of the files
    tr = [G.gen_in_transform_spec(ctx.rng.fork(), failing=(i % 2 == 1)) for i in range(ctx.pick(24, 300))]
    res = eng.run_specs(tr)
    for r in res:
        ctx.bump("transform_special", r["spec"]["opts"]["transform"].split(" ")[0] + ("" if "failsome" not in r["spec"]["opts"]["transform"] else ":" + r["spec"]["opts"]["transform"].split(" ")[1]))
    G.process_results(ctx, eng, res)
