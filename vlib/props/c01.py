"""C01 — reported groups contain only byte-identical files, printed length is that length (engine G).

Proof obligations: coq/Props_C01.v over the model coq/GroupModel.v (all file tables, configurations,
hash functions, nondeterminism records).  Correspondence: the model must reproduce the report body of
`fclones::group_files` on generated trees, given the hash table of the implementation's own FileHasher,
and every table entry must equal a one-shot reference hash of exactly the chunk bytes.  Direct oracle:
byte comparison of all files of every reported group (transform output under --transform).
"""
from . import grp_common as G


def run(ctx):
    ctx.rule = ("generated trees (1-3 content families x 1-3 single-byte variants, sizes from the stage-threshold table relative to the "
                "configured prefix P / suffix S / suffix threshold and the 64 KiB read buffer, hard links, file symlinks, 1-5 roots) x option "
                "product (7 hash functions, rf-over/rf-under/unique, isolate, match-links, max-prefix/suffix sizes, disk kind pin ssd/hdd/unknown, "
                "fake mounts, 6 transforms, thread specs, cache); one case = one tree + one option set, run through fclones::group_files and the "
                "extracted model; non-trivial = some group reported or two scanned files of equal length; distinct = distinct spec")
    ctx.assumptions = list(G.COMMON_ASSUMPTIONS)
    ctx.trusted += G.COMMON_TRUSTED
    ctx.use_coq()
    if ctx.replay:
        G.run_replay(ctx, "C01")
        return
    G.run_generated(ctx, "C01", ctx.pick(320, 5000))
