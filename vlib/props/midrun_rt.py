"""Directed dimension shared by C01 / C12: an external writer overwrites one file IN PLACE (same length, new mtime) at a
precise point of a `group --cache` run — before the k-th stat / open / read (the EOF read included) of that file, injected
by shim/rdshim.c (RDSHIM_ACTION=flip).  Whatever that first run reports, the NEXT `group --cache` run over the now
quiescent tree must report only byte-identical groups (C01) and exactly what an uncached run reports (C12): a cache entry
must never pair the hash of the old bytes with the stamp of the new ones."""
import hashlib
import os
import shutil

from .. import core, treegen


def _shim():
    shim = os.path.join(core.CACHE, "rdshim.so")
    src = os.path.join(core.VERIF, "shim", "rdshim.c")
    if not os.path.exists(shim) or os.path.getmtime(shim) < os.path.getmtime(src):
        core.run(["gcc", "-O1", "-shared", "-fPIC", "-o", shim + ".tmp%d" % os.getpid(), src, "-ldl"], check=True)
        os.replace(shim + ".tmp%d" % os.getpid(), shim)
    return shim


def midrun_overwrite_check(ctx, n):
    core.build_fclones()
    shim = _shim()
    for i in range(n):
        rng = ctx.rng.fork()
        base = os.path.join(ctx.scratch, "midrun%d" % i)
        root = os.path.join(base, "r")
        shutil.rmtree(base, ignore_errors=True)
        os.makedirs(root)
        size = rng.choice([1, 100, 4096, 5000, 70000, 140000])
        data = treegen.content(rng.next(), size)
        names = ["a/x1", "a/x2", "b/x3", "b/y1", "c/y2"]
        other = treegen.content(rng.next(), size)
        for k, nm in enumerate(names):
            p = os.path.join(root, nm)
            os.makedirs(os.path.dirname(p), exist_ok=True)
            with open(p, "wb") as f:
                f.write(data if nm.split("/")[1].startswith("x") else other)
            t = 1_600_000_000 + 1000 * k
            os.utime(p, (t, t))
        victim = os.path.join(root, rng.choice(names[:3]))
        nreads = max(1, (size + 65535) // 65536) + 1
        cache_home = os.path.join(base, "cache")
        opts = rng.choice([[], ["--hash-fn", "blake3"], ["--threads", "1"], ["--max-prefix-size", "1KiB"]])
        env0 = {"FCLONES_VERIF_DISK_KIND": rng.choice(["ssd", "hdd"]), "XDG_CACHE_HOME": cache_home, "HOME": cache_home}
        logf = os.path.join(base, "rdshim.log")
        call = rng.choice(["read", "read", "read", "stat", "open"])
        # counting pass (throw-away cache): how many matching calls does a run make on the victim?
        envc = dict(env0, XDG_CACHE_HOME=cache_home + "_count", HOME=cache_home + "_count", LD_PRELOAD=shim, RDSHIM_PATH=victim,
                    RDSHIM_CALL=call, RDSHIM_NTH="1000000000", RDSHIM_ACTION="flip", RDSHIM_LOG=logf)
        treegen.fclones(["group", root, "--cache", "-f", "json"] + opts, env=envc)
        total = len([l for l in open(logf).read().split("\n") if l.startswith(call + " ")]) if os.path.exists(logf) else 0
        shutil.rmtree(cache_home + "_count", ignore_errors=True)
        if os.path.exists(logf):
            os.remove(logf)
        # the last calls (EOF reads, the stat after the last read) matter most
        nth = max(1, total - rng.below(3)) if rng.chance(1, 2) else 1 + rng.below(max(1, total))
        env1 = dict(env0, LD_PRELOAD=shim, RDSHIM_PATH=victim, RDSHIM_CALL=call, RDSHIM_NTH=str(nth), RDSHIM_ACTION="flip", RDSHIM_LOG=logf)
        before = hashlib.sha256(open(victim, "rb").read()).hexdigest()
        rc1, out1, err1 = treegen.fclones(["group", root, "--cache", "-f", "json"] + opts, env=env1)
        after = hashlib.sha256(open(victim, "rb").read()).hexdigest()
        flipped = before != after
        ctx.count()
        ctx.distinct(("midrun", i, call, nth, size), flipped)
        ctx.bump("midrun_overwrite", "%s:%s" % (call, "delivered" if flipped else "not_reached"))
        payload = {"scenario": "in-place overwrite of %s before its %s #%d during `group --cache`, then `group --cache` again" % (victim, call, nth),
                   "size": size, "opts": opts, "env": {k: v for k, v in env1.items() if k.startswith(("RDSHIM", "LD_", "FCLONES"))},
                   "first_run_rc": rc1, "first_run_stderr": err1.decode("utf-8", "replace")[-400:]}
        if rc1 != 0:
            ctx.violation({"kind": "run_failed", "dimension": "midrun_overwrite"}, "group --cache failed while a file was rewritten", payload, found_input=True)
            continue
        rc2, out2, err2 = treegen.fclones(["group", root, "--cache", "-f", "json"] + opts, env=env0)
        rc3, out3, err3 = treegen.fclones(["group", root, "-f", "json"] + opts, env=env0)
        if rc2 != 0 or rc3 != 0:
            ctx.violation({"kind": "run_failed", "dimension": "midrun_overwrite"}, "group failed on the quiescent tree", payload, found_input=True)
            continue
        _, g2 = treegen.parse_json_report(out2.decode("utf-8"))
        _, g3 = treegen.parse_json_report(out3.decode("utf-8"))
        payload["cached_groups"] = [[p.decode() for p in g["files"]] for g in g2]
        payload["uncached_groups"] = [[p.decode() for p in g["files"]] for g in g3]
        for g in g2:
            shas = {hashlib.sha256(open(p, "rb").read()).hexdigest() for p in g["files"]}
            if len(shas) > 1:
                ctx.violation({"kind": "group_not_identical", "dimension": "midrun_overwrite"},
                              "after an in-place overwrite during the previous cached run, `group --cache` on the quiescent tree reports files "
                              "with different content as duplicates", payload, found_input=True)
                break
        if treegen.partition_key(g2) != treegen.partition_key(g3):
            ctx.violation({"kind": "cached_ne_uncached", "dimension": "midrun_overwrite"},
                          "after an in-place overwrite during the previous cached run, `group --cache` differs from the uncached run on the "
                          "quiescent tree", payload, found_input=True)
        shutil.rmtree(base, ignore_errors=True)


def restore_older_check(ctx, n):
    """C03 with the cache: after a cached run some files are rewritten in place (same length) so that they JOIN or LEAVE a
    content class, with an mtime that is older / newer / in the same second; the next cached run must report exactly the
    qualifying content classes of the tree as it is now (byte-level oracle), nothing missing, nothing stale."""
    core.build_fclones()
    for i in range(n):
        rng = ctx.rng.fork()
        base = os.path.join(ctx.scratch, "restore%d" % i)
        root = os.path.join(base, "r")
        shutil.rmtree(base, ignore_errors=True)
        os.makedirs(root)
        size = rng.choice([1, 100, 4096, 5000, 70000, 140000])
        A, B, C = (treegen.content(rng.next(), size) for _ in range(3))
        if size > 8 and rng.chance(1, 2):
            # B shares a long prefix and suffix with A
            b = bytearray(A)
            b[size // 2] ^= 0x21
            B = bytes(b)
        files = {"a/x1": A, "a/x2": A, "b/x3": A, "b/y1": B, "c/y2": B, "c/z1": C}
        t0 = 1_600_000_000
        for k, (nm, d) in enumerate(files.items()):
            p = os.path.join(root, nm)
            os.makedirs(os.path.dirname(p), exist_ok=True)
            with open(p, "wb") as f:
                f.write(d)
            os.utime(p, (t0 + 1000 * k + 0.25, t0 + 1000 * k + 0.25))
        cache_home = os.path.join(base, "cache")
        opts = rng.choice([[], ["--hash-fn", "sha256"], ["--threads", "1"], ["--max-prefix-size", "1KiB"], ["--rf-over", "0"]])
        env0 = {"FCLONES_VERIF_DISK_KIND": rng.choice(["ssd", "hdd"]), "XDG_CACHE_HOME": cache_home, "HOME": cache_home}
        rc1, out1, err1 = treegen.fclones(["group", root, "--cache", "-f", "json"] + opts, env=env0)
        edits = []
        for nm, newdata in rng.shuffle([("c/z1", A), ("b/y1", A), ("b/x3", C), ("a/x2", B)])[:1 + rng.below(3)]:
            p = os.path.join(root, nm)
            old = os.stat(p).st_mtime_ns
            how = rng.choice(["older", "much_older", "newer", "same_second"])
            with open(p, "r+b") as f:      # in place: the inode is kept
                f.write(newdata)
            new = {"older": old - 100 * 10**9, "much_older": old - 400 * 86400 * 10**9, "newer": old + 100 * 10**9,
                   "same_second": old + 500 * 10**6}[how]
            os.utime(p, ns=(new, new))
            files[nm] = newdata
            edits.append([nm, how])
        rc2, out2, err2 = treegen.fclones(["group", root, "--cache", "-f", "json"] + opts, env=env0)
        ctx.count()
        ctx.distinct(("restore", i, size, tuple(map(tuple, edits)), tuple(opts)), True)
        for _, how in edits:
            ctx.bump("cache_restore_edit", how)
        payload = {"scenario": "group --cache; in-place same-length rewrites %s; group --cache" % edits, "size": size, "opts": opts,
                   "layout": "x1 x2 x3 = A, y1 y2 = B, z1 = C before the edits"}
        if rc1 != 0 or rc2 != 0:
            ctx.violation({"kind": "run_failed", "dimension": "cache_restore"}, "group --cache failed", payload, found_input=True)
            continue
        _, g2 = treegen.parse_json_report(out2.decode("utf-8"))
        rf = 0 if "--rf-over" in opts else 1
        classes = {}
        for nm, d in files.items():
            classes.setdefault(hashlib.sha256(d).hexdigest(), []).append(os.path.join(root, nm).encode())
        want = sorted((size, tuple(sorted(ps))) for ps in classes.values() if len(ps) > rf)
        got = treegen.partition_key(g2)
        if want != got:
            payload["expected"] = [[p.decode() for p in ps] for _, ps in want]
            payload["reported"] = [[p.decode() for p in ps] for _, ps in got]
            ctx.violation({"kind": "partition_wrong", "dimension": "cache_restore"},
                          "after in-place rewrites with a changed mtime the cached run does not report the content classes of the current tree",
                          payload, found_input=True)
        shutil.rmtree(base, ignore_errors=True)


def short_read_check(ctx, n):
    """C01 / C03 on a file system that delivers SHORT READS before EOF (9p, FUSE direct_io, network file systems): every read()
    on a regular file returns at most `cap` bytes (shim/rdshim.c RDSHIM_SHORT).  The groups must be byte-identical and the
    partition must equal the one of the run without the cap."""
    core.build_fclones()
    shim = _shim()
    for i in range(n):
        rng = ctx.rng.fork()
        base = os.path.join(ctx.scratch, "short%d" % i)
        root = os.path.join(base, "r")
        shutil.rmtree(base, ignore_errors=True)
        os.makedirs(root)
        size = rng.choice([5000, 70000, 140000, 300000])
        A = treegen.content(rng.next(), size)
        files = {"a/x1": A, "b/x2": A}
        # same length, first difference at various offsets (beyond the first short read, in the last buffer, in the last byte)
        for k, off in enumerate([size - 1, size // 2 + 7, min(size - 1, 65536 + 11), max(0, size - 4096 - 3)]):
            b = bytearray(A)
            b[off] ^= 0x10 + k
            files["c/y%d" % k] = bytes(b)
        for nm, d in files.items():
            p = os.path.join(root, nm)
            os.makedirs(os.path.dirname(p), exist_ok=True)
            with open(p, "wb") as f:
                f.write(d)
        cap = rng.choice([1000, 4095, 4096, 65512, 65536, 100000])
        opts = rng.choice([[], ["--hash-fn", "blake3"], ["--threads", "1"], ["--max-prefix-size", "1KiB"], ["--rf-over", "0"],
                           ["--max-suffix-size", "1KiB"], ["--transform", "cat"]])
        env0 = {"FCLONES_VERIF_DISK_KIND": rng.choice(["ssd", "hdd"])}
        rc0, out0, err0 = treegen.fclones(["group", root, "-f", "json"] + opts, env=env0)
        rc1, out1, err1 = treegen.fclones(["group", root, "-f", "json"] + opts, env=dict(env0, LD_PRELOAD=shim, RDSHIM_SHORT=str(cap)))
        ctx.count()
        ctx.distinct(("short", i, size, cap, tuple(opts)), True)
        ctx.bump("short_read_cap", cap)
        payload = {"scenario": "every read() on a regular file returns at most %d bytes" % cap, "size": size, "opts": opts,
                   "files": "x1 = x2; y0..y3 differ from x1 in one byte (last byte, middle, after 64 KiB, 4 KiB before the end)",
                   "replay": "LD_PRELOAD=%s RDSHIM_SHORT=%d fclones group %s %s" % (shim, cap, root, " ".join(opts)),
                   "stderr": err1.decode("utf-8", "replace")[-400:]}
        if rc0 != 0 or rc1 != 0:
            ctx.violation({"kind": "run_failed", "dimension": "short_reads"}, "fclones group failed (rc %d / %d)" % (rc0, rc1), payload, found_input=True)
            continue
        _, g0 = treegen.parse_json_report(out0.decode("utf-8"))
        _, g1 = treegen.parse_json_report(out1.decode("utf-8"))
        payload["groups_with_short_reads"] = [[p.decode() for p in g["files"]] for g in g1]
        for g in g1:
            if len({hashlib.sha256(open(p, "rb").read()).hexdigest() for p in g["files"]}) > 1:
                ctx.violation({"kind": "group_not_identical", "dimension": "short_reads"},
                              "with short reads files of different content are reported as duplicates", payload, found_input=True)
                break
        if treegen.partition_key(g0) != treegen.partition_key(g1):
            ctx.violation({"kind": "partition_differs", "dimension": "short_reads"},
                          "the reported groups depend on how many bytes a read() returns", payload, found_input=True)
        shutil.rmtree(base, ignore_errors=True)


def failing_transform_cache_check(ctx, n):
    """C01 with cache + transform: the transform program FAILS for every file in the first cached run (flag file present) and
    works in the second; nothing a failed run produced may be served later: the second cached run is byte-sound on the
    transform output and equals the uncached run."""
    core.build_fclones()
    for i in range(n):
        rng = ctx.rng.fork()
        base = os.path.join(ctx.scratch, "ftc%d" % i)
        root = os.path.join(base, "r")
        shutil.rmtree(base, ignore_errors=True)
        os.makedirs(root)
        flag = os.path.join(base, "broken.flag")
        prog = os.path.join(base, "ftc_tr.sh")     # fclones probes the program by its bare name: the directory goes on PATH
        mode = rng.choice(["exit1_none", "exit1_partial", "kill_partial"])
        with open(prog, "w") as f:
            f.write("#!/bin/sh\nif [ -e %s ]; then %s fi\nexec cat\n" % (
                flag, {"exit1_none": "cat >/dev/null; exit 1;", "exit1_partial": "head -c 3; cat >/dev/null; exit 1;",
                       "kill_partial": "head -c 3; kill -9 $$;"}[mode]))
        os.chmod(prog, 0o755)
        size = rng.choice([10, 5000, 70000])
        conts = [treegen.content(rng.next(), size) for _ in range(3)]
        names = ["a/p1", "a/p2", "b/q1", "b/q2", "c/r1"]
        for k, nm in enumerate(names):
            p = os.path.join(root, nm)
            os.makedirs(os.path.dirname(p), exist_ok=True)
            with open(p, "wb") as f:
                f.write(conts[k // 2])
        cache_home = os.path.join(base, "cache")
        env0 = {"FCLONES_VERIF_DISK_KIND": "ssd", "XDG_CACHE_HOME": cache_home, "HOME": cache_home,
                "PATH": base + ":" + os.environ.get("PATH", "")}
        opts = ["--transform", "ftc_tr.sh"] + rng.choice([[], ["--rf-over", "0"], ["--threads", "1"]])
        open(flag, "w").close()
        rc1, _, err1 = treegen.fclones(["group", root, "--cache", "-f", "json"] + opts, env=env0)
        os.remove(flag)
        rc2, out2, err2 = treegen.fclones(["group", root, "--cache", "-f", "json"] + opts, env=env0)
        rc3, out3, err3 = treegen.fclones(["group", root, "-f", "json"] + opts, env=env0)
        ctx.count()
        ctx.distinct(("ftc", i, mode, size, tuple(opts[2:])), True)
        ctx.bump("failing_transform_then_cached", mode)
        payload = {"scenario": "run 1: --cache, transform fails for every file (%s); run 2: --cache, transform = cat" % mode, "size": size,
                   "opts": opts, "stderr_run2": err2.decode("utf-8", "replace")[-400:]}
        if rc1 != 0 or rc2 != 0 or rc3 != 0:
            ctx.violation({"kind": "run_failed", "dimension": "failing_transform_cache"}, "fclones group failed (%d %d %d)" % (rc1, rc2, rc3), payload, found_input=True)
            continue
        _, g2 = treegen.parse_json_report(out2.decode("utf-8"))
        _, g3 = treegen.parse_json_report(out3.decode("utf-8"))
        payload["cached_groups"] = [[g["len"]] + [p.decode() for p in g["files"]] for g in g2]
        payload["uncached_groups"] = [[g["len"]] + [p.decode() for p in g["files"]] for g in g3]
        for g in g2:
            datas = {open(p, "rb").read() for p in g["files"]}
            if len(datas) > 1 or any(len(d) != g["len"] for d in datas):
                ctx.violation({"kind": "group_not_identical", "dimension": "failing_transform_cache"},
                              "after a run in which the transform failed, the cached run groups files with different transform output / prints a wrong length",
                              payload, found_input=True)
                break
        if treegen.partition_key(g2) != treegen.partition_key(g3):
            ctx.violation({"kind": "cached_ne_uncached", "dimension": "failing_transform_cache"},
                          "after a run in which the transform failed, `group --cache` differs from the uncached run", payload, found_input=True)
        shutil.rmtree(base, ignore_errors=True)


def cached_transform_length_check(ctx, n):
    """C01 with cache + a LENGTH-CHANGING transform (`head -c N`): the length printed for a group is the length of the transform
    output in the first (cold) cached run, in the second (warm) cached run and without the cache, and the groups are the same."""
    core.build_fclones()
    for i in range(n):
        rng = ctx.rng.fork()
        base = os.path.join(ctx.scratch, "ctl%d" % i)
        root = os.path.join(base, "r")
        shutil.rmtree(base, ignore_errors=True)
        os.makedirs(root)
        keep = rng.choice([5, 100, 4096])
        heads = [treegen.content(rng.next(), keep) for _ in range(2)]
        for k in range(5 + rng.below(4)):
            with open(os.path.join(root, "f%d" % k), "wb") as f:
                f.write(heads[k % 2] + treegen.content(rng.next(), 10 + 37 * k))        # equal heads, different lengths on disk
        cache_home = os.path.join(base, "cache")
        env0 = {"FCLONES_VERIF_DISK_KIND": rng.choice(["ssd", "hdd"]), "XDG_CACHE_HOME": cache_home, "HOME": cache_home}
        opts = ["--transform", "head -c %d" % keep] + rng.choice([[], ["--rf-over", "0"], ["--threads", "1"]])
        runs = []
        for extra in (["--cache"], ["--cache"], []):
            rc, out, err = treegen.fclones(["group", root, "-f", "json"] + extra + opts, env=env0)
            runs.append((rc, out, err))
        ctx.count()
        ctx.distinct(("ctl", i, keep, tuple(opts[2:])), True)
        ctx.bump("cached_length_changing_transform", "head -c %d" % keep)
        payload = {"scenario": "group --transform 'head -c %d' over files of different lengths: cold cached, warm cached, uncached" % keep, "opts": opts}
        if any(r[0] != 0 for r in runs):
            ctx.violation({"kind": "run_failed", "dimension": "cached_transform_length"}, "fclones group failed %r" % [r[0] for r in runs], payload, found_input=True)
            continue
        gs = [treegen.parse_json_report(r[1].decode("utf-8"))[1] for r in runs]
        keyed = [sorted((g["len"], tuple(sorted(g["files"]))) for g in g_) for g_ in gs]
        payload["groups"] = [[[l, [p.decode() for p in fs]] for l, fs in k_] for k_ in keyed]
        for name, g_ in zip(("cold cached", "warm cached", "uncached"), gs):
            for g in g_:
                outs = {open(p, "rb").read()[:keep] for p in g["files"]}
                if len(outs) > 1 or any(len(o) != g["len"] for o in outs):
                    ctx.violation({"kind": "group_not_identical", "dimension": "cached_transform_length"},
                                  "%s run: a group's printed length %d is not the length of its members' transform output (%s)" % (
                                      name, g["len"], sorted(len(o) for o in outs)), payload, found_input=True)
                    break
        if keyed[1] != keyed[2] or keyed[0] != keyed[2]:
            ctx.violation({"kind": "cached_ne_uncached", "dimension": "cached_transform_length"},
                          "the cached runs of a length-changing transform differ from the uncached run (groups or printed lengths)", payload, found_input=True)
        shutil.rmtree(base, ignore_errors=True)


def symlink_target_rewrite_cache_check(ctx, n):
    """C01 with `-S --cache`: the scanned directory holds symbolic links to files OUTSIDE it; between two cached runs one target is
    overwritten in place (same length, other bytes, ordinary write => newer mtime).  The entry cached for the link describes the
    TARGET's data, so it must be validated against the target's metadata: the second run is byte-sound through the links and equals
    the uncached run."""
    import time
    core.build_fclones()
    for i in range(n):
        rng = ctx.rng.fork()
        base = os.path.join(ctx.scratch, "slc%d" % i)
        shutil.rmtree(base, ignore_errors=True)
        links, outd = os.path.join(base, "links"), os.path.join(base, "outside")
        os.makedirs(links)
        os.makedirs(outd)
        size = rng.choice([100, 20000, 70000])
        data = treegen.content(rng.next(), size)
        nt = 2 + rng.below(3)
        for k in range(nt):
            t = os.path.join(outd, "t%d" % k)
            with open(t, "wb") as f:
                f.write(data)
            os.utime(t, (1_600_000_000 + k, 1_600_000_000 + k))
            os.symlink(t if rng.chance(1, 2) else os.path.relpath(t, links), os.path.join(links, "l%d" % k))
        cache_home = os.path.join(base, "cache")
        env0 = {"FCLONES_VERIF_DISK_KIND": "ssd", "XDG_CACHE_HOME": cache_home, "HOME": cache_home}
        opts = ["-S"] + rng.choice([[], ["--threads", "1"], ["--hash-fn", "blake3"]])
        rc1, out1, _ = treegen.fclones(["group", links, "--cache", "-f", "json"] + opts, env=env0)
        victim = os.path.join(outd, "t%d" % rng.below(nt))
        pos = rng.choice([0, size // 2, size - 1])
        with open(victim, "r+b") as f:
            f.seek(pos)
            f.write(bytes([data[pos] ^ 0x5A]))
        now = time.time()
        os.utime(victim, (now, now))
        rc2, out2, err2 = treegen.fclones(["group", links, "--cache", "-f", "json"] + opts, env=env0)
        rc3, out3, _ = treegen.fclones(["group", links, "-f", "json"] + opts, env=env0)
        ctx.count()
        ctx.distinct(("slc", i, size, pos, tuple(opts)), True)
        ctx.bump("symlink_target_rewritten_between_cached_runs", "byte %s" % ("first" if pos == 0 else "last" if pos == size - 1 else "middle"))
        payload = {"scenario": "links/l* -> outside/t* (equal), group -S --cache; one target overwritten in place (same length, newer mtime); "
                               "group -S --cache again", "rewritten": victim, "opts": opts, "stderr_run2": err2.decode("utf-8", "replace")[-300:]}
        if rc1 != 0 or rc2 != 0 or rc3 != 0:
            ctx.violation({"kind": "run_failed", "dimension": "symlink_cache"}, "fclones group failed (%d %d %d)" % (rc1, rc2, rc3), payload, found_input=True)
            continue
        g2 = treegen.parse_json_report(out2.decode("utf-8"))[1]
        g3 = treegen.parse_json_report(out3.decode("utf-8"))[1]
        payload["cached_groups"] = [[p.decode() for p in g["files"]] for g in g2]
        for g in g2:
            if len({open(p, "rb").read() for p in g["files"]}) > 1:
                ctx.violation({"kind": "group_not_identical", "dimension": "symlink_cache"},
                              "after a target was rewritten the cached -S run still groups its link with links to other bytes", payload, found_input=True)
                break
        if treegen.partition_key(g2) != treegen.partition_key(g3):
            ctx.violation({"kind": "cached_ne_uncached", "dimension": "symlink_cache"}, "cached -S run differs from the uncached one", payload, found_input=True)
        shutil.rmtree(base, ignore_errors=True)


def persistent_failing_transform_cache_check(ctx, n):
    """C15 with cache + transform: the program (`P $IN --no-copy`) fails for the files named bad* in EVERY run.  In the first and in
    the second cached run those files are left out (never listed), the others are grouped as without them."""
    core.build_fclones()
    for i in range(n):
        rng = ctx.rng.fork()
        base = os.path.join(ctx.scratch, "pft%d" % i)
        root = os.path.join(base, "r")
        shutil.rmtree(base, ignore_errors=True)
        os.makedirs(root)
        prog = os.path.join(base, "pft_tr.sh")
        mode = rng.choice(["none", "partial"])
        with open(prog, "w") as f:
            f.write("#!/bin/sh\ncase \"$(basename \"$1\")\" in bad*) %sexit 1;; esac\ncat \"$1\"\n" % ("head -c 3 \"$1\"; " if mode == "partial" else ""))
        os.chmod(prog, 0o755)
        size = rng.choice([10, 5000])
        data = treegen.content(rng.next(), size)
        good, bad = [], []
        for k in range(3 + rng.below(3)):
            p = os.path.join(root, "good%d" % k)
            with open(p, "wb") as f:
                f.write(data)
            good.append(p)
        for k in range(2 + rng.below(3)):
            p = os.path.join(root, "bad%d" % k)
            with open(p, "wb") as f:
                f.write(data)
            bad.append(p)
        cache_home = os.path.join(base, "cache")
        env0 = {"FCLONES_VERIF_DISK_KIND": "ssd", "XDG_CACHE_HOME": cache_home, "HOME": cache_home, "PATH": base + ":" + os.environ.get("PATH", "")}
        opts = ["--transform", "pft_tr.sh $IN", "--no-copy", "--cache"] + rng.choice([[], ["--rf-over", "0"], ["--threads", "1"]])
        for run in (1, 2):
            rc, out, err = treegen.fclones(["group", root, "-f", "json"] + opts, env=env0)
            ctx.count()
            payload = {"scenario": "transform fails (%s output) for the files named bad* in every run; cached run %d" % (mode, run), "opts": opts,
                       "stderr": err.decode("utf-8", "replace")[-400:]}
            if rc != 0:
                ctx.violation({"kind": "run_failed_under_fault", "scenario": "persistent_failing_transform"}, "fclones group exited %d" % rc, payload, found_input=True)
                break
            groups = treegen.parse_json_report(out.decode("utf-8"))[1]
            listed = {p.decode() for g in groups for p in g["files"]}
            payload["reported"] = [[p.decode() for p in g["files"]] for g in groups]
            if listed & set(bad):
                ctx.violation({"kind": "unreadable_file_reported", "scenario": "persistent_failing_transform"},
                              "cached run %d lists files whose transform failed: %s" % (run, sorted(listed & set(bad))[:3]), payload, found_input=True)
                break
            if not any(set(good) <= {p.decode() for p in g["files"]} for g in groups):
                ctx.violation({"kind": "other_files_dropped", "scenario": "persistent_failing_transform"},
                              "cached run %d: the files whose transform works are not reported as one group" % run, payload, found_input=True)
                break
        ctx.distinct(("pft", i, mode, size, tuple(opts[4:])), True)
        ctx.bump("directed_faults", "persistent_failing_transform+cache(%s)" % mode)
        shutil.rmtree(base, ignore_errors=True)
