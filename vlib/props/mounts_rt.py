"""Directed dimension shared by C01 / C03: trees that span several FRESH tmpfs instances (private mount namespace), whose
files have pairwise EQUAL inode numbers but different st_dev, all on one DiskDevice of fclones.  Anything in the pipeline that
identifies a file by its inode number alone (hard-link detection, one hash per file id, cache keys) confuses different files.
Model-free oracle: byte identity inside every group (C01), classes complete and reported iff they qualify (C03)."""
import json
import os
import subprocess
import sys

from .. import core


def available():
    try:
        r = subprocess.run(["unshare", "-m", "true"], stdout=subprocess.PIPE, stderr=subprocess.PIPE, timeout=20)
        return r.returncode == 0
    except Exception:   # noqa
        return False


def colliding_inodes_check(ctx, n, completeness):
    if not available():
        ctx.bump("colliding_inodes", "skipped(no mount namespace)")
        return
    exe = os.path.join(core.BIN, "fclones")
    scratch = os.path.join(ctx.scratch, "mnts")
    os.makedirs(scratch, exist_ok=True)
    helper = os.path.join(core.VERIF, "vlib", "mounts_helper.py")
    seed = ctx.rng.fork().next()
    p = subprocess.run(["unshare", "-m", sys.executable, helper, scratch, exe, str(seed), str(n)],
                       stdout=subprocess.PIPE, stderr=subprocess.PIPE, timeout=1800)
    lines = [l for l in p.stdout.decode().split("\n") if l.strip()]
    if p.returncode != 0 and not lines:
        raise RuntimeError("mounts_helper failed: " + p.stderr.decode()[-500:])
    for l in lines:
        r = json.loads(l)
        if "error" in r:
            ctx.bump("colliding_inodes", "skipped(%s)" % r["error"])
            return
        ctx.count()
        files = {f["path"]: f for f in r["files"]}
        collide = len({(f["ino"]) for f in r["files"]}) < len({(f["dev"], f["ino"]) for f in r["files"]})
        ctx.distinct(("mnt", seed, r["scenario"], tuple(r["opts"]), tuple(r["mounts"])), collide)
        ctx.bump("colliding_inodes", "run" if collide else "run(no collision)")
        payload = {"scenario": "files on %d fresh tmpfs mounts with equal inode numbers" % len(r["mounts"]), "opts": r["opts"],
                   "roots": r["mounts"], "disk_kind": r["disk_kind"], "files": [[f["path"], f["dev"], f["ino"], f["len"], f["sha"][:12]] for f in r["files"]],
                   "groups": r["groups"], "stderr": r["stderr"],
                   "replay": "unshare -m python3 %s <scratch> %s %d %d" % (helper, exe, seed, n)}
        if r["rc"] != 0 or r["groups"] is None:
            ctx.violation({"kind": "run_failed", "dimension": "colliding_inodes"}, "fclones group failed (rc %s)" % r["rc"], payload, found_input=True)
            continue
        seen = set()
        for g in r["groups"]:
            shas = {files[p_]["sha"] for p_ in g["files"] if p_ in files}
            lens = {files[p_]["len"] for p_ in g["files"] if p_ in files}
            if len(shas) > 1 or lens != {g["len"]}:
                ctx.violation({"kind": "group_not_identical", "dimension": "colliding_inodes"},
                              "a reported group holds files with different content (files of different file systems share an inode number): %s" % g["files"],
                              payload, found_input=True)
            for p_ in g["files"]:
                if p_ in seen or p_ not in files:
                    ctx.violation({"kind": "path_twice_or_unknown", "dimension": "colliding_inodes"}, "path %s listed twice / not scanned" % p_, payload, found_input=True)
                seen.add(p_)
        if completeness:
            rf = int(r["opts"][r["opts"].index("--rf-over") + 1])
            ml = "--match-links" in r["opts"]
            classes = {}
            for f in r["files"]:
                classes.setdefault(f["sha"], []).append(f)
            want = sorted(tuple(sorted(f["path"] for f in fs)) for fs in classes.values()
                          if (len(fs) if ml else len({(f["dev"], f["ino"]) for f in fs})) > rf)
            got = sorted(tuple(sorted(g["files"])) for g in r["groups"])
            if want != got:
                payload["expected_groups"] = want
                ctx.violation({"kind": "partition_wrong", "dimension": "colliding_inodes"},
                              "the reported groups are not the qualifying content classes (expected %d groups, got %d)" % (len(want), len(got)),
                              payload, found_input=True)


def stale_member_colliding_inodes_check(ctx, n):
    """C04 across file systems: a group whose members live on different fresh tmpfs instances and share an inode NUMBER; one
    member is rewritten in place (same length, ordinary write => newer mtime) after `group`.  Every dedupe command must
    skip the group: the rewritten file stays as it is and no content (the new one, the group's old one) is lost."""
    if not available():
        ctx.bump("stale_colliding_inodes", "skipped(no mount namespace)")
        return
    exe = os.path.join(core.BIN, "fclones")
    scratch = os.path.join(ctx.scratch, "mnts_stale")
    os.makedirs(scratch, exist_ok=True)
    helper = os.path.join(core.VERIF, "vlib", "mounts_helper.py")
    seed = ctx.rng.fork().next()
    p = subprocess.run(["unshare", "-m", sys.executable, helper, scratch, exe, str(seed), str(n), "stale"],
                       stdout=subprocess.PIPE, stderr=subprocess.PIPE, timeout=1800)
    lines = [l for l in p.stdout.decode().split("\n") if l.strip()]
    if p.returncode != 0 and not lines:
        raise RuntimeError("mounts_helper failed: " + p.stderr.decode()[-500:])
    for l in lines:
        r = json.loads(l)
        if "error" in r or "skipped" in r:
            ctx.bump("stale_colliding_inodes", "skipped(%s)" % (r.get("error") or r.get("skipped")))
            continue
        ctx.count()
        ctx.distinct(("mnt_stale", seed, r["scenario"]), True)
        ctx.bump("stale_colliding_inodes", " ".join(["move DIR"] if r.get("op", [""])[0] == "move" else r.get("op", ["group failed"])[:3]) + " victim#%s" % r.get("victim_index"))
        payload = {"scenario": "a member of a group spanning fresh tmpfs mounts (equal inode numbers) rewritten after `group`",
                   "op": r.get("op"), "victim": r.get("victim"), "group": r.get("group"), "stderr": r.get("stderr"),
                   "files": [[f["path"], f["dev"], f["ino"]] for f in r.get("files", [])],
                   "replay": "unshare -m python3 %s <scratch> %s %d %d stale" % (helper, exe, seed, n)}
        if r.get("stage") == "group":
            ctx.violation({"kind": "run_failed", "dimension": "stale_colliding_inodes"}, "fclones group failed", payload, found_input=True)
            continue
        b, a = r["before"], r["after"]
        v = r["victim"]
        sha_b = {e[1] for e in b.values() if e[0] == "f"}
        sha_a = {e[1] for e in a.values() if e[0] == "f"}
        payload["changed"] = sorted(p_ for p_ in b if a.get(p_) != b[p_])[:10]
        if a.get(v) != b[v]:
            ctx.violation({"kind": "changed_data_lost", "dimension": "stale_colliding_inodes"},
                          "the file rewritten after `group` was %s by `fclones %s` (its group must be skipped)" % (
                              "removed" if v not in a else "replaced", " ".join(r["op"][:2])), payload, found_input=True)
        elif sha_b - sha_a:
            ctx.violation({"kind": "retained_content_lost", "dimension": "stale_colliding_inodes"},
                          "a content that existed before `fclones %s` is stored in no regular file afterwards although a member of "
                          "its group had changed" % " ".join(r["op"][:2]), payload, found_input=True)
        elif any(a.get(p_) != b[p_] for p_ in r["group"]):
            ctx.violation({"kind": "stale_group_processed", "dimension": "stale_colliding_inodes"},
                          "a group with a member modified after the report was processed", payload, found_input=True)
