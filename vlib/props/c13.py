"""C13 — results are deterministic and independent of performance settings (engines G, S).

Proof obligations: coq/Props_C13.v (permutation/schedule independence of the grouping model).
Runtime tie: the freshly built binary is re-run on generated trees under every thread-pool
specification, root permutation, --stdin, repeated runs (bodies must be IDENTICAL) and under every
hash function / prefix / suffix size / device kind / fake multi-device layout / cache setting
(PARTITIONS must be identical); every run must terminate within a hard time-out.
"""
import os

from .. import core, treegen
from . import grp_common

HASH_FNS = ["metro", "xxhash", "blake3", "sha256", "sha512", "sha3-256", "sha3-512"]
THREAD_SPECS = [["--threads", "1"], ["--threads", "main:1"], ["--threads", "default:1,1"], ["--threads", "ssd:64"],
                ["--threads", "main:3", "--threads", "ssd:2,5"], ["--threads", "unknown:2,1", "--threads", "hdd:1"],
                ["--threads", "0"]]


def run_group(ctx, roots, extra, env, cwd, stdin_roots=False, timeout=45):
    args = ["group"] + ([] if stdin_roots else list(roots)) + ["-f", "json"] + list(extra)
    if stdin_roots:
        args.append("--stdin")
    inp = b"\n".join(roots) + b"\n" if stdin_roots else None
    rc, out, err = treegen.fclones(args, cwd=cwd, env=env, stdin=inp, timeout=timeout)
    ctx.count()
    if rc == -9:
        return "hang", None
    if rc != 0:
        return "error %d: %s" % (rc, err[-300:].decode("utf-8", "replace")), None
    try:
        _, groups = treegen.parse_json_report(out.decode("utf-8"))
    except Exception as e:  # noqa
        return "unparsable report: %r" % (e,), None
    return None, groups


def directed_scenarios(ctx, delay_in_script):
    """(a) nested / repeated input paths with --depth and hidden directories in every order (argv and --stdin): the body must
    not depend on the order; (b) `$IN` transforms over files with EQUAL BASE NAMES in different directories under 1 and 8
    hashing threads: the body must not depend on the pool size."""
    import itertools
    n = ctx.pick(4, 24)
    for i in range(n):
        rng = ctx.rng.fork()
        base = os.path.join(ctx.scratch, "dir%d" % i).encode()
        top = os.path.join(base, b"photos")
        data = treegen.content(rng.next(), 3000)
        other = treegen.content(rng.next(), 3000)
        layout = {b"a.bin": data, b"2023/b.bin": data, b"2023/trip/c.bin": data, b"2023/trip/x.bin": other,
                  b".hid/d.bin": data, b".hid/deep/e.bin": other, b"2024/f.bin": other, b"2024/.h2/g.bin": data}
        for rel, d in layout.items():
            pth = os.path.join(top, rel)
            os.makedirs(os.path.dirname(pth), exist_ok=True)
            with open(pth, "wb") as f:
                f.write(d)
        # hard links whose paths differ only in where the component boundary lies (tw/ab vs tw/a/b, tw/foo/bar vs tw/foobar):
        # whatever identifies a path by its bytes alone must not confuse them
        for a, b in ((b"tw/ab", b"tw/a/b"), (b"tw/foo/bar", b"tw/foobar")):
            pa, pb = os.path.join(top, a), os.path.join(top, b)
            os.makedirs(os.path.dirname(pa), exist_ok=True)
            os.makedirs(os.path.dirname(pb), exist_ok=True)
            with open(pa, "wb") as f:
                f.write(data)
            os.link(pa, pb)
            layout[a] = layout[b] = data
        env0 = {"FCLONES_VERIF_DISK_KIND": "ssd"}
        root_sets = [[top, os.path.join(top, b"2023")], [top, os.path.join(top, b".hid")],
                     [top, os.path.join(top, b"2023", b"trip"), os.path.join(top, b"2023")],
                     [os.path.join(top, b"2024"), top, os.path.join(top, b"2024", b".h2")], [top, top],
                     [os.path.join(top, b"tw", b"a"), os.path.join(top, b"tw")], [os.path.join(top, b"tw", b"foo"), top]]
        for roots in root_sets:
            for depth in ([], ["--depth", "1"], ["--depth", "2"]):
                opts = ["--rf-over", "0"] + depth
                ref = None
                perms = list(itertools.permutations(roots))[:ctx.pick(3, 6)]
                for perm in perms:
                    for stdin_roots in (False, True):
                        err, groups = run_group(ctx, list(perm), opts, env0, base.decode(), stdin_roots)
                        ctx.distinct(("nested", i, tuple(roots), tuple(depth), perm, stdin_roots), True)
                        ctx.bump("variation", "nested_root_order")
                        payload = {"scenario": "nested input paths", "roots": [r.decode() for r in perm], "opts": opts,
                                   "stdin": stdin_roots, "layout": sorted(k.decode() for k in layout)}
                        if err:
                            ctx.violation({"kind": "hang" if err == "hang" else "run_failed", "variation": "nested_root_order"}, err, payload, found_input=True)
                            continue
                        key = treegen.body_key(groups)
                        if ref is None:
                            ref = (key, payload)
                        elif key != ref[0]:
                            payload["other_order"] = ref[1]["roots"]
                            payload["listed_here"] = sorted(p.decode() for g in groups for p in g["files"])
                            payload["listed_there"] = sorted(p.decode() for _, _, fs in ref[0] for p in fs)
                            ctx.violation({"kind": "body_differs", "variation": "nested_root_order"},
                                          "the report body depends on the ORDER of (nested) input paths", payload, found_input=True)
        # (b) equal base names, different contents of equal length, $IN transform, 1 vs 8 threads
        tdir = os.path.join(base, b"tr")
        for d in (b"d1", b"d2", b"d3"):
            for nm in (b"n1", b"n2"):
                pth = os.path.join(tdir, d, nm)
                os.makedirs(os.path.dirname(pth), exist_ok=True)
                with open(pth, "wb") as f:
                    f.write(treegen.content(rng.next() if (d, nm) != (b"d3", b"n1") else 7, 2000))
        with open(os.path.join(tdir, b"d1", b"copy_of_d3n1"), "wb") as f:
            f.write(treegen.content(7, 2000))
        tr = ["--transform", "python3 %s $IN" % delay_in_script, "--rf-over", "0"]
        err1, g1 = run_group(ctx, [tdir], tr + ["--threads", "1"], env0, base.decode())
        err8, g8 = run_group(ctx, [tdir], tr + ["--threads", "ssd:8,8", "--threads", "default:8,8"], env0, base.decode())
        ctx.distinct(("in_transform", i), True)
        ctx.bump("variation", "in_transform_threads")
        payload = {"scenario": "$IN transform over equal base names", "opts": tr}
        if err1 or err8:
            ctx.violation({"kind": "hang" if "hang" in (err1, err8) else "run_failed", "variation": "in_transform_threads"},
                          str(err1 or err8), payload, found_input=True)
        elif treegen.body_key(g1) != treegen.body_key(g8):
            payload["threads1"] = [[p.decode() for p in g["files"]] for g in g1]
            payload["threads8"] = [[p.decode() for p in g["files"]] for g in g8]
            ctx.violation({"kind": "body_differs", "variation": "in_transform_threads"},
                          "with a $IN transform the report body depends on the hashing pool size", payload, found_input=True)


def faulted_pool_scenarios(ctx):
    """many unreadable files (every open fails) in one size class: the report body is the same for every thread-pool setting
    and every run finishes (a pool of one thread must cope with more failures than it has task slots)"""
    import shutil
    from . import midrun_rt
    shim = midrun_rt._shim()
    for i in range(ctx.pick(2, 12)):
        rng = ctx.rng.fork()
        base = os.path.join(ctx.scratch, "fpool%d" % i)
        root = os.path.join(base, "r")
        shutil.rmtree(base, ignore_errors=True)
        size = rng.choice([100, 5000, 70000])
        good = treegen.content(rng.next(), size)
        nbad = rng.choice([9, 17, 40])
        for k in range(5):
            p = os.path.join(root, "good", "g%d" % k)
            os.makedirs(os.path.dirname(p), exist_ok=True)
            with open(p, "wb") as f:
                f.write(good if k < 3 else treegen.content(rng.next(), size))
        for k in range(nbad):
            p = os.path.join(root, "bad", "b%02d" % k)
            os.makedirs(os.path.dirname(p), exist_ok=True)
            with open(p, "wb") as f:
                f.write(good if k % 4 == 0 else treegen.content(2000 + k // 2, size))
        eno = rng.choice([13, 5])
        env = {"FCLONES_VERIF_DISK_KIND": rng.choice(["ssd", "hdd"]), "LD_PRELOAD": shim, "RDSHIM_PATH": os.path.join(root, "bad"),
               "RDSHIM_MATCH": "prefix", "RDSHIM_CALL": "open", "RDSHIM_ERRNO": str(eno), "RDSHIM_NTH": "0"}
        ref = None
        for threads in (["--threads", "64"], ["--threads", "1"], [], ["--threads", "main:1", "--threads", "default:2"]):
            rc, out, err = treegen.fclones(["group", root, "-f", "json", "--rf-over", "0"] + threads, env=env, timeout=60)
            ctx.count()
            ctx.distinct(("fpool", i, tuple(threads)), True)
            ctx.bump("variation", "threads_under_faults")
            payload = {"scenario": "%d files under %s/bad fail every open (errno %d)" % (nbad, root, eno), "threads": threads,
                       "stderr": err.decode("utf-8", "replace")[-300:]}
            if rc != 0:
                ctx.violation({"kind": "hang" if rc == -9 else "run_failed", "variation": "threads_under_faults"},
                              "fclones group %s with %s" % ("did not finish within 60 s" if rc == -9 else "exited %d" % rc, threads or "default pools"),
                              payload, found_input=True)
                continue
            key = treegen.body_key(treegen.parse_json_report(out.decode("utf-8"))[1])
            if ref is None:
                ref = key
            elif key != ref:
                ctx.violation({"kind": "body_differs", "variation": "threads_under_faults"},
                              "under read faults the report body depends on the thread-pool setting", payload, found_input=True)
        shutil.rmtree(base, ignore_errors=True)


def follow_links_race_scenarios(ctx):
    """`-L` with ONE input path under which many directories (and files) are each reachable through two or three symbolic
    links: the walker threads that resolve the links of one target race for the visited set.  Whatever thread wins, the body
    must be the one of the single-threaded run and list no path twice.  A long user-wide ignore file (matching nothing) widens
    every window between looking an entry up and acting on it."""
    import shutil
    for i in range(ctx.pick(2, 10)):
        rng = ctx.rng.fork()
        base = os.path.realpath(os.path.join(ctx.scratch, "lrace%d" % i))
        shutil.rmtree(base, ignore_errors=True)
        os.makedirs(os.path.join(base, "xdg", "git"))
        with open(os.path.join(base, "xdg", "git", "ignore"), "w") as f:
            for k in range(1500):
                f.write("*gen%d*cache%d*tmp%d?\n" % (k, k, k))
        n = rng.choice([120, 300])
        os.makedirs(os.path.join(base, "R"))
        for k in range(n):
            t = os.path.join(base, "X", "T%d" % k)
            os.makedirs(t)
            for nm in ("p", "q"):
                with open(os.path.join(t, nm), "w") as f:
                    f.write("payload %d" % k)
            for l in ("a", "b", "c")[:2 + rng.below(2)]:
                os.symlink(t, os.path.join(base, "R", "%s%d" % (l, k)))
            if rng.chance(1, 4):
                os.symlink(os.path.join(t, "p"), os.path.join(base, "R", "fp%d" % k))        # a file reachable twice as well
        env = {"FCLONES_VERIF_DISK_KIND": "ssd", "HOME": base, "XDG_CONFIG_HOME": os.path.join(base, "xdg"),
               "XDG_CACHE_HOME": os.path.join(base, "cache")}
        opts = ["-L"] + rng.choice([[], ["--match-links"], ["--rf-over", "0"]])
        err, ref = run_group(ctx, [b"R"], opts + ["--threads", "1"], env, base)
        if err:
            ctx.violation({"kind": "hang" if err == "hang" else "run_failed", "variation": "follow_links_race"}, "base run: " + err,
                          {"scenario": "follow_links_race", "opts": opts}, found_input=True)
            continue
        rkey = treegen.body_key(ref)
        for ri, threads in enumerate((["4"], ["8"], ["0"], ["main:3"], ["8"], ["0"])):
            err, groups = run_group(ctx, [b"R"], opts + ["--threads"] + threads, env, base)
            ctx.distinct(("lrace", i, ri), True)
            ctx.bump("variation", "follow_links_race")
            payload = {"scenario": "%d directories under X, each reachable through 2-3 links in R; `fclones group R %s --threads %s` "
                                   "vs --threads 1; user-wide ignore file with 1500 patterns" % (n, " ".join(opts), threads[0]),
                       "replay": "./check C13 --tier quick (scenario follow_links_race is rebuilt from the seed)"}
            if err:
                ctx.violation({"kind": "hang" if err == "hang" else "run_failed", "variation": "follow_links_race"}, err, payload, found_input=True)
                break
            listed = [p for g in groups for p in g["files"]]
            if len(listed) != len(set(listed)):
                payload["example"] = [p.decode("utf-8", "replace") for p in sorted(p for p in set(listed) if listed.count(p) > 1)[:4]]
                ctx.violation({"kind": "body_differs", "variation": "follow_links_race"},
                              "with -L and --threads %s a path is listed more than once (the walk delivered it twice)" % threads[0],
                              payload, found_input=True)
                break
            if treegen.body_key(groups) != rkey:
                ctx.violation({"kind": "body_differs", "variation": "follow_links_race"},
                              "with -L the report body under --threads %s differs from the single-threaded run" % threads[0],
                              payload, found_input=True)
                break
        shutil.rmtree(base, ignore_errors=True)


def stdin_lines_correspondence(ctx):
    """config.rs input_paths (--stdin) against coq/StdinModel.v: directories named by arbitrary bytes (blanks, tabs, a CR inside or
    at the end, bytes that are not UTF-8), each holding one file; generated inputs (LF / CRLF terminators, a last line with or
    without terminator, names that do not exist) go to `fclones group --stdin --rf-over 0`; the directories whose file is listed
    must be exactly the existing ones among the paths StdinModel.stdin_paths reads from the same bytes (evaluated by coqc)."""
    import re
    import shutil
    import subprocess
    core.build_fclones()
    base = os.path.realpath(os.path.join(ctx.scratch, "stdin_lines"))
    shutil.rmtree(base, ignore_errors=True)
    top = os.path.join(base, "t").encode()
    os.makedirs(top)
    names = [b"a", b"b c", b"tab\t", b"sp ", b" lead", b"\xe9latin", b"caf\xc3\xa9", b"cr\rmid", b"x\r", b"x", b"y\r\r", b"#c", b"-d"]
    for k, nm in enumerate(names):
        os.makedirs(os.path.join(top, nm))
        with open(os.path.join(top, nm, b"m"), "wb") as f:
            f.write(b"marker %d" % k)
    ghosts = [b"nowhere", b"a ", b"x\r\r\r", b"b  c"]
    rng = ctx.rng.fork()
    cases = []
    for i in range(ctx.pick(40, 400)):
        items = [rng.choice(names + ghosts) for _ in range(1 + rng.below(5))]
        crlf = rng.chance(1, 3)
        data = b""
        expect = []
        for j, it in enumerate(items):
            last = j == len(items) - 1
            term = b"" if (last and rng.chance(1, 3)) else (b"\r\n" if crlf else b"\n")
            data += it + term
            line = it + term
            if line.endswith(b"\n"):
                line = line[:-1]
            if line.endswith(b"\r"):
                line = line[:-1]
            expect.append(line)
        if not data.endswith(b"\n") and not items[-1]:
            continue
        rc, out, err = treegen.fclones(["group", "--stdin", "--rf-over", "0", "-f", "json"], cwd=top, env={"FCLONES_VERIF_DISK_KIND": "ssd"},
                                       stdin=data, timeout=60)
        ctx.count()
        ctx.distinct(("stdin_lines", i, data), True)
        ctx.bump("stdin_lines", "crlf" if crlf else "lf")
        payload = {"scenario": "paths on --stdin as raw bytes", "stdin_hex": data.hex(), "stderr": err.decode("utf-8", "replace")[-300:],
                   "replay": "cd %s && printf '<stdin_hex as bytes>' | fclones group --stdin --rf-over 0" % top.decode()}
        if rc != 0:
            ctx.violation({"kind": "run_failed", "variation": "stdin_lines"}, "fclones group --stdin failed (rc %d)" % rc, payload, found_input=True)
            continue
        groups = treegen.parse_json_report(out.decode("utf-8"))[1]
        got = sorted({os.path.basename(os.path.dirname(p)) for g in groups for p in g["files"]})
        want = sorted({e for e in expect if e in names})
        if got != want:
            payload.update(scanned=[x.hex() for x in got], expected=[x.hex() for x in want])
            ctx.violation({"kind": "body_differs", "variation": "stdin_lines"},
                          "the input paths taken from --stdin are not the lines of the input: scanned %r, lines name %r" % (got, want), payload, found_input=True)
        cases.append((data, expect))
    # the model on the same inputs
    d = os.path.join(ctx.scratch, "stdin_model")
    os.makedirs(d, exist_ok=True)
    fmt = lambda b: "[" + "; ".join(str(x) for x in b) + "]"
    with open(os.path.join(d, "StdinCases.v"), "w") as fh:
        fh.write("From FV Require Import Base StdinModel.\nOpen Scope N_scope.\n")
        fh.write("Definition eqb (a b : list (list N)) : bool := if list_eq_dec (list_eq_dec N.eq_dec) a b then true else false.\n")
        fh.write("Definition cases : list (list N * list (list N)) := [\n" + ";\n".join(
            "(%s, [%s])" % (fmt(dat), "; ".join(fmt(e) for e in ex)) for dat, ex in cases) + "].\n")
        fh.write("Definition differing := map fst (filter (fun p => negb (eqb (stdin_paths (fst (snd p))) (snd (snd p)))) (combine (seq 0 (length cases)) cases)).\n")
        fh.write("Eval vm_compute in (length cases, differing).\n")
    p = subprocess.run(["timeout", "300", "coqc", "-noglob", "-Q", core.COQ, "FV", "StdinCases.v"], cwd=d, stdout=subprocess.PIPE, stderr=subprocess.PIPE)
    o = p.stdout.decode().replace("\n", " ")
    m = re.search(r"=\s*\((\d+)%nat,\s*(\[[^\]]*\])", o)
    if p.returncode != 0 or not m or int(m.group(1)) != len(cases):
        ctx.violation({"kind": "model_driver_failed"}, "coqc on the --stdin cases failed: %s" % (p.stderr.decode()[-400:] + o[-200:]), {}, found_input=False)
        return
    diff = [int(x.replace("%nat", "")) for x in m.group(2).strip("[]").split(";") if x.strip()]
    ctx.extra["stdin_inputs_through_the_model"] = len(cases)
    if diff:
        dat, ex = cases[diff[0]]
        ctx.violation({"kind": "stdin_model_differs"}, "StdinModel.stdin_paths reads other lines from %r than the harness expects (%r)" % (dat, ex),
                      {"stdin_hex": dat.hex(), "correspondence": "StdinModel.stdin_paths vs the line reading the binary was judged by"}, found_input=False)
    shutil.rmtree(base, ignore_errors=True)


def run(ctx):
    ctx.rule = ("generated trees (duplicate classes over several roots, hard links, sizes around the 4 KiB prefix / 64 KiB "
                "buffer / 64 KiB suffix threshold of the SSD pin) x variations; an evaluation is one run of the binary; a case "
                "is (tree, variation); non-trivial = the base report has at least one group; distinct = distinct (tree seed, variation)")
    ctx.assumptions = ["rayon, crossbeam and std channels terminate and deliver every message (trusted); hash collision-freedom on the contents present"]
    ctx.use_coq()
    core.build_fclones()
    ntrees = ctx.pick(25, 150)
    repeats = ctx.pick(2, 6)
    hangs = {}
    delay_in_script = os.path.join(ctx.scratch, "delay_in.py")
    with open(delay_in_script, "w") as f:
        # transform reading the file named by its argument ($IN): opens it, waits, then copies it to stdout
        f.write("import sys,time\nf=open(sys.argv[1],'rb')\ntime.sleep(0.05)\nsys.stdout.buffer.write(f.read())\n")
    delay_script = os.path.join(ctx.scratch, "delay.py")
    with open(delay_script, "w") as f:
        # transform that copies stdin to stdout, sleeping first for the file whose content starts with $SLOW_TAG:
        # perturbs the ARRIVAL ORDER of hashes at the result channel without changing any result
        f.write("import os,sys,time\nd=sys.stdin.buffer.read()\nt=os.environb.get(b'SLOW_TAG',b'')\n"
                "time.sleep(0.25 if t and d[:len(t)]==t else 0)\nsys.stdout.buffer.write(d)\n")
    for ti in range(ntrees):
        rng = ctx.rng.fork()
        base = os.path.join(ctx.scratch, "t%d" % ti)
        tree = treegen.gen_tree(rng, base, nroots=1 + rng.below(3), nfiles=6 + rng.below(30), hardlinks=True,
                                names="hostile" if ti % 3 == 1 else "plain")
        roots = tree.roots
        # names that differ only in a byte that is not valid UTF-8, same content, same directory (ordering by a lossy
        # string would tie them and expose the arrival order)
        twins = []
        if ti % 3 == 1 and tree.files:
            f0 = tree.files[rng.below(len(tree.files))]
            data = open(f0["path"], "rb").read()
            for b in (b"\xff", b"\xfe", b"\xfd"):
                tp = os.path.join(os.path.dirname(f0["path"]), b"twin" + b + b"x")
                if not os.path.lexists(tp):
                    tree.add_file(tp, data, f0["cls"])
                    twins.append(tp)
        cache_home = os.path.join(ctx.scratch, "cache%d" % ti)
        env0 = {"FCLONES_VERIF_DISK_KIND": "ssd", "XDG_CACHE_HOME": cache_home, "HOME": cache_home}
        opts = rng.choice([[], ["--rf-over", "0"], ["--unique"], ["--rf-under", "3"], ["--match-links"], []])
        err, base_groups = run_group(ctx, roots, opts, env0, base)
        if err:
            ctx.violation({"kind": "hang" if err == "hang" else "run_failed"}, "base run: " + err,
                          {"tree_seed": ti, "roots": [r.decode() for r in roots], "opts": opts}, found_input=True)
            continue
        nontrivial = len(base_groups) > 0
        bkey = treegen.body_key(base_groups)
        pkey = treegen.partition_key(base_groups)
        ctx.bump("groups_in_base", min(len(base_groups), 8))
        ctx.bump("opts", " ".join(opts) or "default")

        def check(label, kind, extra, env, roots_v=roots, stdin_roots=False):
            if hangs.get(label.split("=")[0], 0) >= 2:
                return   # this variation class already hangs: one replay is enough, do not wait for more time-outs
            e = dict(env0)
            e.update(env)
            err, groups = run_group(ctx, roots_v, opts + extra, e, base, stdin_roots)
            ctx.distinct((ti, label), nontrivial)
            ctx.bump("variation", label.split("=")[0])
            payload = {"tree": "treegen.gen_tree seed-index %d (VERIF_SEED=%d)" % (ti, ctx.seed), "variation": label,
                       "roots": [r.decode("utf-8", "replace") for r in roots_v], "opts": opts + extra,
                       "env": {k: v for k, v in e.items() if k.startswith("FCLONES")}}
            if err:
                if err == "hang":
                    hangs[label.split("=")[0]] = hangs.get(label.split("=")[0], 0) + 1
                ctx.violation({"kind": "hang" if err == "hang" else "run_failed", "variation": label.split("=")[0]},
                              "%s under %s" % (err, label), payload, found_input=True)
                return
            if kind == "body" and treegen.body_key(groups) != bkey:
                payload["base"] = [(l, h, [p.decode("utf-8", "replace") for p in f]) for l, h, f in bkey][:6]
                payload["got"] = [(l, h, [p.decode("utf-8", "replace") for p in f]) for l, h, f in treegen.body_key(groups)][:6]
                ctx.violation({"kind": "body_differs", "variation": label.split("=")[0]},
                              "report body differs from the base run under %s" % label, payload, found_input=True)
            if treegen.partition_key(groups) != pkey:
                payload["base_partition"] = [(l, [p.decode("utf-8", "replace") for p in f]) for l, f in pkey][:6]
                payload["got_partition"] = [(l, [p.decode("utf-8", "replace") for p in f]) for l, f in treegen.partition_key(groups)][:6]
                ctx.violation({"kind": "partition_differs", "variation": label.split("=")[0]},
                              "partition into groups differs from the base run under %s" % label, payload, found_input=True)

        for r in range(repeats):
            check("repeat=%d" % r, "body", [], {})
        specs = THREAD_SPECS if not ctx.quick else [THREAD_SPECS[i] for i in (0, 1, 2, 4, 6)]
        for spec in specs:
            check("threads=" + " ".join(spec[1::2]), "body", spec, {})
        if len(roots) > 1:
            for _ in range(ctx.pick(1, 3)):
                check("root_order=perm", "body", [], {}, roots_v=rng.shuffle(roots))
        check("stdin=roots", "body", [], {}, stdin_roots=True)
        # several fake devices of the same kind: per-device pools, same thresholds => identical body
        mounts = ",".join("ssd=%s" % r.decode() for r in roots)
        check("mounts=ssd_per_root", "body", [], {"FCLONES_VERIF_MOUNTS": mounts})
        check("mounts=ssd_per_root+threads1", "body", ["--threads", "1"], {"FCLONES_VERIF_MOUNTS": mounts})
        # arrival-order perturbation: same transform, a different file is slow each time => identical bodies
        if ti % 3 == 1 and tree.files:
            tr = ["--transform", "python3 " + delay_script]
            terr, tbase = run_group(ctx, roots, opts + tr, env0, base)
            if not terr:
                saved = (bkey, pkey)
                bkey, pkey = treegen.body_key(tbase), treegen.partition_key(tbase)
                cands = [f["path"] for f in tree.files if f["size"] >= 4][:40]
                picks = (twins + rng.shuffle(cands))[:ctx.pick(3, 8)]
                for pth in picks:
                    tag = open(pth, "rb").read()[:12]
                    if tag and b"\0" not in tag:
                        check("arrival=slow_file", "body", tr, {"SLOW_TAG": tag.decode("latin-1")})
                bkey, pkey = saved
        # partition-only variations
        for h in (HASH_FNS if not ctx.quick else [rng.choice(HASH_FNS[1:]), "sha256"]):
            check("hash_fn=" + h, "partition", ["--hash-fn", h], {})
        for p in ([1, 100, 4096, 5000, 70000, 1 << 20] if not ctx.quick else [rng.choice([1, 100, 5000, 70000])]):
            check("max_prefix=%d" % p, "partition", ["--max-prefix-size", str(p)], {})
        for s in ([1, 7, 4096, 70000] if not ctx.quick else [rng.choice([1, 7, 70000])]):
            check("max_suffix=%d" % s, "partition", ["--max-suffix-size", str(s)], {})
        for k in ["hdd", "unknown"]:
            check("disk_kind=" + k, "partition", [], {"FCLONES_VERIF_DISK_KIND": k})
        mixed = ",".join("%s=%s" % (["hdd", "ssd", "unknown"][i % 3], r.decode()) for i, r in enumerate(roots))
        check("mounts=mixed_kinds", "partition", [], {"FCLONES_VERIF_MOUNTS": mixed})
        check("cache=first", "partition", ["--cache"], {})
        check("cache=second", "partition", ["--cache"], {})
        ctx.sample({"tree": ti, "files": len(tree.files), "roots": len(roots), "groups": len(base_groups), "opts": opts})
    # model-level hook (engine G): the extracted model, which Props_C13.v is about, under other nondeterminism records and
    # scan orders must print the body fclones::group_files returned
    directed_scenarios(ctx, delay_in_script)
    faulted_pool_scenarios(ctx)
    follow_links_race_scenarios(ctx)
    # input paths on argv and on --stdin: nested ones the outer walk does not reach, names that are not UTF-8 / end in white space
    from . import nested_rt
    nested_rt.nested_unreached_roots_check(ctx, ctx.pick(30, 300), "C13")
    stdin_lines_correspondence(ctx)
    # the cache is a performance setting: files that join / leave a class by in-place rewrites between cached runs
    from . import midrun_rt
    midrun_rt.restore_older_check(ctx, ctx.pick(8, 100))
    grp_common.model_schedule_check(ctx, ctx.pick(40, 400))

