"""Shared machinery of engine A (C05, C18, C20): scenario trees, running the real fclones binary under
the LD_PRELOAD shim (shim/fsshim.c), abstraction of the libc trace into the primitive calls of
coq/FsModel.v, construction of the model case (coq/driver/drv_A.ml), and the three comparisons
(call sequence, final tree, accounting).

Conventions
  * a scenario lives in  <scratch>/<sid>/ ; the scanned tree is <sid>/w, move targets are <sid>/out
    (outside the tree) or <sid>/w/zz_out (inside); every replay REBUILDS the tree at the same paths, so
    the report produced once by `fclones group` stays valid.
  * file mtimes are fixed past values (T0 + 10*k) so that "timestamp restored" is observable; clock
    values stamped by the model's writes are negative sentinels and compare equal to "not an original
    mtime" on the real side.
  * the random 24-character temp suffix is canonicalised to ".tmp~" (DESIGN section 9).
"""
import os
import re
import shutil
import subprocess
import sys
import tempfile

from .. import core

T0 = 1_600_000_000
ERRNO = {"EIO": 5, "ENOSPC": 28, "EXDEV": 18, "EPERM": 1, "EOPNOTSUPP": 95}
ERRNAME = {2: "ENOENT", 17: "EEXIST", 20: "ENOTDIR", 21: "EISDIR", 40: "ELOOP", 11: "EAGAIN", 13: "EAGAIN", 22: "EINVAL",
           5: "EIO", 28: "ENOSPC", 18: "EXDEV", 1: "EPERM", 95: "EOPNOTSUPP"}
OPS = ["remove", "link", "softlink", "dedupe", "move"]
TMP_SFX = ".tmp~"
TEMP_RE = re.compile(r"^(.*)\.[A-Za-z0-9]{24}$")
SAFE = set(b"abcdefghijklmnopqrstuvwxyzABCDEFGHIJKLMNOPQRSTUVWXYZ0123456789_./-")


def pct(s):
    """percent-encoding used by the shim and by drv_A.ml ('/' stays literal)"""
    b = s.encode("utf-8", "surrogateescape") if isinstance(s, str) else s
    return "".join(chr(c) if c in SAFE else "%%%02X" % c for c in b)


def unpct(s):
    out = bytearray()
    i = 0
    while i < len(s):
        if s[i] == "%" and i + 2 < len(s) + 0 and re.match(r"[0-9A-Fa-f]{2}", s[i + 1:i + 3]):
            out.append(int(s[i + 1:i + 3], 16))
            i += 3
        else:
            out += s[i].encode()
            i += 1
    return out.decode("utf-8", "surrogateescape")


# ------------------------------------------------------------------------------------------------
# scenarios

class Scenario:
    """groups: list of dict(content=bytes, members=[(relpath, linkset)]): members with the same linkset id
    (within the group) are hard links of one inode.  extra: list of ('file', rel, bytes) | ('dir', rel) |
    ('symlink', rel, target_abs_or_rel_to_sid) created besides the duplicates (move collisions)."""

    def __init__(self, sid, base, groups, extra=(), move_dir="out"):
        self.sid = sid
        self.base = os.path.join(base, sid)
        self.root = os.path.join(self.base, "w")
        self.groups = groups
        self.extra = list(extra)
        self.move_dir = move_dir            # relative to base; may contain ".." or be inside w
        self.report = os.path.join(self.base, "report.txt")

    def build(self):
        """(re)create the tree exactly; everything under base except the report is removed first"""
        for n in os.listdir(self.base) if os.path.isdir(self.base) else []:
            if n not in ("report.txt",):
                p = os.path.join(self.base, n)
                if os.path.isdir(p) and not os.path.islink(p):
                    shutil.rmtree(p)
                else:
                    os.remove(p)
        os.makedirs(self.root, exist_ok=True)
        k = 0
        for g in self.groups:
            first = {}
            for rel, ls in g["members"]:
                p = os.path.join(self.root, rel)
                os.makedirs(os.path.dirname(p), exist_ok=True)
                if ls in first:
                    os.link(first[ls], p)
                else:
                    with open(p, "wb") as f:
                        f.write(g["content"])
                    first[ls] = p
                    os.utime(p, (T0 + 10 * k, T0 + 10 * k))
                    k += 1
        for e in self.extra:
            p = os.path.join(self.base, e[1])
            if e[0] == "dir":
                os.makedirs(p, exist_ok=True)
                if len(e) > 2:
                    os.chmod(p, e[2])          # a directory with permission bits of its own
            else:
                os.makedirs(os.path.dirname(p), exist_ok=True)
                if e[0] == "file":
                    with open(p, "wb") as f:
                        f.write(e[2])
                    os.utime(p, (T0 + 10 * k, T0 + 10 * k))
                    k += 1
                elif e[0] == "symlink":
                    t = e[2] if e[2].startswith("/") else os.path.join(self.base, e[2])
                    os.symlink(t, p)
                elif e[0] == "symlink_raw":          # link text used as is (relative to the link's directory)
                    os.symlink(e[2], p)
                elif e[0] == "hardlink":             # another name of an existing member (cp -al style)
                    os.link(os.path.join(self.base, e[2]), p)

    def make_report(self, fclones):
        self.build()
        # `group` runs in a working directory of its own INSIDE the scenario (the report's "Base dir"): `move` later runs
        # from elsewhere, so a relative DIR resolved against the wrong one stays inside the scratch area and is noticed
        gcwd = os.path.join(self.base, "group_cwd")
        os.makedirs(gcwd, exist_ok=True)
        try:
            p = core.run([fclones, "group", self.root, "--hidden"], timeout=120, cwd=gcwd)
        finally:
            os.rmdir(gcwd)
        if p.returncode != 0:
            raise RuntimeError("fclones group failed: " + p.stderr[-2000:])
        open(self.report, "w").write(p.stdout)
        self.report_groups = parse_report(p.stdout)
        return self.report_groups

    def env_extra(self):
        """fake_mount: hook H2 (FCLONES_VERIF_MOUNTS) registers a fake mount point at the move target directory, so
        are_on_same_mount(source, DIR) is false and dedupe_script emits Move { use_rename: false } (move_copy only)"""
        if getattr(self, "fake_mount", False):
            return {"FCLONES_VERIF_MOUNTS": "unknown=" + os.path.normpath(self.dir_arg())}
        return {}

    def dir_arg(self):
        """the target directory as main.rs resolves it: cwd joined with the (possibly relative, un-normalised) argument"""
        if getattr(self, "dir_phys", None):
            return self.dir_phys        # DIR goes through a symbolic link: what the kernel resolves it to
        if getattr(self, "dir_cli", None) and not self.dir_cli.startswith("/"):
            return os.path.join(self.cwd, self.dir_cli)
        return os.path.join(self.base, self.move_dir)

    def describe(self):
        return {"sid": self.sid, "groups": [{"content_len": len(g["content"]), "members": g["members"]} for g in self.groups],
                "extra": [list(map(lambda x: x if not isinstance(x, bytes) else x.decode("latin1"), e)) for e in self.extra],
                "move_dir": self.move_dir, "fake_mount": getattr(self, "fake_mount", False)}


def parse_report(text):
    groups, cur = [], None
    for line in text.split("\n"):
        if line.startswith("#") or not line.strip():
            continue
        if line.startswith("    "):
            cur.append(line[4:])
        else:
            cur = []
            groups.append(cur)
    return groups


def inventory(base):
    """path -> ('D', mode) | ('L', target) | ('F', ino, mtime_seconds, bytes); the report file is skipped"""
    inv = {}
    for dp, dns, fns in os.walk(base):
        inv[dp] = ("D", os.lstat(dp).st_mode & 0o7777)
        for n in list(dns):
            p = os.path.join(dp, n)
            if os.path.islink(p):
                inv[p] = ("L", os.readlink(p))
        for n in fns:
            p = os.path.join(dp, n)
            if p == os.path.join(base, "report.txt"):
                continue
            st = os.lstat(p)
            if os.path.islink(p):
                inv[p] = ("L", os.readlink(p))
            else:
                with open(p, "rb") as f:
                    inv[p] = ("F", st.st_ino, int(st.st_mtime), f.read())
    return inv


def temp_stem(name):
    """the part of a file name that FsCommand::temp_file keeps: names longer than 230 bytes are cut at a character boundary
    (the suffix .<24 alnum> adds 25 bytes, NAME_MAX is 255)"""
    b = name.encode("utf-8", "surrogateescape") if isinstance(name, str) else name
    if len(b) <= 230:
        return name
    cut = 230
    while cut > 0 and (b[cut] & 0xC0) == 0x80:
        cut -= 1
    return b[:cut].decode("utf-8", "surrogateescape") if isinstance(name, str) else b[:cut]


def canon_temp(path, victims):
    """<victim>.<24 alnum>  ->  <victim>.tmp~   (<stem of a long victim name>.<24 alnum> -> that victim's .tmp~)"""
    m = TEMP_RE.match(path)
    if m and m.group(1) in victims:
        return m.group(1) + TMP_SFX
    if m:
        d, stem = os.path.split(m.group(1))
        if len(stem.encode("utf-8", "surrogateescape")) >= 200:
            for v in victims:
                vd, vn = os.path.split(v)
                if vd == d and temp_stem(vn) == stem and vn != stem:
                    return v + TMP_SFX
    return path


def derive_cmds(op, report_groups, inv, move_dir_abs, use_rename=1):
    """The command list the implementation generates for the default configuration (n = 1, no priorities,
    hard links of one inode form one sub-group, sub-groups in order of first appearance; the first
    sub-group is kept and its first path is the link target).  Members that are not regular files or whose
    length differs from the group's are skipped exactly as partition() does; this generator never produces them."""
    cmds = []
    for paths in report_groups:
        subs, order = {}, []
        for p in paths:
            e = inv.get(p)
            if not e or e[0] != "F":
                continue
            if e[1] not in subs:
                subs[e[1]] = []
                order.append(e[1])
            subs[e[1]].append(p)
        if len(order) < 2:
            continue
        target = subs[order[0]][0]
        for ino in order[1:]:
            for a in subs[ino]:
                tmp = a + TMP_SFX
                if op == "remove":
                    cmds.append({"op": "rm", "a": a})
                elif op == "softlink":
                    cmds.append({"op": "sl", "t": target, "a": a, "tmp": tmp})
                elif op == "link":
                    cmds.append({"op": "hl", "t": target, "a": a, "tmp": tmp})
                elif op == "dedupe":
                    cmds.append({"op": "rl", "t": target, "a": a, "tmp": tmp, "mt": inv[a][2]})
                elif op == "move":
                    cmds.append({"op": "mv", "a": a, "tgt": move_dir_abs + "/." + a, "rn": use_rename})
    return cmds


def cmd_text(c):
    if c["op"] == "rm":
        return "rm:" + pct(c["a"])
    if c["op"] in ("sl", "hl"):
        return "%s:%s:%s:%s" % (c["op"], pct(c["t"]), pct(c["a"]), pct(c["tmp"]))
    if c["op"] == "rl":
        return "rl:%s:%s:%s:%d:0:-1:-2" % (pct(c["t"]), pct(c["a"]), pct(c["tmp"]), c["mt"])
    return "mv:%s:%s:%d:-3" % (pct(c["a"]), pct(c["tgt"]), c["rn"])


def cli_args(op, scn, no_lock=False):
    a = {"remove": ["remove"], "link": ["link"], "softlink": ["link", "--soft"], "dedupe": ["dedupe"],
         "move": ["move", getattr(scn, "dir_cli", None) or scn.dir_arg()]}[op]
    return a + (["--no-lock"] if no_lock else [])


# ------------------------------------------------------------------------------------------------
# running the binary under the shim

def run_shim(fclones, shim, args, report, scope, fail=None, fail2=None, kill=None, sim_ficlone=False, cwd=None,
             threads="1", timeout=60, binary_args_stdin=True, env_extra=None, drop_caps=False, plant=None):
    """returns dict(exit, stderr, stdout, trace=[fields...])"""
    env = dict(os.environ)
    env.update({"LD_PRELOAD": shim, "FSSHIM_SCOPE": scope, "RAYON_NUM_THREADS": threads})
    if fail:
        env["FSSHIM_FAIL_AT"], env["FSSHIM_ERRNO"] = str(fail[0]), str(ERRNO[fail[1]])
    if fail2:
        env["FSSHIM_FAIL_AT2"], env["FSSHIM_ERRNO2"] = str(fail2[0]), str(ERRNO[fail2[1]])
    if kill:
        env["FSSHIM_KILL_AT"], env["FSSHIM_KILL_WHEN"] = str(kill[0]), kill[1]
    if sim_ficlone:
        env["FSSHIM_SIM_FICLONE"] = "1"
    if plant:
        env["FSSHIM_PLANT_AT"], env["FSSHIM_PLANT_PATH"] = str(plant[0]), plant[1]
    if env_extra:
        env.update(env_extra)
    with tempfile.TemporaryFile() as tf:
        fd = tf.fileno()
        env["FSSHIM_FD"] = str(fd)
        with open(report, "rb") as rin:
            p = subprocess.run([fclones] + args, stdin=rin, stdout=subprocess.PIPE, stderr=subprocess.PIPE, env=env,
                               pass_fds=(fd,), cwd=cwd, timeout=timeout, preexec_fn=drop_dac_caps if drop_caps else None)
        tf.seek(0)
        raw = tf.read().decode("utf-8", "surrogateescape")
    trace = [l.split("\t") for l in raw.split("\n") if l]
    return {"exit": p.returncode, "stderr": p.stderr.decode("utf-8", "replace"), "stdout": p.stdout.decode("utf-8", "replace"),
            "trace": trace}


def drop_dac_caps():
    """preexec_fn: remove CAP_DAC_OVERRIDE (1) and CAP_DAC_READ_SEARCH (2) from the capability bounding set, so the
    exec'ed program (uid 0) is subject to the permission bits like an ordinary user (PR_CAPBSET_DROP = 24)"""
    import ctypes
    libc = ctypes.CDLL(None, use_errno=True)
    for cap in (1, 2):
        if libc.prctl(24, cap, 0, 0, 0) != 0:
            os._exit(97)


def caps_can_be_dropped(scratch):
    """does a process launched through drop_dac_caps really fail to open a root-owned 0444 file for writing?"""
    p = os.path.join(scratch, "capprobe")
    with open(p, "wb") as f:
        f.write(b"x")
    os.chmod(p, 0o444)
    try:
        r = subprocess.run([sys.executable, "-c", "import sys\ntry:\n open(sys.argv[1], 'r+b'); print('writable')\nexcept PermissionError: print('denied')", p],
                           stdout=subprocess.PIPE, stderr=subprocess.PIPE, preexec_fn=drop_dac_caps, timeout=30)
        return r.stdout.decode().strip() == "denied"
    except Exception:
        return False
    finally:
        os.remove(p)


def log_summary(stderr):
    m = re.search(r"Processed (\d+) files", stderr)
    warns = [l for l in stderr.split("\n") if " warn: " in l or "warn:" in l.split("fclones:")[-1][:8]]
    errors = [l for l in stderr.split("\n") if "error:" in l]
    return {"processed": int(m.group(1)) if m else None, "warn": len(warns), "errors": len(errors), "warn_lines": warns}


# ------------------------------------------------------------------------------------------------
# libc trace -> primitive calls of FsModel.v

def _fdpath(arg):
    # fd=<n>:<path>
    return unpct(arg.split(":", 1)[1])


def abstract_trace(trace, victims):
    """Returns (calls, kill).  calls: list of dict(text, res, inj, ks=[libc indices], partial, kind);
    kill: None | dict(idx=class index of the primitive being executed, stage='b'|'a'|'m<n>').
    Uncounted lines (read-only opens, closes) only feed the descriptor bookkeeping."""
    calls = []
    kill = None
    last_ro = None
    copy = None      # open copy group
    src_len = {}

    def cp(p):
        return canon_temp(unpct(p), victims)

    def close_copy():
        nonlocal copy
        if copy is not None:
            failed = copy["open_failed"] or copy["chmod_failed"] or copy["last_data_err"]
            c = {"text": "copy(%s,%s)" % (pct(copy["src"]), pct(copy["dst"])), "kind": "copy", "ks": copy["ks"],
                 "inj": copy["inj"] and failed, "tolerated_inj": copy["inj"] and not failed,
                 "res": "ok" if not failed else copy["err"], "partial": None if copy["open_failed"] else copy["bytes"],
                 "nat_fail": failed and not copy["inj"]}
            calls.append(c)
            copy = None

    for f in trace:
        n, name, ret, err, inj = int(f[0]), f[1], int(f[2]), int(f[3]), f[4]
        args = f[5:]
        injected = inj == "F"
        killed = inj in ("KB", "KA")
        res = "ok" if (ret >= 0 and not killed) or (killed and inj == "KA" and ret >= 0) else ERRNAME.get(err, "EOTHER")
        if n == 0:
            if name == "open" and args[1] == "r":
                last_ro = cp(args[0])
            elif name == "close" and copy is not None and _fdpath(args[0]) == copy["dst_raw"]:
                close_copy()
            continue
        # ---- members of a copy group
        if copy is not None and name in ("chmod", "copy_file_range", "sendfile", "write", "truncate") and \
                (args[-1].startswith("fd=") and _fdpath(args[-1]) == copy["dst_raw"]):
            copy["ks"].append(n)
            if killed:
                kill = {"idx": len(calls), "stage": "m%d" % (copy["bytes"] + (ret if inj == "KA" and ret > 0 and name != "chmod" else 0))}
                break
            if injected:
                copy["inj"] = True
            if name == "chmod":
                if ret < 0:
                    copy["chmod_failed"], copy["err"] = True, ERRNAME.get(err, "EOTHER")
            else:
                if ret < 0:
                    copy["last_data_err"], copy["err"] = True, ERRNAME.get(err, "EOTHER")
                else:
                    copy["last_data_err"] = False
                    copy["bytes"] += ret
            continue
        if copy is not None:
            close_copy()
        if name == "open" and "trunc" in args[1]:
            copy = {"src": last_ro, "dst": cp(args[0]), "dst_raw": unpct(args[0]), "ks": [n], "inj": injected, "bytes": 0,
                    "open_failed": ret < 0 and not killed, "chmod_failed": False, "last_data_err": False,
                    "err": ERRNAME.get(err, "EOTHER") if ret < 0 else None}
            if killed:
                kill = {"idx": len(calls), "stage": "b" if inj == "KB" else "m0"}
                copy = None
                break
            if ret < 0:
                close_copy()
            continue
        # ---- single-call primitives
        if name == "open":
            text = ("create(%s)" if "creat" in args[1] else "openw(%s)") % pct(cp(args[0]))
        elif name == "lock":
            text = "lock(%s)" % pct(canon_temp(_fdpath(args[0]), victims))
        elif name == "unlock":
            text = "unlock(%s)" % pct(canon_temp(_fdpath(args[0]), victims))
        elif name in ("rename", "link"):
            text = "%s(%s,%s)" % (name, pct(cp(args[0])), pct(cp(args[1])))
        elif name == "symlink":
            text = "symlink(%s,%s)" % (pct(cp(args[0])), pct(cp(args[1])))
        elif name in ("unlink", "mkdir"):
            text = "%s(%s)" % (name, pct(cp(args[0])))
        elif name == "ficlone":
            text = "clone(%s,%s)" % (pct(canon_temp(_fdpath(args[0]), victims)), pct(canon_temp(_fdpath(args[1]), victims)))
        elif name == "utimes":
            a0 = _fdpath(args[0]) if args[0].startswith("fd=") else unpct(args[0])
            text = "utimes(%s)" % pct(canon_temp(a0, victims))
        else:
            text = "%s(%s)" % (name, ",".join(args))      # rmdir, chmod, chown, truncate, write outside a copy: not in the model
        if killed:
            kill = {"idx": len(calls), "stage": "b" if inj == "KB" else "a"}
            if inj == "KA" and name == "ficlone" and ret < 0:
                kill["env_fail"] = ERRNAME.get(err, "EOTHER")      # the sandbox refused the clone, then the kill
            elif inj == "KA" and ret < 0 and err == 36:
                kill["env_fail"] = "EOTHER"                         # ENAMETOOLONG (no name-length limit in the model)
            elif inj == "KA" and name == "open" and ret < 0 and err == 13:
                kill["env_fail"] = "EPERM"                          # EACCES (permissions are not modelled)
            break
        env_fail = name == "ficlone" and ret < 0 and not injected
        if ret < 0 and err == 36 and not injected:
            # ENAMETOOLONG: FsModel.v has no limit on the length of a name; the kernel's refusal (e.g. of the temp name of a
            # file whose own name is longer than 230 bytes) is fed to the model as an environment fault of that call
            res, env_fail = "EOTHER", True
        if name == "open" and ret < 0 and err == 13 and not injected:
            # EACCES: permissions are not part of FsModel.v; the refusal is fed to the model as an environment fault
            res, env_fail = "EPERM", True
        entry = {"text": text, "kind": name, "ks": [n], "inj": injected, "res": res, "partial": None,
                 "sim": inj == "S", "env_fail": env_fail}
        if name in ("lock", "unlock"):
            entry["flock"] = dict(a.split("=", 1) for a in args[1:] if "=" in a)
        calls.append(entry)
    else:
        close_copy()
    return calls, kill


def norm_model_call(c):
    """model trace entry 'name(args)=res[!]' -> (text without the utimes value, res, injected)"""
    inj = c.endswith("!")
    if inj:
        c = c[:-1]
    text, res = c.rsplit("=", 1)
    m = re.match(r"utimes\((.*),(-?\d+)\)$", text)
    if m:
        text = "utimes(%s)" % m.group(1)
    return text, res, inj


def normtext(t):
    """lexical normalisation of the paths inside an abstract call (the model prints normalised operands)"""
    m = re.match(r"([a-z_]+)\((.*)\)$", t)
    if not m:
        return t
    args = [pct(os.path.normpath(unpct(a))) if a.startswith("/") else a for a in m.group(2).split(",")]
    return "%s(%s)" % (m.group(1), ",".join(args))


# ------------------------------------------------------------------------------------------------
# model case

def tree_tokens(inv, locked_inos=()):
    """initial inventory -> tree= entries (all ancestors of the scenario become directories)"""
    ents, inomap = [], {}
    dirs = set()
    for p, e in inv.items():
        if e[0] == "D":
            dirs.add(p)
        d = os.path.dirname(p)
        while True:
            dirs.add(d)
            if d == "/":
                break
            d = os.path.dirname(d)
    for d in sorted(dirs):
        ents.append("D" + pct(d))
    for p in sorted(inv):
        e = inv[p]
        if e[0] == "F":
            if e[1] not in inomap:
                inomap[e[1]] = len(inomap) + 2
                ents.append("I%d:%d:%s" % (inomap[e[1]], e[2], e[3].hex().upper() or "-"))
            ents.append("F%d@%s" % (inomap[e[1]], pct(p)))
        elif e[0] == "L":
            # the model keeps absolute link targets: a relative one is resolved against the link's directory
            t = e[1] if e[1].startswith("/") else os.path.normpath(os.path.join(os.path.dirname(p), e[1]))
            ents.append("L%s@%s" % (pct(t), pct(p)))
    for i in locked_inos:
        if i in inomap:
            ents.append("K%d" % inomap[i])
    return ents, inomap


def model_line(sl, inv0, cmds, oracle, crash, queries, locked_inos=()):
    ents, inomap = tree_tokens(inv0, locked_inos)
    orc = ",".join("%d:%s%s" % (i, e, "" if part is None else ":%d" % part) for i, (e, part) in sorted(oracle.items()))
    return "run sl=%d tree=%s cmds=%s oracle=%s crash=%s q=%s" % (
        1 if sl else 0, ",".join(ents), ";".join(cmd_text(c) for c in cmds) or "-", orc or "-", crash or "-",
        ",".join(pct(q) for q in queries))


def parse_model_out(line):
    if line.startswith("EXN"):
        raise RuntimeError("model driver: " + line)
    kv = dict(t.split("=", 1) for t in line.split(" "))
    tr = [x for x in kv["trace"].split(";") if x]
    return {"trace": tr, "results": [x for x in kv["results"].split(",") if x], "processed": int(kv["processed"]),
            "warn": int(kv["warn"]), "state": kv["state"].split(",") if kv["state"] else []}


def oracle_from_calls(calls):
    """the fault oracle of the model = exactly the failures the shim injected (plus the sandbox's refusal of
    FICLONE, an environment fault), indexed by primitive-call position"""
    o = {}
    for i, c in enumerate(calls):
        if c["inj"] and c["res"] != "ok":
            o[i] = (c["res"], c.get("partial") if c["kind"] == "copy" else None)
        elif c.get("env_fail"):
            o[i] = (c["res"], None)
        elif c["kind"] == "copy" and c.get("nat_fail"):
            # a copy that failed by itself (never produced by the generators): tell the model what was observed
            o[i] = (c["res"], c.get("partial"))
    return o


def compare_trace(calls, model_trace, killed):
    """(i) abstract libc trace == model call sequence (class calls only; prefix when the process was killed)"""
    mt = [norm_model_call(c) for c in model_trace if not c.startswith("?")]
    real = [(normtext(c["text"]), c["res"], bool(c["inj"] and c["res"] != "ok") or bool(c.get("env_fail"))
             or bool(c["kind"] == "copy" and c.get("nat_fail"))) for c in calls]
    if killed:
        mt = mt[:len(real)]
    if real != mt:
        for i in range(max(len(real), len(mt))):
            a = real[i] if i < len(real) else None
            b = mt[i] if i < len(mt) else None
            if a != b:
                return "call %d: implementation %s, model %s" % (i, a, b)
    return None


def view_of_real(e, inomap_real, known_mtimes):
    if e is None:
        return ("-",)
    if e[0] == "D":
        return ("D",)
    if e[0] == "L":
        return ("L", os.path.normpath(e[1]))
    return ("F", e[1], e[2] if e[2] in known_mtimes else "NOW", e[3])


def view_of_model(v):
    if v == "-":
        return ("-",)
    if v == "D":
        return ("D",)
    if v.startswith("L"):
        return ("L", unpct(v[1:]))
    ino, mt, hx = v[1:].split(":")
    return ("F", int(ino), int(mt) if int(mt) >= 0 else "NOW", b"" if hx == "-" else bytes.fromhex(hx))


def compare_state(inv_real, queries, model_state, victims, known_mtimes):
    """(ii) final inventory == model state: kind, link target, bytes, mtime class, and the partition of the
    regular files into inodes"""
    real = {}
    for p, e in inv_real.items():
        real[canon_temp(p, victims)] = e
    diffs = []
    ino_r, ino_m = {}, {}
    for q, mv in zip(queries, model_state):
        r = view_of_real(real.get(q), None, known_mtimes)
        m = view_of_model(mv)
        if r[0] != m[0]:
            diffs.append("%s: implementation %s, model %s" % (q, r[0], m[0]))
            continue
        if r[0] == "L" and os.path.normpath(os.path.join(os.path.dirname(q), r[1])) != m[1]:
            diffs.append("%s: link target %s vs %s" % (q, r[1], m[1]))
        if r[0] == "F":
            if r[3] != m[3]:
                diffs.append("%s: bytes %r vs model %r" % (q, r[3][:40], m[3][:40]))
            if r[2] != m[2]:
                diffs.append("%s: mtime %s vs model %s" % (q, r[2], m[2]))
            ino_r.setdefault(r[1], []).append(q)
            ino_m.setdefault(m[1], []).append(q)
    extra = set(real) - set(queries)
    if extra:
        diffs.append("paths not queried: %s" % sorted(extra)[:3])
    if sorted(map(sorted, ino_r.values())) != sorted(map(sorted, ino_m.values())):
        diffs.append("hard-link structure: implementation %s, model %s" % (sorted(map(sorted, ino_r.values())), sorted(map(sorted, ino_m.values()))))
    return diffs
